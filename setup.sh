#!/bin/sh
# Builds the mirfacts driver (zero crate dependencies) and warms the dependency check cache. Offline.
set -e
cd "$(dirname "$0")"
export CARGO_NET_OFFLINE=true
(cd driver && cargo +nightly build --release --offline)
python3 - <<'PY'
import sys
sys.path.insert(0, '.')
from analysis import facts
f = facts.load()
print("facts ready:", f.tree_hash, len(f.bodies), "bodies")
PY

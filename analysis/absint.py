"""Forward abstract interpreter over serialised MIR (DESIGN §3.3).

analyze(body) runs a flow-sensitive fix-point with the domain of absdom.State and reports, for every
panic-capable construct (sink classes S1..S7 of DESIGN §3.2), whether the facts that hold on *every*
path reaching it imply that it cannot fire.  Release-build semantics: overflow asserts are ignored and
narrow arithmetic wraps (results that may leave the type's range become unknown); unsigned subtraction
that may go below zero becomes unknown.  Assumptions (listed in every evidence file):
  A1  container lengths are below 2^31
  A2  64-bit additions / multiplications of offsets and lengths do not exceed 2^64
"""
import os
import re

from .absdom import (FULL, TOP, State, iv_add, iv_empty, iv_join, iv_meet, iv_mul, iv_neg, iv_sub, iv_within,
                     term_place, under)
from .expr import ExprBuilder, show

INT_RANGE = {
    "u8": (0, 255), "u16": (0, 65535), "u32": (0, 2 ** 32 - 1), "u64": (0, None), "usize": (0, None), "u128": (0, None),
    "i8": (-128, 127), "i16": (-32768, 32767), "i32": (-2 ** 31, 2 ** 31 - 1), "i64": (None, None),
    "isize": (None, None), "i128": (None, None),
}
LEN_MAX = 2 ** 31 - 1
GOOD_VARIANT = {"std::option::Option": ("Some", 1), "std::result::Result": ("Ok", 0),
                "std::ops::ControlFlow": ("Continue", 0)}
PANIC_FN = re.compile(r"(^|::)(panicking::|rt::begin_panic|option::unwrap_failed|option::expect_failed|result::unwrap_failed|"
                      r"slice::index::slice_|str::slice_error_fail|panic_const|panic_explicit|unreachable_display|"
                      r"cell::panic_already|panic_fmt|assert_failed)")


class Obl:
    """one potential panic origin"""
    __slots__ = ("block", "cls", "ok", "rule", "desc", "line", "file", "lift", "what", "trust", "dirty", "raw")

    def __init__(self, block, cls, ok, rule, desc, line, file, what, lift=None, trust=None):
        self.block = block
        self.cls = cls
        self.ok = ok
        self.rule = rule
        self.desc = desc
        self.line = line
        self.file = file
        self.what = what
        self.lift = lift
        self.trust = trust
        self.dirty = frozenset()
        self.raw = None        # unproven constraints as instantiated at this point (for the trust rules)


class Result:
    def __init__(self, body):
        self.body = body
        self.obls = []
        self.in_states = {}
        self.ret_states = []     # states at return terminators
        self.iterations = 0
        self.call_states = {}    # block -> state before call (for lifting)
        self.loops = []


def is_mut_ref(ty):
    return ty["k"] in ("ref", "ptr") and ty.get("mut")


class Analyzer:
    def __init__(self, facts, summaries=None, interproc=None):
        self.f = facts
        self.T = facts.types
        self.summaries = summaries      # object with .mod(callee id) / .ret(callee id)  (optional)
        self.interproc = interproc
        self._promoted_cache = {}
        self.nowrap = None              # optional predicate(term): additions of small constants to such terms are assumed not to wrap (A3)
        self.invariants = []            # global field invariants (assume on read / obligation on write), see field_inv()
        self.cast_log = None            # when a list: (rvalue, source interval, from type, to type) of every int->int cast
        self.watch = None               # optional predicate on callee paths: argument values are recorded in Result.call_states
        self.closure_seeds = {}         # closure body id -> {arg local: (lo, hi)}
        self.mag = False                # C03: emit MAG obligations at loop-count / allocation-size / dimension sinks
        self.s9_unsigned = bool(os.environ.get('VERIF_S9U'))   # evaluate unsigned-subtraction overflow checks (class S9u)
        self.infeasible = ()            # (block, successor) edges a rule has shown to be dead (C09: R-ORIGIN)
        self.prune = True               # drop facts about dead temporaries on every edge (State.prune_dead)
        self.mag_pos = frozenset()      # C03: the cursor coordinate terms reachable from the parameters (bounded on entry by C09)
        self.mag_soft = frozenset()     # C03: terms whose entry invariant is not to be relied on for loop trip counts (see interproc.analyse)
        self.debug_head = None          # (block, callback(pred, old, new_in, joined)) for debugging a loop head
        self.restart_nested = not os.environ.get('VERIF_NO_RESTART')      # solve nested loops again once the enclosing fix-point is known (see analyze)
        self.narrow_passes = int(os.environ.get('VERIF_NARROW', '2'))          # descending iterations after the ascending fix-point (see analyze)
        self.cargs = {}                 # values of the body's const generic parameters (index -> int) for a specialised analysis

    # ------------------------------------------------------------------ types
    def ty_range(self, tix):
        ty = self.T[tix]
        k = ty["k"]
        if k == "int":
            return INT_RANGE.get(ty["n"], FULL)
        if k == "bool":
            return (0, 1)
        if k == "char":
            return (0, 0x10FFFF)
        return None

    def is_num(self, tix):
        return self.T[tix]["k"] in ("int", "bool", "char")

    def pointee(self, tix):
        ty = self.T[tix]
        if ty["k"] in ("ref", "ptr"):
            return ty["e"]
        if ty["k"] == "adt" and ty["adt"] in ("std::boxed::Box", "std::rc::Rc", "std::sync::Arc") and ty["args"]:
            return ty["args"][0]
        return None

    # ------------------------------------------------------------------ places
    def canon(self, st, pj):
        """-> (root, steps, type index) with references resolved, or None when the place is not stable
        (goes through an index projection)"""
        root = pj["l"]
        steps = ()
        tix = self.b.locals[root]["t"]
        for el in pj.get("p", ()):
            if el == "*":
                if steps or root not in self.multidef:
                    v = st.sym.get((root, steps))
                    if v is not None and v[0] == "ref" and v[1] is not None:
                        root, steps = v[1], v[2]
                        tix = self.pointee(tix)
                        if tix is None:
                            return None
                        continue
                nt = self.pointee(tix)
                if nt is None:
                    return None
                steps = steps + ("*",)
                tix = nt
            elif el[0] == "f":
                steps = steps + (el[2],)
                tix = el[4]
            elif el[0] == "dc":
                steps = steps + (("dc", el[1]),)
            elif el[0] == "i":
                iv = st.sym.get((el[1], ()))
                if iv is None:
                    r = self.ty_range(self.b.locals[el[1]]["t"])
                    iv = ("n", ("v", el[1], ()), 0) if r is not None else None
                if iv is None or iv[0] != "n":
                    return None
                steps = steps + (("ix", iv),)
                tix = self.T[tix].get("e")
                if tix is None:
                    return None
            elif el[0] == "ci" and not el[3]:
                steps = steps + (("ix", ("n", None, el[1])),)
                tix = self.T[tix].get("e")
                if tix is None:
                    return None
            else:
                return None
        return root, steps, tix

    def field_inv(self, pj):
        """global field invariant matching the *end* of a place's projection: (lo, hi, name) or None.
        An invariant is (owner ADT path, (field, …), lo, hi): e.g. TerminalState.size.width >= 1."""
        if not self.invariants:
            return None
        fields = [el for el in pj.get("p", ()) if el != "*" and el[0] == "f"]
        proj = pj.get("p", ())
        if not proj or proj[-1] == "*" or proj[-1][0] != "f":
            return None
        for owner, path, lo, hi in self.invariants:
            n = len(path)
            if len(fields) >= n and tuple(el[2] for el in fields[-n:]) == path and fields[-n][3] == owner:
                # the matched fields must be the trailing projection elements (no deref / index in between)
                tail = proj[-n:]
                if all(el != "*" and el[0] == "f" for el in tail):
                    return (lo, hi, "%s.%s" % (owner.split("::")[-1], ".".join(path)))
        return None

    def field_inv_struct(self, pj):
        """invariants whose path starts at the struct stored at this place: [(remaining field path, lo, hi, name)]"""
        out = []
        if not self.invariants:
            return out
        proj = pj.get("p", ())
        if not proj or proj[-1] == "*" or proj[-1][0] != "f":
            return out
        for owner, path, lo, hi in self.invariants:
            for k in range(1, len(path)):
                fields = [el for el in proj if el != "*" and el[0] == "f"]
                if len(fields) >= k and tuple(el[2] for el in fields[-k:]) == path[:k] and fields[-k][3] == owner \
                        and all(el != "*" and el[0] == "f" for el in proj[-k:]):
                    out.append((path[k:], lo, hi, "%s.%s" % (owner.split("::")[-1], ".".join(path))))
        return out

    def len_val(self, st, place, tix):
        """value of the length of the container at `place`"""
        ty = self.T[tix] if tix is not None else None
        if ty is not None and ty["k"] == "array" and ty.get("len") is not None:
            return ("n", None, ty["len"])
        t = ("len", place[0], place[1])
        st.set_iv(t, 0, LEN_MAX)
        return ("n", t, 0)

    def read_place(self, st, pj):
        pp = pj.get("p", ())
        if len(pp) == 1 and pp[0] != "*" and pp[0][0] in ("i", "ci"):
            base = st.sym.get((pj["l"], ()))
            if base is not None and base[0] == "constdef":
                rng = self.const_table_range(base[1])
                if rng is not None:
                    return ("iv", rng[0], rng[1]), self.place_type(pj)
        c = self.canon(st, pj)
        if c is None:
            # unstable place: only its type is known
            tix = self.place_type(pj)
            r = self.ty_range(tix) if tix is not None else None
            if r is not None:
                return ("iv", r[0], r[1]), tix
            return TOP, tix
        root, steps, tix = c
        place = (root, steps)
        v = st.sym.get(place)
        if v is not None:
            if v[0] == "n" and v[1] is None:
                return v, tix
            return v, tix
        if isinstance(root, str) and root.startswith("promoted:") and not steps:
            pv = self.promoted_scalar(root[len("promoted:"):])
            if pv is not None:
                return ("n", None, pv), tix
        # payload of an option-like value whose payload is known
        if len(steps) >= 2 and isinstance(steps[-2], tuple) and steps[-2][0] == "dc":
            base = st.sym.get((root, steps[:-2]))
            if base is not None and base[0] == "opt":
                pay = base[2] if base[1] == "some" else base[3] if base[1] == "cond" else None
                if pay is not None and steps[-1] == "0":
                    return pay, tix
        # element of a compile-time constant table of integers: its value lies between the table's extremes
        if len(steps) == 1 and isinstance(steps[0], tuple) and steps[0][0] == "ix":
            base = st.sym.get((root, ()))
            if base is not None and base[0] == "constdef":
                rng = self.const_table_range(base[1])
                if rng is not None:
                    return ("iv", rng[0], rng[1]), tix
        r = self.ty_range(tix)
        if r is not None:
            t = ("v", root, steps)
            st.set_iv(t, r[0], r[1])
            inv = self.field_inv(pj)
            if inv is not None:
                st.set_iv(t, inv[0], inv[1])
            return ("n", t, 0), tix
        ty = self.T[tix]
        if ty["k"] in ("ref", "ptr"):
            return ("ref", root, steps + ("*",)), tix
        return TOP, tix

    MAG_LIMIT = 65536
    # magnitude sources (set by the C03 rule): field names, enum variant names, callee patterns
    mag_fields = frozenset()
    mag_variants = frozenset()
    mag_calls = None
    mag_prop = None

    def term_inherent_taint(self, t):
        for s_ in t[2]:
            if s_ in self.mag_fields:
                return True
            if isinstance(s_, tuple) and s_[0] == "dc" and s_[1] in self.mag_variants:
                return True
        return False

    def term_tainted(self, st, t):
        if t is None:
            return False
        if self.term_inherent_taint(t):
            return True
        if not st.taint:
            return False
        if t in st.taint:
            return True
        # a tainted container / reference local taints what is read through it
        steps = t[2]
        for n in range(len(steps)):
            if ("v", t[1], steps[:n]) in st.taint:
                return True
        return False

    def mag_tainted(self, st, v):
        """may the value derive from a magnitude source that has not been bounded since?"""
        if v is None:
            return False
        k = v[0]
        if k == "pending":
            return self.mag_tainted(st, v[1])
        if k in ("sum", "diff"):
            return self.mag_tainted(st, v[1]) or self.mag_tainted(st, v[2]) or self.mag_tainted(st, v[3])
        if k in ("rem", "quot"):
            return self.mag_tainted(st, v[1])
        if k == "nw":
            return self.term_tainted(st, v[1])
        if k == "n":
            if v[1] is None:
                return False
            w = st.norm(v)
            if w[0] == "n" and w[1] is not None and self.term_tainted(st, w[1]):
                return True
            return self.term_tainted(st, v[1])
        if k == "ref" and v[1] is not None and not isinstance(v[1], str):
            t = ("v", v[1], v[2])
            if self.term_tainted(st, t):
                return True
            pl = (v[1], v[2])
            from .absdom import under as _under, term_place as _tp
            return any(_under(_tp(x), pl) for x in st.taint)
        if k == "opt" and len(v) > 2:
            return any(self.mag_tainted(st, x) for x in v[2:] if isinstance(x, tuple) and x and x[0] in ("n", "nw", "ref", "sum", "diff"))
        return False

    def rv_tainted(self, st, rv, v):
        k = rv["k"]
        if k == "bin" and rv.get("op") in ("Eq", "Ne", "Lt", "Le", "Gt", "Ge"):
            return False
        if self.mag_tainted(st, v):
            return True
        for key in ("a", "b"):
            o = rv.get(key)
            if isinstance(o, dict) and ("copy" in o or "move" in o):
                ov, _ = self.eval_op_raw(st, o)
                if self.mag_tainted(st, ov):
                    return True
                cn = self.canon(st, o.get("copy") or o.get("move"))
                if cn is not None and self.term_tainted(st, ("v", cn[0], cn[1])):
                    return True
        if k in ("ref", "rawptr") and isinstance(rv.get("p"), dict):
            c = self.canon(st, rv["p"])
            if c is not None and self.term_tainted(st, ("v", c[0], c[1])):
                return True
        if k == "agg":
            for o in rv.get("ops", []):
                if isinstance(o, dict) and ("copy" in o or "move" in o):
                    ov, _ = self.eval_op_raw(st, o)
                    if self.mag_tainted(st, ov):
                        return True
        return False

    def taint_place(self, st, pj):
        c = self.canon(st, pj)
        if c is None:
            return
        t = ("v", c[0], c[1])
        if not self.mag_bounded(st, ("n", t, 0), deep=False):
            st.taint = st.taint | {t}

    def sanitise(self, st):
        """drop the taint of terms that are bounded now (after a guard)"""
        if st.taint:
            st.taint = frozenset(t for t in st.taint if not self.mag_bounded(st, ("n", t, 0), deep=False))

    @staticmethod
    def mag_bterm(t):
        """terms whose magnitude is bounded by the screen / the input length: container lengths and dimension fields"""
        if t is None:
            return False
        if t[0] == "len":
            return True
        steps = t[2]
        return len(steps) >= 2 and steps[-1] in ("width", "height") and steps[-2] == "size"

    def mag_bounded(self, st, v, deep=True, soft=False):
        """is the value bounded by a constant <= 2^16 or by (a container length / a dimension field) + such a constant?
        The cursor coordinates as they were on entry (not written since) count as bounded - C09's guarantee - except, with
        soft, inside a helper whose caller may have moved the cursor just before the call."""
        if v is None:
            return False
        if self.mag_pos and v[0] == "n" and v[1] is not None and v[2] <= self.MAG_LIMIT:
            n_ = st.norm(v)
            for t_ in (v[1], n_[1] if n_[0] == "n" else None):
                if t_ is not None and t_ in self.mag_pos and not (soft and t_ in self.mag_soft) and self.liftable_term(t_, st.dirty):
                    return True
        if v[0] == "pending":
            v = v[1]
        if v[0] in ("sum", "diff", "rem", "quot"):
            v = v[1]
        if v[0] == "nw":
            v = self.reduce_nw(st, v)
        if v[0] == "b":
            return True
        if v[0] not in ("n", "iv"):
            return False
        i = st.val_iv(v)
        if i[1] is not None and i[1] <= self.MAG_LIMIT:
            return True
        if v[0] == "n" and v[1] is not None:
            v = st.norm(v) if hasattr(st, "norm") else v
            if v[0] != "n" or v[1] is None:
                i = st.val_iv(v)
                return i[1] is not None and i[1] <= self.MAG_LIMIT
            if self.mag_bterm(v[1]) and v[2] <= self.MAG_LIMIT:
                return True
            if not deep:
                for (x, y), d in st.rel.items():
                    if x == v[1] and self.mag_bterm(y) and d + v[2] <= self.MAG_LIMIT:
                        return True
                return False
            bts = {y for (_, y) in st.rel if self.mag_bterm(y)}
            for y in bts:
                d = st.bound_diff(v[1], y, depth=4)
                if d is not None and d + v[2] <= self.MAG_LIMIT:
                    return True
        return False

    def mag_lo_bounded(self, st, v, soft=False):
        """is the value bounded below by -2^16 (or by a non-negative dimension / length minus such a constant)?"""
        if v is None:
            return False
        if soft and self.mag_soft and v[0] == "n" and v[1] is not None:
            n_ = st.norm(v)
            if v[1] in self.mag_soft or (n_[0] == "n" and n_[1] in self.mag_soft):
                return False
        if v[0] == "pending":
            v = v[1]
        if v[0] in ("sum", "diff", "rem", "quot"):
            v = v[1]
        if v[0] == "nw":
            v = self.reduce_nw(st, v)
        if v[0] == "b":
            return True
        if v[0] not in ("n", "iv"):
            return False
        i = st.val_iv(v)
        if i[0] is not None and i[0] >= -self.MAG_LIMIT:
            return True
        if v[0] == "n" and v[1] is not None:
            v = st.norm(v)
            if v[0] != "n" or v[1] is None:
                i = st.val_iv(v)
                return i[0] is not None and i[0] >= -self.MAG_LIMIT
            if v[1][0] == "len" and v[2] >= -self.MAG_LIMIT:
                return True
            for (x, y), d in st.rel.items():
                # x - v <= d with x >= 0  ==>  v >= -d
                if y == v[1] and (x[0] == "len" or (st.iv.get(x, FULL)[0] is not None and st.iv.get(x, FULL)[0] >= 0)) and d - v[2] <= self.MAG_LIMIT:
                    return True
        return False

    def mag_parts(self, st, v, lo=False, depth=3, soft=False):
        """[(value, lo)]: the leaves that must each be bounded (above, or below when lo) for v to be; [] when v is.
        A place that the state remembers as a difference / sum of two values is resolved into its operands."""
        if (self.mag_lo_bounded(st, v, soft) if lo else self.mag_bounded(st, v, soft=soft)):
            return []
        w = v
        if w is not None and w[0] == "pending":
            w = w[1]
        if w is not None and w[0] in ("sum", "diff") and depth > 0:
            a, b = w[2], w[3]
            if w[0] == "sum":
                return self.mag_parts(st, a, lo, depth - 1, soft) + self.mag_parts(st, b, lo, depth - 1, soft)
            return self.mag_parts(st, a, lo, depth - 1, soft) + self.mag_parts(st, b, not lo, depth - 1, soft)
        if w is not None and w[0] == "n" and w[1] is not None and depth > 0 and st.lin:
            n = st.norm(w)
            if n[0] == "n" and n[1] is not None and n[1][0] == "v":
                ab = st.lin.get((n[1][1], n[1][2]))
                if ab is not None and len(ab) == 4 and ab[3] != "any" and (ab[3] == "lo") != lo:
                    ab = None           # remembered for one side only
                if ab is not None:
                    a, b = ab[0], ab[1]
                    if len(ab) >= 3 and ab[2] == "+":
                        return self.mag_parts(st, a, lo, depth - 1, soft) + self.mag_parts(st, b, lo, depth - 1, soft)
                    return self.mag_parts(st, a, lo, depth - 1, soft) + self.mag_parts(st, b, not lo, depth - 1, soft)
        return [(v, lo)]

    def mag_cands(self, st, v, lo):
        """clean parameter terms whose bound (above / below) bounds v"""
        w = v
        if w is None:
            return []
        if w[0] == "pending":
            w = w[1]
        if w[0] in ("sum", "diff", "rem", "quot"):
            w = w[1]
        if w[0] == "nw":
            w = ("n", w[1], w[2] + w[3])
        cands = []
        if w[0] == "n" and w[1] is not None:
            w = st.norm(w)
            if w[0] == "n" and w[1] is not None and self.term_inherent_taint(w[1]):
                return []          # the number is itself a magnitude source (a decoded parameter): no caller can bound it
            if w[0] == "n" and w[1] is not None:
                if self.liftable_term(w[1], st.dirty):
                    cands.append(w)
                elif not lo:
                    # v <= P + d for clean parameter terms P: bounding any of them bounds v
                    for (x, y), d in st.rel.items():
                        if x == w[1] and self.liftable_term(y, st.dirty) and isinstance(y[1], int) and 1 <= y[1] <= self.b.argc \
                                and d + w[2] <= self.MAG_LIMIT:
                            cands.append(("n", y, d + w[2]))
                else:
                    for (x, y), d in st.rel.items():
                        if y == w[1] and self.liftable_term(x, st.dirty) and isinstance(x[1], int) and 1 <= x[1] <= self.b.argc \
                                and d - w[2] <= self.MAG_LIMIT:
                            cands.append(("n", x, -d + w[2]))
        return cands

    def mag_sink(self, st, bi, t, v, what, desc=None, tainted=None, lo=False, soft=False):
        """obligation: the value driving a loop count / allocation / dimension is magnitude-bounded (from above; with lo: from
        below).  A value the state knows as a difference or sum is split into its operands: one obligation per leaf."""
        if not self.mag or not self.collect:
            return
        leaves = self.mag_parts(st, v, lo, soft=soft)
        if not leaves:
            self.oblige(bi, "MAG", True, "B", desc or self.describe(t), t, what, None)
            self.res.obls[-1].raw = ("maglo" if lo else "mag", v, False)
            return
        for (lv, llo) in leaves:
            cands = self.mag_cands(st, lv, llo)
            kind = "maglo" if llo else "mag"
            lift = (kind, cands) if cands else None
            self.oblige(bi, "MAG", False, None, desc or self.describe(t), t, what, lift)
            tv = self.mag_tainted(st, lv) or (tainted if (tainted is not None and len(leaves) == 1) else False)
            self.res.obls[-1].raw = (kind, lv, bool(tv))

    def const_table_range(self, name):
        """(min, max) over a flat constant table of integers, or None"""
        cache = self.__dict__.setdefault("_ctr", {})
        if name not in cache:
            r = None
            try:
                tab = self.f.const_table(name)
                if isinstance(tab, list) and tab and all(isinstance(x, int) and not isinstance(x, bool) for x in tab):
                    r = (min(tab), max(tab))
            except Exception:
                r = None
            cache[name] = r
        return cache[name]

    def place_type(self, pj):
        tix = self.b.locals[pj["l"]]["t"]
        for el in pj.get("p", ()):
            if el == "*":
                tix = self.pointee(tix)
            elif el[0] == "f":
                tix = el[4]
            elif el[0] == "dc":
                pass
            elif el[0] in ("i", "ci"):
                ty = self.T[tix]
                tix = ty.get("e")
            elif el[0] == "sub":
                pass
            else:
                return None
            if tix is None:
                return None
        return tix

    def op_type(self, op):
        if "const" in op:
            return op["const"]["ty"]
        return self.place_type(op.get("copy") or op.get("move"))

    def eval_op(self, st, op):
        """-> (value, type index); composite arithmetic results are reduced to their interval"""
        v, t = self.eval_op_raw(st, op)
        if v[0] == "pending":
            v = v[1]
        if v[0] in ("sum", "diff", "rem", "quot"):
            v = v[1]
        if v[0] == "nw":
            v = self.reduce_nw(st, v, t)
        return v, t

    def reduce_nw(self, st, v, tix=None):
        x = ("n", v[1], v[2])
        if st.prove_le(("n", None, 0), x, 0):
            return ("n", v[1], v[2] + v[3])
        r = self.ty_range(tix) if tix is not None else None
        return ("iv", 0, r[1] if r else None)

    def index_constraints(self, st, raw, ln, c):
        """constraints for `raw - ln <= c` where raw may be a signed value reinterpreted as unsigned"""
        if raw[0] == "nw":
            x = ("n", raw[1], raw[2])
            return ("n", raw[1], raw[2] + raw[3]), [(("n", None, 0), x, 0), (("n", raw[1], raw[2] + raw[3]), ln, c)]
        if raw[0] in ("pending",):
            raw = raw[1]
        if raw[0] in ("sum", "diff", "rem"):
            raw = raw[1]
        return raw, [(raw, ln, c)]

    def conj_check(self, st, cons):
        """-> (all proven, unproven constraints)"""
        un = [(a, b, c) for (a, b, c) in cons if not (a[0] in ("n", "iv") and b[0] in ("n", "iv") and st.prove_le(a, b, c))]
        return (not un), un

    @staticmethod
    def fail_tag(cons, un):
        """which part of a conjunctive obligation is unproven: lower (first of two) / upper (last) — goes into the key,
        so that a site reviewed for one part still alarms when the other part stops being provable"""
        if not un or len(cons) == 1:
            return ""
        names = ["lower"] + ["mid"] * (len(cons) - 2) + ["upper"]
        tags = [names[i] for i, c in enumerate(cons) if c in un]
        return " #" + "+".join(tags)

    def liftable_term(self, t, dirty):
        """term rooted at a parameter whose value at this point is still its value at function entry"""
        if t is None:
            return True
        root = t[1]
        if not isinstance(root, int) or not (1 <= root <= self.b.argc):
            return False
        pl = term_place(t)
        if not pl[1] and self.b.defs.get(root):
            return False
        from .interproc import _written_hits
        return not any(_written_hits(w, pl) for w in dirty)

    def conj_lift(self, un, st=None):
        """lift form of the unproven constraints; a term that is not a clean parameter term is replaced, when the
        state relates it to one, by that term (giving a sufficient, stronger constraint)"""
        st = st or self.cur_state
        dirty = self.cur_dirty
        out = []
        strong = False
        for (a, b, c) in un:
            if a[0] != "n" or b[0] != "n":
                return None
            a2, b2, c2 = a, b, c
            if not self.liftable_term(a[1], dirty) or not self.liftable_term(b[1], dirty):
                strong = True
            if not self.liftable_term(a[1], dirty):
                # need P with  a - P <= d  :  then  P - b <= c - d  suffices
                best = None
                if st is not None:
                    for (x, y), d in st.rel.items():
                        if x == a[1] and self.liftable_term(y, dirty) and (best is None or d < best[1]):
                            best = (y, d)
                    if best is None:
                        hi = st.iv.get(a[1], (None, None))[1]
                        if hi is not None:
                            best = (None, hi)
                if best is None:
                    return None
                a2 = ("n", best[0], 0)
                c2 = c2 - best[1] - a[2]
            if not self.liftable_term(b[1], dirty):
                # need P with  P - b <= d  :  then  a - P <= c - d  suffices
                best = None
                if st is not None:
                    for (x, y), d in st.rel.items():
                        if y == b[1] and self.liftable_term(x, dirty) and (best is None or d < best[1]):
                            best = (x, d)
                    if best is None:
                        lo = st.iv.get(b[1], (None, None))[0]
                        if lo is not None:
                            best = (None, -lo)
                if best is None:
                    return None
                b2 = ("n", best[0], 0)
                c2 = c2 - best[1] + b[2]
            if a2[1] is None and b2[1] is None:
                if a2[2] - b2[2] <= c2:
                    continue          # became trivially true
                return None
            if a2[1] is not None and a2[1] == b2[1]:
                if a2[2] - b2[2] <= c2:
                    continue          # trivially true
                return None           # the strengthened form is unsatisfiable: nothing a caller could establish
            out.append((a2, b2, c2))
        if not out:
            return None
        # third component: the constraint was strengthened (sufficient, no longer necessary)
        return ("conj", out, strong)

    def conj_assume(self, st, cons):
        for (a, b, c) in cons:
            if a[0] in ("n", "iv") and b[0] in ("n", "iv"):
                st.add_le(a, b, c)

    def promoted_range(self, pid):
        """(lo, hi) of a promoted `a..=b` / `a..b` constant, hi inclusive-or-exclusive as written"""
        if pid in self._promoted_cache:
            return self._promoted_cache[pid]
        out = None
        b = self.f.bodies.get(pid)
        if b is not None:
            for _, t in b.calls():
                if (t["callee"].get("resolved") or "").endswith("RangeInclusive::<Idx>::new"):
                    a = [x.get("const", {}).get("val") for x in t["args"]]
                    if len(a) == 2 and None not in a:
                        out = (a[0], a[1])
            for _, _, s in b.stmts():
                if s["k"] == "assign" and s["rv"]["k"] == "agg" and s["rv"].get("adt") in ("std::ops::Range", "std::ops::RangeInclusive"):
                    a = [x.get("const", {}).get("val") for x in s["rv"]["ops"]]
                    if len(a) >= 2 and None not in a[:2]:
                        out = (a[0], a[1])
        self._promoted_cache[pid] = out
        return out

    def promoted_scalar(self, pid):
        """value of a promoted `&<integer literal>` (body: `_1 = K; _0 = &_1`), or None"""
        b = self.f.bodies.get(pid)
        if b is None or b.nblocks != 1:
            return None
        vals = {}
        ret = None
        for bi, k, s in b.stmts():
            if s["k"] != "assign" or s["p"].get("p"):
                return None
            rv = s["rv"]
            if rv["k"] == "use" and "const" in rv["a"] and "val" in rv["a"]["const"]:
                vals[s["p"]["l"]] = rv["a"]["const"]["val"]
            elif rv["k"] == "ref" and s["p"]["l"] == 0 and not rv["p"].get("p"):
                ret = rv["p"]["l"]
            else:
                return None
        return vals.get(ret)

    def promoted_value(self, st, pid):
        b = self.f.bodies.get(pid)
        if b is None:
            return None
        ty = self.T[b.locals[0]["t"]]
        if ty["k"] == "ref":
            e = self.T[ty["e"]]
            if e["k"] == "array" and e.get("len") is not None:
                return ("n", None, e["len"])
        return None

    def eval_op_raw(self, st, op):
        if "const" in op:
            c = op["const"]
            tix = c["ty"]
            if "val" in c:
                return ("n", None, c["val"]), tix
            if "cparam_index" in c:
                # const generic parameter: known when this body is analysed for one instantiation
                cv = self.cargs.get(c["cparam_index"]) if self.cargs else None
                if cv is not None:
                    return ("n", None, cv), tix
                r = self.ty_range(tix)
                return (("iv", r[0], r[1]) if r else TOP), tix
            if "static" in c:
                return ("ref", "static:" + c["static"], ()), tix
            if "promoted" in c and "def" in c:
                return ("ref", "promoted:%s::{promoted#%d}" % (c["def"], c["promoted"]), ()), tix
            if "def" in c:
                r = self.f.consts.get(c["def"])
                if r is not None and "val" in r:
                    return ("n", None, r["val"]), tix
                return ("constdef", c["def"]), tix
            if "str" in c:
                return ("strlit", len(c["str"].encode("utf-8"))), tix
            if "bytes" in c:
                return ("strlit", len(c["bytes"]) // 2), tix
            r = self.ty_range(tix)
            if r is not None:
                return ("iv", r[0], r[1]), tix
            return TOP, tix
        pj = op.get("copy") or op.get("move")
        return self.read_place(st, pj)

    def clip(self, st, v, tix):
        """wrap-aware: a value whose interval may leave the type's range becomes the type's range"""
        r = self.ty_range(tix)
        if r is None or v[0] not in ("n", "iv"):
            return v
        i = st.val_iv(v)
        if iv_within(i, r):
            return v
        return ("iv", r[0], r[1])

    # ------------------------------------------------------------------ assignment
    def assign(self, st, pj, v, vt=None):
        c = self.canon(st, pj)
        if c is None:
            # write through an index projection: element write below the last stable prefix
            pre = self.stable_prefix(st, pj)
            if pre is not None:
                st.kill(pre, keep_len=True)
            return
        root, steps, tix = c
        place = (root, steps)
        whole = not steps
        # x = x + k   (self-referential numeric update): shift facts instead of forgetting them
        if v[0] == "n" and v[1] is not None and term_place(v[1]) == place and v[1][0] == "v":
            self.shift(st, v[1], v[2])
            return
        if v[0] == "n" and v[1] is not None:
            # `i = next[i]`: the value is stated in terms of an element indexed by the destination itself; after the store that
            # term would name another element - keep the number only by its interval
            from .absdom import ix_places as _ixp, under as _und
            tp_ = term_place(v[1])
            if any(_und(q, place) or _und(place, q) for q in _ixp(tp_)) or (tp_ != place and _und(tp_, place)):
                i_ = st.val_iv(v)
                v = ("iv", i_[0], i_[1])
        st.kill(place, whole_local=whole)
        if whole and root in self.multidef and v[0] == "ref" and v[1] is not None and (v[1], v[2]) != (root, ("*",)):
            st.copy_facts((v[1], v[2]), (root, ("*",)))
            return
        self.store(st, place, tix, v)

    def store(self, st, place, tix, v):
        if v[0] == "top":
            return
        if v[0] in ("n", "iv"):
            r = self.ty_range(tix)
            t = ("v", place[0], place[1])
            if v[0] == "n":
                if v[1] is None:
                    st.sym[place] = v
                    return
                if not place[1]:
                    # whole local: keep the alias
                    st.sym[place] = v
                    return
                i = st.val_iv(v)
                if r is not None:
                    i = iv_meet(i, r)
                if i != FULL:
                    st.iv[t] = i
                me = ("n", t, 0)
                st.add_eq(me, v)
                # one-step closure: what is known about the (temporary) source also holds for the stored place,
                # so that it survives joins in which the temporaries differ
                vt, k = v[1], v[2]
                for (a, b), c in list(st.rel.items()):
                    if a == vt and b != t and b != vt:
                        cur = st.rel.get((t, b))
                        if cur is None or c + k < cur:
                            st.rel[(t, b)] = c + k
                    elif b == vt and a != t and a != vt:
                        cur = st.rel.get((a, t))
                        if cur is None or c - k < cur:
                            st.rel[(a, t)] = c - k
                return
            i = (v[1], v[2])
            if r is not None:
                i = iv_meet(i, r)
            if i != FULL and not iv_empty(i):
                st.iv[t] = i
            return
        if v[0] in ("ref", "b", "opt", "iter", "rng", "promoted", "constdef", "strlit", "discr", "pending", "closure", "nw"):
            st.sym[place] = v

    def stable_prefix(self, st, pj):
        """longest prefix of the place without index projections, canonicalised"""
        proj = []
        for el in pj.get("p", ()):
            if el != "*" and el[0] in ("i", "ci", "sub"):
                break
            proj.append(el)
        c = self.canon(st, {"l": pj["l"], "p": proj})
        if c is None:
            return None
        return (c[0], c[1])

    def shift(self, st, term, k):
        """term := term + k"""
        if k == 0:
            return
        if term in st.iv:
            i = st.iv[term]
            st.iv[term] = (None if i[0] is None else i[0] + k, None if i[1] is None else i[1] + k)
        newrel = {}
        for (a, b), c in st.rel.items():
            if a == term and b == term:
                continue
            if a == term:
                newrel[(a, b)] = c + k
            elif b == term:
                newrel[(a, b)] = c - k
            else:
                newrel[(a, b)] = c
        st.rel = newrel
        pl = term_place(term)
        for p, v in list(st.sym.items()):
            if v[0] == "n" and v[1] == term:
                st.sym[p] = ("n", term, v[2] - k)
            elif v[0] != "ref" and any(q == pl for q in _val_places(v)):
                st.materialise(p)
                del st.sym[p]

    def grow_unknown(self, st, term):
        """term increases by an unknown amount >= 0"""
        i = st.iv.get(term)
        if i is not None:
            st.iv[term] = (i[0], None if term[0] != "len" else LEN_MAX)
        for k in [k for k in st.rel if k[0] == term]:
            del st.rel[k]
        self._drop_aliases(st, term)

    def shrink_unknown(self, st, term):
        i = st.iv.get(term)
        if i is not None:
            st.iv[term] = (0 if term[0] == "len" else None, i[1])
        for k in [k for k in st.rel if k[1] == term]:
            del st.rel[k]
        self._drop_aliases(st, term)

    def _drop_aliases(self, st, term):
        pl = term_place(term)
        for p, v in list(st.sym.items()):
            if v[0] != "ref" and any(q == pl for q in _val_places(v)):
                if v[0] == "n" and v[1] == term and term[0] == "len":
                    st.materialise(p)
                elif v[0] == "n":
                    st.materialise(p)
                del st.sym[p]

    def set_term(self, st, term, v):
        """term := v (forgetting old facts on the term)"""
        if term in st.iv:
            del st.iv[term]
        for k in [k for k in st.rel if term in k]:
            del st.rel[k]
        self._drop_aliases(st, term)
        if term[0] == "len":
            st.set_iv(term, 0, LEN_MAX)
        if v is not None and v[0] in ("n", "iv"):
            i = st.val_iv(v)
            st.set_iv(term, i[0], i[1])
            if v[0] == "n" and v[1] is not None and v[1] != term:
                st.add_eq(("n", term, 0), v)

    # ------------------------------------------------------------------ arithmetic
    def binop(self, st, op, a, ta, b, tb, res_tix):
        if op in ("Eq", "Ne", "Lt", "Le", "Gt", "Ge"):
            if a[0] in ("n", "iv") and b[0] in ("n", "iv"):
                return ("b", ("cmp", op, a, b))
            if op in ("Eq", "Ne"):
                for x, y in ((a, b), (b, a)):
                    if x[0] == "b" and y[0] == "n" and y[1] is None and y[2] in (0, 1):
                        same = (y[2] == 1) == (op == "Eq")
                        return ("b", x[1] if same else ("not", x[1]))
            return ("b", ("unknown",))
        checked = op.endswith("O")
        if checked:
            op = op[:-1]
        if a[0] not in ("n", "iv", "b") or b[0] not in ("n", "iv", "b"):
            return TOP
        if a[0] == "b" or b[0] == "b":
            if op in ("BitAnd", "BitOr", "BitXor") and a[0] == "b" and b[0] == "b":
                if op == "BitAnd":
                    return ("b", ("and", a[1], b[1]))
                if op == "BitOr":
                    return ("b", ("or", a[1], b[1]))
            return ("iv", 0, 1)
        ia, ib = st.val_iv(a), st.val_iv(b)
        r = self.ty_range(ta) or FULL
        out = TOP
        if op == "Add":
            if a[0] == "n" and b[0] == "n" and b[1] is None:
                out = ("n", a[1], a[2] + b[2])
            elif a[0] == "n" and b[0] == "n" and a[1] is None:
                out = ("n", b[1], b[2] + a[2])
            else:
                i = iv_add(ia, ib)
                out = ("iv", i[0], i[1])
                out = ("sum", out, a, b)
        elif op == "Sub":
            if a[0] == "n" and b[0] == "n" and b[1] is None:
                out = ("n", a[1], a[2] - b[2])
            elif a[0] == "n" and b[0] == "n" and a[1] == b[1]:
                out = ("n", None, a[2] - b[2])
            else:
                i = iv_sub(ia, ib)
                # relational tightening: a - b <= bound_diff
                if a[0] == "n" and b[0] == "n":
                    d = st.bound_diff(a[1], b[1])
                    if d is not None:
                        i = iv_meet(i, (None, d + a[2] - b[2]))
                    d2 = st.bound_diff(b[1], a[1])
                    if d2 is not None:
                        i = iv_meet(i, (-(d2 + b[2] - a[2]), None))
                out = ("iv", i[0], i[1])
                out = ("diff", out, a, b)
        elif op == "Mul":
            i = iv_mul(ia, ib)
            out = ("iv", i[0], i[1])
            # x * c for a place-valued x and a small positive constant c: a symbolic product term, kept below x's place so that
            # a write to x forgets it.  Two computations of the same product (`n as i32 * 64`, `n as usize * 64`) then agree.
            for x, y in ((a, b), (b, a)):
                if x[0] == "n" and x[1] is not None and x[1][0] == "v" and x[2] == 0 and y[0] == "n" and y[1] is None and 2 <= y[2] <= 65536 \
                        and not (x[1][2] and isinstance(x[1][2][-1], tuple) and x[1][2][-1][:1] == ("mul",)) \
                        and i[0] is not None and i[1] is not None and iv_within(i, r):
                    t = ("v", x[1][1], x[1][2] + (("mul", y[2]),))
                    st.set_iv(t, i[0], i[1])
                    out = ("n", t, 0)
                    break
        elif op == "Div":
            if ib[0] is not None and ib[0] > 0 and ia[0] is not None and ia[0] >= 0:
                hi = None if ia[1] is None else ia[1] // ib[0]
                out = ("iv", 0 if ib[1] is None else ia[0] // ib[1], hi)
                if a[0] == "n" and a[1] is not None:
                    out = ("quot", out, a)
            elif ib[0] is not None and ib[0] > 0:
                lo = None if ia[0] is None else -((-ia[0]) // ib[0]) if ia[0] < 0 else 0
                hi = None if ia[1] is None else (ia[1] // ib[0] if ia[1] >= 0 else 0)
                out = ("iv", lo, hi)
            else:
                out = ("iv", r[0], r[1])
        elif op == "Rem":
            if ib[1] is not None and ib[0] is not None and ib[0] > 0:
                if ia[0] is not None and ia[0] >= 0:
                    hi = ib[1] - 1
                    if ia[1] is not None:
                        hi = min(hi, ia[1])
                    out = ("iv", 0, hi)
                    if b[0] == "n" and b[1] is not None:
                        out = ("rem", out, b)
                else:
                    out = ("iv", -(ib[1] - 1), ib[1] - 1)
            elif ib[0] is not None and ib[0] > 0 and ia[0] is not None and ia[0] >= 0:
                out = ("iv", 0, ia[1])
                if b[0] == "n" and b[1] is not None:
                    out = ("rem", out, b)
            else:
                out = ("iv", r[0], r[1])
        elif op == "BitAnd":
            cands = [x[1] for x in (ia, ib) if x[0] is not None and x[0] >= 0 and x[1] is not None]
            if cands:
                out = ("iv", 0, min(cands))
            else:
                out = ("iv", r[0], r[1])
        elif op in ("BitOr", "BitXor"):
            if ia[0] is not None and ia[0] >= 0 and ib[0] is not None and ib[0] >= 0 and ia[1] is not None and ib[1] is not None:
                m = max(ia[1], ib[1])
                out = ("iv", 0, (1 << m.bit_length()) - 1)
            else:
                out = ("iv", r[0], r[1])
        elif op == "Shr":
            if ia[0] is not None and ia[0] >= 0 and ib[0] is not None and ib[0] >= 0:
                out = ("iv", 0 if ib[1] is None or ib[1] >= 256 else ia[0] >> ib[1], None if ia[1] is None else ia[1] >> ib[0])
            else:
                out = ("iv", r[0], r[1])
        elif op == "Shl":
            if ia[0] is not None and ia[0] >= 0 and ia[1] is not None and ib[0] is not None and ib[0] >= 0 and ib[1] is not None and ib[1] < 64:
                out = ("iv", ia[0] << ib[0], ia[1] << ib[1])
            else:
                out = ("iv", r[0], r[1])
        else:
            out = ("iv", r[0], r[1])
        # wrap-aware clipping to the operand type's range
        extra = None
        if out[0] in ("sum", "diff", "rem", "quot"):
            extra = out
            out = out[1]
        i = st.val_iv(out) if out[0] in ("n", "iv") else FULL
        if r != FULL and not iv_within(i, r):
            if self.nowrap is not None and op in ("Add", "Sub") and out[0] == "n" and out[1] is not None and self.nowrap(out[1]) \
                    and abs(out[2]) <= 65536 and a[0] == "n" and b[0] == "n" and (a[1] is None or b[1] is None):
                return out          # A3: cursor coordinates are far from the i32 limits
            return ("iv", r[0], r[1])
        if extra is not None:
            return extra
        return out

    def binop_nw(self, st, op, ra, rb, ta, tb):
        """arithmetic / comparison that keeps the provenance of a signed value cast to unsigned"""
        def clean(v):
            if v[0] == "pending":
                v = v[1]
            if v[0] in ("sum", "diff", "rem"):
                v = v[1]
            return v
        ra, rb = clean(ra), clean(rb)
        if ra[0] != "nw" and rb[0] != "nw":
            return None
        base = op[:-1] if op.endswith("O") else op
        if base in ("Add", "Sub") and ra[0] == "nw" and rb[0] == "n" and rb[1] is None:
            d = rb[2] if base == "Add" else -rb[2]
            if ra[3] + d >= 0:
                return ("nw", ra[1], ra[2], ra[3] + d)
            return None
        if base == "Add" and rb[0] == "nw" and ra[0] == "n" and ra[1] is None and rb[3] + ra[2] >= 0:
            return ("nw", rb[1], rb[2], rb[3] + ra[2])
        if op in ("Lt", "Le", "Gt", "Ge", "Eq", "Ne"):
            a = ra if ra[0] in ("n", "iv", "nw") else None
            b = rb if rb[0] in ("n", "iv", "nw") else None
            if a is not None and b is not None:
                return ("b", ("cmpw", op, a, b))
        return None

    def cast(self, st, v, from_tix, to_tix, ck):
        rt = self.ty_range(to_tix)
        if rt is None:
            return TOP
        if v[0] == "b":
            return ("iv", 0, 1)
        if v[0] not in ("n", "iv"):
            return ("iv", rt[0], rt[1])
        if ck not in ("int2int",) and not (self.is_num(from_tix) and self.is_num(to_tix)):
            return ("iv", rt[0], rt[1])
        i = st.val_iv(v)
        rf = self.ty_range(from_tix) or FULL
        i = iv_meet(i, rf)
        # A1: a length converted to a narrower signed type keeps its value
        if v[0] == "n" and v[1] is not None and v[1][0] == "len":
            i = iv_meet(i, (0, LEN_MAX + max(0, v[2])))
        if iv_within(i, rt):
            return v if v[0] == "n" else ("iv", i[0], i[1])
        # signed -> unsigned of a possibly negative value: equals the source when that is >= 0, huge otherwise
        if v[0] == "n" and v[1] is not None and rt[0] == 0 and (i[1] is None or rt[1] is None or i[1] <= rt[1]) \
                and (i[0] is None or i[0] < 0):
            return ("nw", v[1], v[2], 0)
        return ("iv", rt[0], rt[1])

    # ------------------------------------------------------------------ conditions
    def _unwrap_cmpw(self, st, c, truth):
        """`cmpw`: comparison whose operands may be signed values reinterpreted as unsigned (huge when negative).
        Returns (plain cmp cond to assume or None, extra non-negativity facts)"""
        op, a, b = c[1], c[2], c[3]
        if not truth:
            op = {"Eq": "Ne", "Ne": "Eq", "Lt": "Ge", "Le": "Gt", "Gt": "Le", "Ge": "Lt"}[op]
        extra = []

        def small(v):
            i = st.val_iv(v) if v[0] in ("n", "iv") else (None, None)
            return i[1] is not None and i[1] < (1 << 62)

        def red(v):
            return self.reduce_nw(st, v) if v[0] == "nw" else v
        # nw(x)+add  <(=)  b  with b small  ==>  x >= 0  and  x+add <(=) b
        if a[0] == "nw" and op in ("Lt", "Le", "Eq") and b[0] != "nw" and small(b):
            extra.append((("n", None, 0), ("n", a[1], a[2]), 0))
            a = ("n", a[1], a[2] + a[3])
        if b[0] == "nw" and op in ("Gt", "Ge", "Eq") and a[0] != "nw" and small(a):
            extra.append((("n", None, 0), ("n", b[1], b[2]), 0))
            b = ("n", b[1], b[2] + b[3])
        a, b = red(a), red(b)
        return ("cmp", op, a, b), extra

    def assume(self, st, c, truth):
        k = c[0]
        if k == "cmpw":
            plain, extra = self._unwrap_cmpw(st, c, truth)
            for (x, y, d) in extra:
                st.add_le(x, y, d)
            self.assume(st, plain, True)
            return
        if k == "cmp":
            op, a, b = c[1], c[2], c[3]
            if not truth:
                op = {"Eq": "Ne", "Ne": "Eq", "Lt": "Ge", "Le": "Gt", "Gt": "Le", "Ge": "Lt"}[op]
            if op == "Lt":
                st.add_le(a, b, -1)
            elif op == "Le":
                st.add_le(a, b, 0)
            elif op == "Gt":
                st.add_le(b, a, -1)
            elif op == "Ge":
                st.add_le(b, a, 0)
            elif op == "Eq":
                st.add_le(a, b, 0)
                st.add_le(b, a, 0)
            elif op == "Ne":
                ia, ib = st.val_iv(a), st.val_iv(b)
                for x, ix, iy in ((a, ia, ib), (b, ib, ia)):
                    if iy[0] is not None and iy[0] == iy[1] and x[0] == "n" and x[1] is not None:
                        cst = iy[0] - x[2]
                        ti = st.iv.get(x[1], FULL)
                        if ti[0] is not None and ti[0] == cst:
                            st.set_iv(x[1], cst + 1, None)
                        if ti[1] is not None and ti[1] == cst:
                            st.set_iv(x[1], None, cst - 1)
                if ia[0] is not None and ia[0] == ia[1] and ib == ia:
                    st.bottom = True
        elif k == "not":
            self.assume(st, c[1], not truth)
        elif k == "and":
            if truth:
                for x in c[1:]:
                    self.assume(st, x, True)
            elif len(c) == 2:
                self.assume(st, c[1], False)
        elif k == "or":
            if not truth:
                for x in c[1:]:
                    self.assume(st, x, False)
            elif len(c) == 2:
                self.assume(st, c[1], True)
        elif k in ("some", "none"):
            good = (k == "some") == truth
            pl = c[1]
            cur = st.sym.get(pl)
            if cur is not None and cur[0] == "opt":
                self.assume_opt(st, pl, cur, good)
            else:
                st.sym[pl] = ("opt", "some", None) if good else ("opt", "none")
        elif k == "optval":
            # condition on an option value that is not stored at a stable place
            self.assume_optval(st, c[1], truth)
        elif k == "guarded":
            for (a, b, d) in (c[1] if truth else c[2]):
                st.add_le(a, b, d)
        elif k == "conj":
            if truth:
                for (a, b, d) in c[1]:
                    st.add_le(a, b, d)
            elif len(c) > 2 and c[2]:
                for (a, b, d) in c[2]:
                    st.add_le(a, b, d)
        elif k == "const":
            if c[1] != truth:
                st.bottom = True
        elif k == "pred" and self.interproc is not None:
            self.interproc.assume_pred(self, st, c, truth)

    def assume_optval(self, st, v, good):
        if v[0] != "opt":
            return
        if v[1] == "some" and not good:
            st.bottom = True
        elif v[1] == "none" and good:
            st.bottom = True
        elif v[1] == "cond":
            self.assume(st, v[2], good)

    def assume_opt(self, st, place, v, good):
        if v[1] == "some":
            if not good:
                st.bottom = True
        elif v[1] == "none":
            if good:
                st.bottom = True
        elif v[1] == "cond":
            self.assume(st, v[2], good)
            if not st.bottom:
                st.sym[place] = ("opt", "some", v[3]) if good else ("opt", "none")

    def cond_truth(self, st, c):
        """True / False / None (unknown)"""
        k = c[0]
        if k == "cmpw":
            a = self.reduce_nw(st, c[2]) if c[2][0] == "nw" else c[2]
            b = self.reduce_nw(st, c[3]) if c[3][0] == "nw" else c[3]
            return self.cond_truth(st, ("cmp", c[1], a, b))
        if k == "cmp":
            op, a, b = c[1], c[2], c[3]
            if op == "Lt":
                if st.prove_le(a, b, -1):
                    return True
                if st.prove_le(b, a, 0):
                    return False
            elif op == "Le":
                if st.prove_le(a, b, 0):
                    return True
                if st.prove_le(b, a, -1):
                    return False
            elif op == "Gt":
                if st.prove_le(b, a, -1):
                    return True
                if st.prove_le(a, b, 0):
                    return False
            elif op == "Ge":
                if st.prove_le(b, a, 0):
                    return True
                if st.prove_le(a, b, -1):
                    return False
            elif op in ("Eq", "Ne"):
                eq = None
                if st.prove_le(a, b, 0) and st.prove_le(b, a, 0):
                    eq = True
                elif st.prove_le(a, b, -1) or st.prove_le(b, a, -1):
                    eq = False
                if eq is None:
                    return None
                return eq if op == "Eq" else not eq
            return None
        if k == "not":
            t = self.cond_truth(st, c[1])
            return None if t is None else not t
        if k == "and":
            ts = [self.cond_truth(st, x) for x in c[1:]]
            if all(t is True for t in ts):
                return True
            if any(t is False for t in ts):
                return False
            return None
        if k == "or":
            ts = [self.cond_truth(st, x) for x in c[1:]]
            if any(t is True for t in ts):
                return True
            if all(t is False for t in ts):
                return False
            return None
        if k in ("some", "none"):
            v = st.sym.get(c[1])
            t = self.opt_truth(st, v) if v is not None else None
            if t is None:
                return None
            return t if k == "some" else not t
        if k == "optval":
            return self.opt_truth(st, c[1])
        if k == "const":
            return c[1]
        if k == "conj":
            if all(st.prove_le(a, b, d) for (a, b, d) in c[1]):
                return True
            return None
        return None

    def opt_truth(self, st, v):
        if v is None or v[0] != "opt":
            return None
        if v[1] == "some":
            return True
        if v[1] == "none":
            return False
        if v[1] == "cond":
            return self.cond_truth(st, v[2])
        return None

    # ------------------------------------------------------------------ statements
    def do_stmt(self, st, s):
        k = s["k"]
        self.cur_line = s.get("line")
        if k == "assign":
            rv = s["rv"]
            snap = None
            if self.mag and st.lin and rv["k"] == "use" and ("move" in rv["a"] or "copy" in rv["a"]):
                snap = self._lin_snapshot(st, rv["a"].get("move") or rv["a"].get("copy"), s["p"])
            v, vt = self.rvalue(st, rv, s["p"])
            if v is None:
                if self.mag and self.rv_tainted(st, rv, None):
                    self.taint_place(st, s["p"])
                return
            if self.invariants:
                self.check_inv_store(st, s, v, rv)
            tsrc = self.mag and self.rv_tainted(st, rv, v)
            self.assign_typed(st, s["p"], v, rv)
            if snap is not None:
                st.lin[snap[0]] = snap[1]
            if tsrc:
                self.taint_place(st, s["p"])
        elif k == "setdiscr":
            c = self.canon(st, s["p"])
            if c is not None:
                st.kill((c[0], c[1]), whole_local=not c[1])

    def check_inv_store(self, st, s, v, rv):
        pj = s["p"]
        todo = []
        inv = self.field_inv(pj)
        if inv is not None:
            vv = v
            if vv[0] in ("sum", "diff", "rem", "quot"):
                vv = vv[1]
            if vv[0] == "nw":
                vv = self.reduce_nw(st, vv)
            todo.append((vv, inv))
        else:
            for rest, lo, hi, name in self.field_inv_struct(pj):
                # struct store: the value's fields live under the source place
                if rv["k"] == "use" and ("copy" in rv["a"] or "move" in rv["a"]):
                    src = self.canon(st, rv["a"].get("copy") or rv["a"].get("move"))
                    if src is not None:
                        pl = (src[0], src[1] + rest)
                        sv = st.sym.get(pl)
                        vv = sv if (sv is not None and sv[0] in ("n", "iv")) else ("n", ("v", pl[0], pl[1]), 0)
                        todo.append((vv, (lo, hi, name)))
                        continue
                todo.append((("iv", None, None), (lo, hi, name)))
        for vv, (lo, hi, name) in todo:
            cons = []
            if vv[0] not in ("n", "iv"):
                vv = ("iv", None, None)
            if lo is not None:
                cons.append((("n", None, lo), vv, 0))
            if hi is not None:
                cons.append((vv, ("n", None, hi), 0))
            ok, un = self.conj_check(st, cons)
            t = {"line": s.get("line"), "file": s.get("file"), "k": "assign"}
            self.cur_state = st
            self.cur_dirty = st.dirty
            self.oblige(self.cur_block, "INV", ok, "D2" if ok else None, "store %s" % name, t,
                        "value %s stored into %s may violate the field invariant [%s, %s]" % (self.vs(vv), name, lo, hi),
                        None if ok else self.conj_lift(un, st))

    def assign_typed(self, st, pj, v, rv):
        # struct / tuple moves carry the facts about their fields
        if rv["k"] == "use" and ("copy" in rv["a"] or "move" in rv["a"]):
            src = rv["a"].get("copy") or rv["a"].get("move")
            cs = self.canon(st, src)
            cd = self.canon(st, pj)
            if cs is not None and cd is not None and not self.is_num(cs[2]):
                st.kill((cd[0], cd[1]), whole_local=not cd[1])
                st.copy_facts((cs[0], cs[1]), (cd[0], cd[1]))
                if v[0] != "top":
                    st.sym[(cd[0], cd[1])] = v
                # numeric leaves of small structs / tuples: the copy equals the source field
                if self.interproc is not None and (cs[0], cs[1]) != (cd[0], cd[1]):
                    for steps, ft in self.interproc._num_leaves(cs[2]):
                        if isinstance(ft, tuple) or self.T[ft]["k"] != "int":
                            continue
                        dp = (cd[0], cd[1] + steps)
                        if dp not in st.sym:
                            sp = (cs[0], cs[1] + steps)
                            sv = st.sym.get(sp)
                            st.sym[dp] = sv if (sv is not None and sv[0] == "n") else ("n", ("v", sp[0], sp[1]), 0)
                return
        if v[0] == "quot":
            self.assign(st, pj, v[1])
            c = self.canon(st, pj)
            if c is not None and self.is_num(c[2]):
                me = ("n", ("v", c[0], c[1]), 0)
                st.set_iv(me[1], *st.val_iv(v[1]))
                st.add_le(me, v[2], 0)
            return
        if v[0] in ("sum", "diff", "rem"):
            vn_key = None
            if v[0] == "sum" and st.lin is not None and v[2][0] == "n" and v[3][0] == "n" and v[2][1] is not None and v[3][1] is not None:
                # value numbering: the same sum of two unchanged symbolic values computed before (guard `a + b > len`,
                # then `&data[a..a + b]`) is the same number
                vn_key = tuple(sorted((v[2], v[3]), key=repr)) + ("+",)
                for q, ab in st.lin.items():
                    if ab == vn_key:
                        c0 = self.canon(st, pj)
                        if c0 is not None and (c0[0], c0[1]) != q and self.is_num(c0[2]):
                            self.assign(st, pj, ("n", ("v", q[0], q[1]), 0))
                            return
                        break
            pre = None
            if self.mag and v[0] in ("sum", "diff") and v[2][0] == "n" and v[3][0] == "n":
                # `y += n` / `y -= n`: the old y is replaced by the constant 0 when it is bounded on the side that matters, so that
                # the magnitude analysis can still see  y = (bounded) +/- n  afterwards
                from .absdom import under as _under0, term_place as _tp0
                c0 = self.canon(st, pj)
                if c0 is not None and self.is_num(c0[2]):
                    d0 = (c0[0], c0[1])
                    a0, b0 = v[2], v[3]
                    sa = a0[1] is not None and _under0(_tp0(a0[1]), d0)
                    sb = b0[1] is not None and _under0(_tp0(b0[1]), d0)
                    if v[0] == "sum" and sb and not sa:
                        a0, b0, sa, sb = b0, a0, True, False
                    if sa and not sb:
                        if v[0] == "sum" and self.mag_bounded(st, a0):
                            pre = (("n", None, 0), b0, "+", "hi")
                        elif v[0] == "diff" and self.mag_lo_bounded(st, a0):
                            pre = (("n", None, 0), b0, "satsub", "lo")
            self.assign(st, pj, v[1])
            c = self.canon(st, pj)
            if c is not None and pre is not None:
                st.lin[(c[0], c[1])] = pre
            if c is not None:
                # an operand that lives in the destination itself now denotes the new value: nothing to remember
                from .absdom import under as _under, term_place as _tp
                selfref = any(x[0] == "n" and x[1] is not None and _under(_tp(x[1]), (c[0], c[1])) for x in v[2:4] if isinstance(x, tuple))
                if selfref:
                    vn_key = None
            else:
                selfref = False
            if c is not None and vn_key is not None and self.is_num(c[2]):
                st.lin[(c[0], c[1])] = vn_key
            if c is not None and self.is_num(c[2]):
                me = ("n", ("v", c[0], c[1]), 0)
                st.set_iv(me[1], *st.val_iv(v[1]))
                a, b = (v[2], v[3]) if v[0] != "rem" else (None, v[2])
                def stale(x):
                    # an operand that lives in the destination denotes the *old* value: after the store its term names the new one,
                    # and a relation between "it" and the destination would be one of the new value with itself (`o += n`, n >= 1,
                    # must not yield  o - o <= -1)
                    return x is not None and x[0] == "n" and x[1] is not None and _under(_tp(x[1]), (c[0], c[1]))
                if v[0] == "sum":
                    # me = a + b : me - a = b in [lo b, hi b]
                    for x, y in ((a, b), (b, a)):
                        if stale(x):
                            continue
                        iy = st.val_iv(y) if not stale(y) else (None, None)
                        if x[0] == "n" and x[1] is not None:
                            if iy[1] is not None:
                                st.add_le(me, x, iy[1])
                            if iy[0] is not None:
                                st.add_le(x, me, -iy[0])
                elif v[0] == "diff":
                    if a[0] == "n" and b[0] == "n" and (a[1] is not None or b[1] is not None) and not selfref:
                        st.lin[(c[0], c[1])] = (a, b)       # remembered: a later bound on `me` is a bound on a - b
                    # me = a - b : a - me = b
                    ib = st.val_iv(b) if not stale(b) else (None, None)
                    if a[0] == "n" and a[1] is not None and not stale(a):
                        if ib[0] is not None:
                            st.add_le(me, a, -ib[0])
                        if ib[1] is not None:
                            st.add_le(a, me, ib[1])
                    # me + b = a  →  b - a <= -lo(me) ... ;   b <= a - me
                    ia = st.val_iv(a)
                    if b[0] == "n" and b[1] is not None and a[0] == "n" and not stale(a) and not stale(b):
                        # me = a - b  ⇒  me - a <= -lo(b) handled; also  b + me = a ⇒ b - a <= -lo(me)
                        im = st.val_iv(v[1])
                        if im[0] is not None and a[1] is not None:
                            st.add_le(b, a, -im[0])
                elif v[0] == "rem":
                    if not stale(b):
                        st.add_le(me, b, -1)
            return
        self.assign(st, pj, v)

    def rvalue(self, st, rv, dest):
        k = rv["k"]
        if k == "use":
            v, t = self.eval_op_raw(st, rv["a"])
            if v[0] == "pending":
                v = v[1]
            return v, t
        if k == "bin":
            ra, ta = self.eval_op_raw(st, rv["a"])
            rb, tb = self.eval_op_raw(st, rv["b"])
            op = rv["op"]
            nw = self.binop_nw(st, op, ra, rb, ta, tb)
            if nw is not None:
                if op in ("AddO", "SubO"):
                    c = self.canon(st, dest)
                    if c is not None:
                        st.kill((c[0], c[1]), whole_local=not c[1])
                        st.sym[(c[0], c[1] + ("0",))] = nw
                    return None, None
                return nw, self.place_type(dest)
            a, ta = self.eval_op(st, rv["a"])
            b, tb = self.eval_op(st, rv["b"])
            dt = self.place_type(dest)
            if op.endswith("O") and op != "AddO" and op != "SubO" and op != "MulO":
                pass
            if op in ("AddO", "SubO", "MulO"):
                val = self.binop(st, op, a, ta, b, tb, ta)
                # tuple (value, overflowed): keep the value under field 0
                c = self.canon(st, dest)
                if c is not None:
                    st.kill((c[0], c[1]), whole_local=not c[1])
                    inner = val
                    if inner[0] in ("sum", "diff", "rem"):
                        st.sym[(c[0], c[1] + ("0",))] = ("pending", inner)
                    elif inner[0] != "top":
                        st.sym[(c[0], c[1] + ("0",))] = inner
                    if self.mag and op in ("AddO", "SubO") and inner[0] not in ("sum", "diff") and a[0] == "n" and b[0] == "n" \
                            and (a[1] is not None or b[1] is not None):
                        # the sum may wrap, so it is not kept as a number - but magnitude-wise it still is a +/- b
                        from .absdom import under as _u, term_place as _tp
                        d0 = (c[0], c[1])
                        if not any(x[1] is not None and _u(_tp(x[1]), d0) for x in (a, b)):
                            st.lin[(c[0], c[1] + ("0",))] = (a, b, "+" if op == "AddO" else "satsub", "any")
                return None, None
            return self.binop(st, op, a, ta, b, tb, dt), dt
        if k == "un":
            a, ta = self.eval_op(st, rv["a"])
            if rv["op"] == "PtrMetadata":
                if a[0] == "ref" and a[1] is not None and not isinstance(a[1], str):
                    return self.len_val(st, (a[1], a[2]), self.pointee(ta)), None
                if a[0] == "strlit":
                    return ("n", None, a[1]), None
                return ("iv", 0, LEN_MAX), None
            if rv["op"] == "Not":
                if a[0] == "b":
                    return ("b", ("not", a[1])), ta
                r = self.ty_range(ta)
                return (("iv", r[0], r[1]) if r else TOP), ta
            if rv["op"] == "Neg":
                if a[0] == "n" and a[1] is None:
                    return ("n", None, -a[2]), ta
                i = iv_neg(st.val_iv(a))
                return self.clip(st, ("iv", i[0], i[1]), ta), ta
            return TOP, ta
        if k == "cast":
            a, ta = self.eval_op(st, rv["a"])
            if self.collect and self.cast_log is not None and rv["ck"] == "int2int":
                self.cast_log.append((self.cur_line, st.val_iv(a) if a[0] in ("n", "iv") else None, rv["from"], rv["ty"], rv["a"]))
            if rv["ck"].startswith("coerce") or rv["ck"] in ("ptr2ptr",):
                # unsizing &[T; N] -> &[T] keeps the pointee place; the slice's length is the array length of the source type
                if rv.get("from") is not None and rv["ck"].startswith("coerce:Unsize"):
                    pt = self.pointee(rv["from"])
                    if pt is not None and self.T[pt]["k"] == "array" and self.T[pt].get("len") is not None:
                        n = self.T[pt]["len"]
                        if a[0] == "ref" and a[1] is not None and not isinstance(a[1], str):
                            st.set_iv(("len", a[1], a[2]), n, n)
                        elif a[0] in ("ref", "top") or a == TOP:
                            # a reference of unknown origin to an array: remember the length in a pseudo root
                            return ("ref", "arr:%d" % n, ()), rv["ty"]
                return a, rv["ty"]
            return self.cast(st, a, rv["from"], rv["ty"], rv["ck"]), rv["ty"]
        if k in ("ref", "rawptr"):
            c = self.canon(st, rv["p"])
            if c is None:
                return ("ref", None, None), None
            return ("ref", c[0], c[1]), None
        if k == "discr":
            c = self.canon(st, rv["p"])
            if c is None:
                return TOP, None
            return ("discr", (c[0], c[1]), c[2]), None
        if k == "agg":
            return self.aggregate(st, rv, dest), None
        if k == "repeat":
            return TOP, None
        return TOP, None

    def aggregate(self, st, rv, dest):
        ak = rv.get("ak")
        vals = [self.eval_op(st, o) for o in rv["ops"]]
        c = self.canon(st, dest)
        if c is None:
            return TOP
        place = (c[0], c[1])
        st.kill(place, whole_local=not c[1])
        if ak == "adt":
            adt = rv["adt"]
            if adt in GOOD_VARIANT:
                good, _ = GOOD_VARIANT[adt]
                if rv["variant"] == good:
                    pay = vals[0][0] if vals else None
                    if pay is not None and pay[0] not in ("n", "iv", "ref", "opt"):
                        pay = None
                    st.sym[place] = ("opt", "some", pay)
                    # the payload's own facts
                    if vals:
                        self.store_field(st, place + ((("dc", good), "0"),), vals[0])
                else:
                    st.sym[place] = ("opt", "none")
                return None
            info = self.f.adts.get(adt)
            names = None
            if info is not None:
                names = [fl[0] for fl in info["variants"][rv["vi"]]["fields"]]
                if info["kind"] == "enum":
                    names = None
            else:
                names = {"std::ops::Range": ["start", "end"], "std::ops::RangeFrom": ["start"], "std::ops::RangeTo": ["end"],
                         "std::ops::RangeToInclusive": ["end"]}.get(adt)
            if names is not None and len(names) == len(vals):
                for nm, (v, t) in zip(names, vals):
                    self.store_field(st, (place[0], place[1] + (nm,)), (v, t), rv["ops"][names.index(nm)])
            return None
        if ak == "tuple":
            for i, (v, t) in enumerate(vals):
                self.store_field(st, (place[0], place[1] + (str(i),)), (v, t), rv["ops"][i])
            return None
        if ak == "array":
            return None
        if ak == "closure":
            for i, (v, t) in enumerate(vals):
                self.store_field(st, (place[0], place[1] + (str(i),)), (v, t), rv["ops"][i])
            st.sym[place] = ("closure", rv["def"])
            return None
        return None

    def store_field(self, st, place, vt, op=None):
        v, t = vt
        if isinstance(place, tuple) and len(place) == 3:
            # called with place + ((dc, '0'),) concatenation artefact
            place = (place[0], place[1] + place[2])
        if v is None or t is None:
            return
        if v[0] == "pending":
            v = v[1][1]
        if op is not None and ("copy" in op or "move" in op) and not self.is_num(t):
            src = self.canon(st, op.get("copy") or op.get("move"))
            if src is not None:
                st.copy_facts((src[0], src[1]), place)
        if v[0] in ("sum", "diff", "rem"):
            v = v[1]
        tnt = self.mag and self.is_num(t) and self.mag_tainted(st, v)
        self.store(st, place, t, v)
        if tnt and not self.mag_bounded(st, v, deep=False):
            st.taint = st.taint | {("v", place[0], place[1])}

    # ------------------------------------------------------------------ fix-point
    def analyze(self, body, entry=None, collect=True):
        self.b = body
        self.res = Result(body)
        from . import absdom as _ad
        _ad.MAX_PARAM = body.argc
        self.cur_dirty = frozenset()
        self.cur_state = None
        self.cur_line = None
        self.switch_conds = {}
        self.eb = None
        # reference-typed locals with several definitions (loop-carried slices, re-bound `&mut` cursors) are places
        # of their own: `(*l)` is not resolved through whatever they pointed to in one particular iteration
        self.multidef = {l for l, ds in body.defs.items() if l != 0 and (len(ds) > 1 or (1 <= l <= body.argc and ds))}
        self.collect = False
        n = body.nblocks
        rpo = body.rpo
        order = {b: i for i, b in enumerate(rpo)}
        heads = body.loop_heads()
        thresholds = self.thresholds(body)
        ins = {}
        st0 = entry.copy() if entry is not None else State()
        seeds = self.closure_seeds.get(body.id)
        if seeds:
            for l, (lo, hi) in seeds.items():
                st0.set_iv(("v", l, ()), lo, hi)
        if self.invariants and self.interproc is not None:
            # global field invariants hold on entry for everything reachable from the parameters
            for t, lo, hi in self.interproc.inv_terms(body):
                st0.set_iv(t, lo, hi)
        ins[0] = st0
        visits = {}
        iters = [0]
        limit = int(os.environ.get('VERIF_ABS_LIMIT', '80')) * max(8, len(rpo))
        edge = {}
        pred = body.pred
        back = set(body.back_edges)
        live_in = None if (os.environ.get('VERIF_NO_PRUNE') or not self.prune) else body.live_in

        def solve(work, allowed=None):
            while work:
                bi = min(work, key=lambda x: order.get(x, 1 << 30))
                work.discard(bi)
                iters[0] += 1
                if iters[0] > limit:
                    raise RuntimeError("absint: no convergence in %s" % body.id)
                st = ins[bi]
                outs = [] if st.bottom else self.transfer_block(bi, st.copy())
                got = {}
                for succ, so in outs:
                    if so is None or so.bottom:
                        continue
                    if self.infeasible and (bi, succ) in self.infeasible:
                        continue
                    if live_in is not None:
                        so.prune_dead(live_in[succ], body.argc)
                    got[succ] = so if succ not in got else got[succ].join(so)
                for succ in body.succ[bi]:
                    if succ in got:
                        edge[(bi, succ)] = got[succ]
                    elif (bi, succ) in edge:
                        del edge[(bi, succ)]
                    if allowed is not None and succ not in allowed:
                        continue
                    # in-state = join of the current out-states of all predecessors (not of their history)
                    new_in = None
                    for p in pred[succ]:
                        e = edge.get((p, succ))
                        if e is None:
                            continue
                        new_in = e if new_in is None else new_in.join(e)
                    if new_in is None:
                        # every incoming edge has become infeasible: the block is dead now (drop what an earlier, less precise
                        # iteration left there, and let its own out-edges disappear)
                        old = ins.get(succ)
                        if old is not None and not old.bottom and succ != 0:
                            dead = State()
                            dead.bottom = True
                            ins[succ] = dead
                            work.add(succ)
                        continue
                    old = ins.get(succ)
                    if old is None:
                        ins[succ] = new_in
                        work.add(succ)
                        continue
                    if succ in heads:
                        if new_in.leq(old):
                            continue
                        j = old.join(new_in)
                        if (bi, succ) in back or os.environ.get('VERIF_WIDEN_ALL'):
                            visits[succ] = visits.get(succ, 0) + 1
                            if visits[succ] > 2:
                                j = old.widen(j, thresholds, strict=visits[succ] > 8)
                        # (growth that comes in over the loop's entry edge is the enclosing loop's business: it is widened at
                        # that loop's head, not here, where the old state may hold as a constant what is a relation now)
                        if self.debug_head is not None and succ == self.debug_head[0]:
                            self.debug_head[1](bi, old, new_in, j)
                        if not (j.leq(old) and old.leq(j)):
                            if os.environ.get('VERIF_ABS_DEBUG') and iters[0] > limit - 60:
                                print('ABSDBG head', bi, '->', succ, 'visits', visits.get(succ), 'iv-diff', {self.ts(k): (old.iv.get(k), j.iv.get(k)) for k in set(old.iv) | set(j.iv) if old.iv.get(k) != j.iv.get(k)},
                                      'rel-diff', {(self.ts(k[0]), self.ts(k[1])): (old.rel.get(k), j.rel.get(k)) for k in set(old.rel) | set(j.rel) if old.rel.get(k) != j.rel.get(k)})
                            ins[succ] = j
                            work.add(succ)
                    else:
                        if not (new_in.leq(old) and old.leq(new_in)):
                            if os.environ.get('VERIF_ABS_DEBUG') and iters[0] > limit - 60:
                                print('ABSDBG plain', bi, '->', succ, 'iv-diff', {self.ts(k): (old.iv.get(k), new_in.iv.get(k)) for k in set(old.iv) | set(new_in.iv) if old.iv.get(k) != new_in.iv.get(k)},
                                      'rel-diff', {(self.ts(k[0]), self.ts(k[1])): (old.rel.get(k), new_in.rel.get(k)) for k in set(old.rel) | set(new_in.rel) if old.rel.get(k) != new_in.rel.get(k)})
                            ins[succ] = new_in
                            work.add(succ)

        solve({0})
        # restart of nested loops: an inner loop head was widened while the *outer* loop was still growing what flows into
        # it, and what it was widened to feeds itself through its own back edge, so no descending pass can shrink it.
        # Once the outer fix-point is known, the inner loop is solved again from what enters it now.
        if self.restart_nested and len(heads) > 1:
            loops = {h: body.natural_loop(h) for h in heads}
            for h in sorted(heads, key=lambda x: order.get(x, 1 << 30)):
                if not any(h in lp and h2 != h for h2, lp in loops.items()):
                    continue
                lp = loops[h]
                old_h = ins.get(h)
                if old_h is None or old_h.bottom:
                    continue
                ent = None
                for p in pred[h]:
                    if p in lp:
                        continue
                    e = edge.get((p, h))
                    if e is not None:
                        ent = e if ent is None else ent.join(e)
                if ent is None or not ent.leq(old_h) or old_h.leq(ent):
                    continue
                saved_ins = {x: ins.get(x) for x in lp}
                saved_edge = {k: v for k, v in edge.items() if k[0] in lp}
                for x in lp:
                    ins.pop(x, None)
                    visits.pop(x, None)
                for k in saved_edge:
                    del edge[k]
                ins[h] = ent.copy()
                try:
                    solve({h}, allowed=lp)
                    okr = True
                except RuntimeError:
                    okr = False
                if not okr:
                    # no convergence: keep the first solution
                    for x in lp:
                        if saved_ins[x] is None:
                            ins.pop(x, None)
                        else:
                            ins[x] = saved_ins[x]
                    for k in [k for k in edge if k[0] in lp]:
                        del edge[k]
                    edge.update(saved_edge)
                else:
                    for x in lp:
                        if x not in ins and saved_ins[x] is not None:
                            dead = State()
                            dead.bottom = True
                            ins[x] = dead
                        elif saved_ins[x] is not None and not saved_ins[x].bottom and not ins[x].bottom:
                            ins[x] = saved_ins[x].meet_facts(ins[x])
        iters = iters[0]
        # descending (narrowing) passes: the ascending phase accumulates at loop heads, so an inner head keeps what it was
        # widened to while an *outer* loop was still growing; re-applying the transfer functions from the post-fixpoint
        # (in reverse post-order, no widening) only ever shrinks the states and stays above the least fixpoint
        for _ in range(self.narrow_passes):
            changed = False
            for bi in rpo:
                if bi != 0:
                    new_in = None
                    for p in pred[bi]:
                        e = edge.get((p, bi))
                        if e is not None:
                            new_in = e if new_in is None else new_in.join(e)
                    old = ins.get(bi)
                    # (what flows in over the current edges is a sound entry state whatever its order relation to the old one)
                    if new_in is not None and old is not None and not old.bottom and not (new_in.leq(old) and old.leq(new_in)):
                        # both describe every state that reaches the block: so does their conjunction
                        m = old.meet_facts(new_in)
                        if not (m.leq(old) and old.leq(m)):
                            ins[bi] = m
                            changed = True
                st = ins.get(bi)
                if st is None or st.bottom:
                    continue
                outs = self.transfer_block(bi, st.copy())
                got = {}
                for succ, so in outs:
                    if so is None or so.bottom:
                        continue
                    if self.infeasible and (bi, succ) in self.infeasible:
                        continue
                    got[succ] = so if succ not in got else got[succ].join(so)
                for succ in body.succ[bi]:
                    if succ in got:
                        edge[(bi, succ)] = got[succ]
                    elif (bi, succ) in edge:
                        del edge[(bi, succ)]
            if not changed:
                break
        self.res.iterations = iters
        self.res.in_states = ins
        self.res.edge_states = edge
        if collect:
            self.collect = True
            self.eb = ExprBuilder(body, inline_getters=True)
            for bi in rpo:
                st = ins.get(bi)
                if st is None or st.bottom:
                    continue
                self.transfer_block(bi, st.copy())
            if self.mag:
                try:
                    self.loop_sinks(body, ins, edge)
                except Exception:
                    if os.environ.get("PANIC_DEBUG"):
                        raise
            self.collect = False
        return self.res

    def _lin_snapshot(self, st, src_pj, dst_pj):
        """`P = move tmp` where tmp is remembered as a - b and a lives in P (`y -= n` through the checked-arithmetic
        temporary): (P's place, remembered form with a replaced by its lower bound) so that the magnitude analysis can still
        resolve P afterwards; None otherwise"""
        from .absdom import under as _under, term_place as _tp
        cs, cd = self.canon(st, src_pj), self.canon(st, dst_pj)
        if cs is None or cd is None or not self.is_num(cd[2]):
            return None
        sv = st.sym.get((cs[0], cs[1]))
        pl = (cs[0], cs[1])
        if sv is not None and sv[0] == "n" and sv[1] is not None and sv[1][0] == "v" and sv[2] == 0:
            pl = (sv[1][1], sv[1][2])
        ab = st.lin.get(pl)
        if ab is None or (len(ab) == 4 and ab[3] != "any"):
            return None
        a, b = ab[0], ab[1]
        d = (cd[0], cd[1])
        plus = len(ab) >= 3 and ab[2] == "+"
        if plus and b[1] is not None and _under(_tp(b[1]), d) and not (a[1] is not None and _under(_tp(a[1]), d)):
            a, b = b, a
        if b[1] is not None and _under(_tp(b[1]), d):
            return None
        if a[1] is not None and _under(_tp(a[1]), d):
            # the old value of P is replaced by the constant 0 when it is bounded on the side that matters
            if plus:
                return (d, (("n", None, 0), b, "+", "hi")) if self.mag_bounded(st, a) else None
            return (d, (("n", None, 0), b, "satsub", "lo")) if self.mag_lo_bounded(st, a) else None
        if len(ab) == 4:
            return d, ab        # a may-wrap sum / difference of other places, moved into P
        return None

    # ------------------------------------------------------------------ C03: comparison-driven loops
    def _linear_updates(self, body, loop):
        """{json(place projection): place projection} of places updated inside the loop only by  P = P +/- const"""
        import json as _json
        tmp = {}          # local -> source place json of  _t = AddO/SubO(copy P, const)
        lin, other = {}, set()
        for bi in loop:
            for s in body.blocks[bi]["stmts"]:
                if s["k"] != "assign":
                    continue
                rv = s["rv"]
                if rv["k"] == "bin" and rv["op"] in ("AddO", "SubO", "Add", "Sub") and not s["p"].get("p"):
                    a, b = rv["a"], rv["b"]
                    src = None
                    if "const" in b and ("copy" in a or "move" in a):
                        src = a.get("copy") or a.get("move")
                    elif "const" in a and ("copy" in b or "move" in b) and rv["op"] in ("AddO", "Add"):
                        src = b.get("copy") or b.get("move")
                    if src is not None:
                        tmp[s["p"]["l"]] = _json.dumps(src, sort_keys=True)
        for bi in loop:
            for s in body.blocks[bi]["stmts"]:
                if s["k"] != "assign":
                    continue
                key = _json.dumps(s["p"], sort_keys=True)
                rv = s["rv"]
                src = None
                if rv["k"] == "use":
                    o = rv["a"]
                    pj = o.get("move") or o.get("copy")
                    if pj is not None and pj["l"] in tmp and (not pj.get("p") or (len(pj["p"]) == 1 and pj["p"][0] != "*" and pj["p"][0][0] == "f" and pj["p"][0][1] == 0)):
                        src = tmp[pj["l"]]
                if s["p"]["l"] in tmp and not s["p"].get("p"):
                    continue        # the temporary itself
                if src is not None and src == key:
                    lin[key] = s["p"]
                else:
                    other.add(key)
            t = body.blocks[bi]["term"]
            if t["k"] == "call":
                other.add(_json.dumps(t["dest"], sort_keys=True))
        return {k: v for k, v in lin.items() if k not in other}

    def loop_sinks(self, body, ins, edge):
        heads = body.loop_heads()
        if not heads:
            return
        NEG = {"Lt": "Ge", "Le": "Gt", "Gt": "Le", "Ge": "Lt"}
        for h in sorted(heads):
            loop = body.natural_loop(h)
            hst = ins.get(h)
            if hst is None or hst.bottom:
                continue
            ent = None
            for p in body.pred[h]:
                if p in loop:
                    continue
                e = edge.get((p, h))
                if e is not None and not e.bottom:
                    ent = e if ent is None else ent.join(e)
            if ent is None:
                continue
            lin = None
            for x in sorted(loop):
                t = body.blocks[x]["term"]
                if t["k"] != "switch":
                    continue
                inside = [s for s in body.succ[x] if s in loop]
                outside = [s for s in body.succ[x] if s not in loop]
                if not inside or not outside:
                    continue
                d = self.switch_conds.get(x)
                if d is None or d[0] != "b":
                    continue
                c = d[1]
                neg = False
                while c[0] == "not":
                    c = c[1]
                    neg = not neg
                if c[0] != "cmp" or c[1] not in NEG:
                    continue
                # truth of the discriminant on the edge that stays in the loop
                tg = inside[0]
                vals = [v for v, s2 in t["targets"] if s2 == tg]
                listed = {v for v, _ in t["targets"]}
                if vals and t["otherwise"] != tg and len(vals) == 1:
                    truth = bool(vals[0])
                elif t["otherwise"] == tg and not vals and listed in ({0}, {1}):
                    truth = listed == {0}
                else:
                    continue
                if neg:
                    truth = not truth
                op, A, B = c[1], c[2], c[3]
                cont = op if truth else NEG[op]
                low, high = (A, B) if cont in ("Lt", "Le") else (B, A)
                if low[0] != "n" or high[0] != "n":
                    continue
                # one of the operands must be stepped by a constant inside the loop (a counting loop, not a halving one)
                if lin is None:
                    lin = self._linear_updates(body, loop)
                moving = False
                for pj in lin.values():
                    cn = self.canon(hst, pj)
                    if cn is None:
                        continue
                    tt = ("v", cn[0], cn[1])
                    for w in (low, high):
                        w2 = hst.norm(w)
                        if w[1] == tt or (w2[0] == "n" and w2[1] == tt):
                            moving = True
                if not moving:
                    continue
                self.res.loop_sinks = getattr(self.res, "loop_sinks", 0) + 1
                dd = None
                if low[1] is not None and high[1] is not None:
                    dd = ent.bound_diff(high[1], low[1])
                    if dd is not None:
                        dd += high[2] - low[2]
                else:
                    ih, il = ent.val_iv(high), ent.val_iv(low)
                    if ih[1] is not None and il[0] is not None:
                        dd = ih[1] - il[0]
                try:
                    txt = _short(show(self.eb.operand(t["discr"])))
                except Exception:
                    txt = "cmp"
                desc = "loop(%s%s)" % ("" if truth else "!", txt)
                what = "the loop runs while %s: its trip count (the distance between the two sides at loop entry) is not bounded by a constant, a length or a screen dimension" % txt
                self.cur_dirty = ent.dirty
                self.cur_state = ent
                if dd is not None and dd <= self.MAG_LIMIT:
                    self.oblige(x, "MAG", True, "B", desc, t, what, None)
                    self.res.obls[-1].raw = ("mag", high, False)
                    continue
                self.mag_sink(ent, x, t, high, what, desc=desc + " #high", soft=True)
                self.mag_sink(ent, x, t, low, what, desc=desc + " #low", lo=True, soft=True)

    def state_before_term(self, bi):
        """abstract state just before the terminator of block `bi` (after analyze())"""
        st = self.res.in_states.get(bi)
        if st is None or st.bottom:
            return None
        st = st.copy()
        for s in self.b.blocks[bi]["stmts"]:
            self.do_stmt(st, s)
            if st.bottom:
                return None
        return st

    def thresholds(self, body):
        ts = {0, 1, -1, 255, 256, 65535}
        for i, k, s in body.stmts():
            if s["k"] == "assign" and s["rv"]["k"] == "bin":
                for key in ("a", "b"):
                    c = s["rv"][key].get("const")
                    if c and "val" in c and isinstance(c["val"], int) and abs(c["val"]) < (1 << 33):
                        ts.add(c["val"])
                        ts.add(c["val"] - 1)
                        ts.add(c["val"] + 1)
        for v in (self.cargs or {}).values():
            if isinstance(v, int) and abs(v) < (1 << 33):
                ts.update((v - 1, v, v + 1))
        return sorted(ts)

    def transfer_block(self, bi, st):
        blk = self.b.blocks[bi]
        self.cur_block = bi
        for s in blk["stmts"]:
            self.do_stmt(st, s)
            if st.bottom:
                return []
        t = blk["term"]
        k = t["k"]
        self.cur_dirty = st.dirty
        self.cur_state = st
        if k == "goto":
            return [(t["target"], st)]
        if k == "return":
            if self.collect:
                self.res.ret_states.append((bi, st))
            return []
        if k == "switch":
            if self.collect:
                d, _ = self.eval_op(st, t["discr"])
                self.switch_conds[bi] = d
            outs = self.do_switch(st, t)
            if self.mag:
                for _, s2 in outs:
                    self.sanitise(s2)
            return outs
        if k == "assert":
            outs = self.do_assert(st, bi, t)
            if self.mag:
                for _, s2 in outs:
                    self.sanitise(s2)
            return outs
        if k == "drop":
            c = self.canon(st, t["p"])
            return [(t["target"], st)]
        if k == "call":
            return self.do_call(st, bi, t)
        if k == "other":
            return [(x, st.copy()) for x in self.b.succ[bi]]
        return []

    def do_switch(self, st, t):
        d, dt = self.eval_op(st, t["discr"])
        outs = []
        targets = t["targets"]
        other = t["otherwise"]
        if d[0] == "b":
            c = d[1]
            known = self.cond_truth(st, c)        # decided already (e.g. an equality of two aliases): prune the other arm
            for val, tg in targets:
                s2 = st.copy()
                if known is not None and known != bool(val):
                    s2.bottom = True
                else:
                    self.assume(s2, c, bool(val))
                outs.append((tg, s2))
            vals = {v for v, _ in targets}
            s2 = st.copy()
            if vals == {0}:
                if known is False:
                    s2.bottom = True
                else:
                    self.assume(s2, c, True)
            elif vals == {1}:
                if known is True:
                    s2.bottom = True
                else:
                    self.assume(s2, c, False)
            elif vals >= {0, 1}:
                s2.bottom = True
            outs.append((other, s2))
            return self.merge_outs(outs)
        if d[0] == "discr":
            place, tix = d[1], d[2]
            ty = self.T[tix]
            gv = GOOD_VARIANT.get(ty.get("adt")) if ty["k"] == "adt" else None
            if gv is not None:
                good_discr = gv[1]
                seen = set()
                for val, tg in targets:
                    s2 = st.copy()
                    self.assume(s2, ("some", place), val == good_discr)
                    seen.add(val)
                    outs.append((tg, s2))
                s2 = st.copy()
                if seen == {good_discr}:
                    self.assume(s2, ("some", place), False)
                elif seen == {1 - good_discr}:
                    self.assume(s2, ("some", place), True)
                elif seen >= {0, 1}:
                    s2.bottom = True
                outs.append((other, s2))
                return self.merge_outs(outs)
            return self.merge_outs([(tg, st.copy()) for _, tg in targets] + [(other, st.copy())])
        if d[0] in ("n", "iv"):
            i = st.val_iv(d)
            for val, tg in targets:
                s2 = st.copy()
                if (i[0] is not None and val < i[0]) or (i[1] is not None and val > i[1]):
                    s2.bottom = True
                elif d[0] == "n":
                    self.assume(s2, ("cmp", "Eq", d, ("n", None, val)), True)
                outs.append((tg, s2))
            s2 = st.copy()
            if d[0] == "n":
                for val, _ in sorted(targets):
                    self.assume(s2, ("cmp", "Ne", d, ("n", None, val)), True)
                for val, _ in sorted(targets, reverse=True):
                    self.assume(s2, ("cmp", "Ne", d, ("n", None, val)), True)
            elif i[0] is not None and i[1] is not None and i[1] - i[0] < 64:
                if all(any(v == x for v, _ in targets) for x in range(i[0], i[1] + 1)):
                    s2.bottom = True
            outs.append((other, s2))
            return self.merge_outs(outs)
        return self.merge_outs([(tg, st.copy()) for _, tg in targets] + [(other, st.copy())])

    def merge_outs(self, outs):
        by = {}
        for tg, s in outs:
            if s.bottom:
                continue
            if tg in by:
                by[tg] = by[tg].join(s)
            else:
                by[tg] = s
        return list(by.items())

    # ------------------------------------------------------------------ sinks
    def oblige(self, bi, cls, ok, rule, desc, t, what, lift=None, trust=None):
        if not self.collect:
            return
        o = Obl(bi, cls, ok, rule, desc, t.get("line"), t.get("file") or self.b.file, what, lift, trust)
        o.dirty = self.cur_dirty
        self.res.obls.append(o)

    def describe(self, t):
        """line-number free description of a call / assert for keys: the reconstructed expression, followed by ` ~` and its
        skeleton (arithmetic and constants only, every value source blanked) - see rules/panic_common.coarse_desc"""
        try:
            if t["k"] == "call":
                e = self.eb.call_expr(t)
                sk = "%s(%s)" % (e[1].split("::")[-1], ", ".join(skeleton(a) for a in e[2])) if e[0] == "call" else skeleton(e)
                return _short(show(e)) + " ~" + _short(sk, 120)
            if t["k"] == "assert":
                ops = [self.eb.operand(o) for o in t["ops"]]
                return _short("%s(%s)" % (t["ak"], ", ".join(show(o) for o in ops))) + " ~" + _short("%s(%s)" % (t["ak"], ", ".join(skeleton(o) for o in ops)), 120)
        except Exception:
            pass
        return t["k"]

    def do_assert(self, st, bi, t):
        ak = t["ak"]
        cond, _ = self.eval_op(st, t["cond"])
        if ak == "bounds":
            ln, lt = self.eval_op(st, t["ops"][0])
            raw, it = self.eval_op_raw(st, t["ops"][1])
            if ln[0] not in ("n", "iv"):
                ln = ("iv", 0, LEN_MAX)
            ix, cons = self.index_constraints(st, raw, ln, -1)
            if ix[0] not in ("n", "iv"):
                ix = ("iv", 0, None)
                cons = [(ix, ln, -1)]
            ok, un = self.conj_check(st, cons)
            rule = None
            if ok:
                rule = "D1" if (ln[0] == "n" and ln[1] is None) else "D3" if ix[0] == "n" and ix[1] is not None else "D2"
            self.oblige(bi, "S1", ok, rule, self.describe(t) + self.fail_tag(cons, un), t, "index %s out of bounds of length %s" % (self.vs(ix), self.vs(ln)),
                        None if ok else self.conj_lift(un))
            self.conj_assume(st, cons)
            return [] if st.bottom else [(t["target"], st)]
        if ak in ("div0", "rem0"):
            # the assert message carries the dividend; the divisor is in the condition  `Eq(divisor, 0) == false`
            truth = self.cond_truth(st, cond[1]) if cond[0] == "b" else None
            ok = truth is not None and truth == t["expected"]
            dv = None
            if cond[0] == "b" and cond[1][0] == "cmp" and cond[1][1] == "Eq":
                dv = cond[1][2] if not (cond[1][2][0] == "n" and cond[1][2][1] is None) else cond[1][3]
            lift = ("nz", dv) if (not ok and dv is not None and dv[0] == "n") else None
            self.oblige(bi, "S6", ok, "D6" if ok else None, self.describe_div(t), t, "divisor %s may be zero" % (self.vs(dv) if dv else "?"), lift)
            if cond[0] == "b":
                self.assume(st, cond[1], t["expected"])
            return [] if st.bottom else [(t["target"], st)]
        if ak in ("overflow:Div", "overflow:Rem") and len(t.get("ops", [])) == 2:
            # MIN / -1: this check exists in release builds too (unlike the add/sub/mul overflow checks)
            a, at = self.eval_op(st, t["ops"][0])
            b, bt = self.eval_op(st, t["ops"][1])
            ia = st.val_iv(a) if a[0] in ("n", "iv") else (None, None)
            ib = st.val_iv(b) if b[0] in ("n", "iv") else (None, None)
            r = self.ty_range(at) if at is not None else None
            ok = (ib[0] is not None and ib[0] > -1) or (ib[1] is not None and ib[1] < -1) or \
                 (r is not None and ia[0] is not None and ia[0] > r[0])
            self.oblige(bi, "S6", ok, "D6" if ok else None, self.describe(t), t,
                        "signed division overflow: dividend %s may be the type minimum while divisor %s may be -1" % (self.vs(a), self.vs(b)), None)
            return [(t["target"], st)]
        if ak == "overflow:Sub" and self.s9_unsigned and len(t.get("ops", ())) == 2:
            # (debug-build semantics): an unsigned subtraction must not go below zero.
            ta = self.op_type(t["ops"][0])
            r = self.ty_range(ta) if ta is not None else None
            if r is not None and r[0] == 0:
                a, _ = self.eval_op(st, t["ops"][0])
                b, _ = self.eval_op(st, t["ops"][1])
                if a[0] in ("n", "iv") and b[0] in ("n", "iv"):
                    cons = [(b, a, 0)]
                    ok, un = self.conj_check(st, cons)
                    lift_ = None if ok else self.conj_lift(un)
                    self.oblige(bi, "S9u", ok, "D2" if ok else None, self.describe(t), t,
                                "unsigned subtraction %s - %s may go below zero (panics in a build with overflow checks)" % (self.vs(a), self.vs(b)),
                                lift_)
                    if not ok and lift_ is None:
                        # a site that stays open here: in a release build the value wraps and execution goes on, so nothing is
                        # assumed (what follows must not be judged under a condition that is only a reviewed or known finding)
                        return [(t["target"], st)]
                    # proven, or handed to the callers to prove: what follows may rely on it, exactly as what follows `v[i]` relies
                    # on i < len
                    self.conj_assume(st, cons)
                    if st.bottom:
                        return []
                    # ... and the difference itself, computed before the check with wrap-around in mind, is now exact
                    cpj = t["cond"].get("move") or t["cond"].get("copy")
                    if cpj is not None and cpj.get("p") and len(cpj["p"]) == 1 and cpj["p"][0] != "*" and cpj["p"][0][0] == "f" and cpj["p"][0][1] == 1:
                        c = self.canon(st, {"l": cpj["l"]})
                        if c is not None and not c[1]:
                            val = self.binop(st, "Sub", a, ta, b, ta, ta)
                            if val[0] in ("sum", "diff", "rem"):
                                st.sym[(c[0], ("0",))] = ("pending", val)
                            elif val[0] != "top":
                                st.sym[(c[0], ("0",))] = val
                    return [(t["target"], st)]
        if ak.startswith("overflow"):
            # release semantics: the check does not exist; nothing may be assumed from it
            if self.collect:
                self.res.obls.append(Obl(bi, "S9", True, "out-of-scope", self.describe(t), t.get("line"), self.b.file, "arithmetic overflow check (debug builds only)"))
            return [(t["target"], st)]
        # other assert kinds (misaligned pointer etc.): not input dependent
        return [(t["target"], st)]

    def describe_div(self, t):
        try:
            return _short("%s(%s)" % (t["ak"], show(self.eb.operand(t["cond"]))))
        except Exception:
            return t["ak"]

    def panic_guard(self, bi, parts=False):
        """condition that must hold for the panic block `bi` to be unreachable: the conjunction, over the
        switch edges that lead (through straight-line blocks) into it, of the negated edge conditions; or None.
        parts=True: the list of (conjunct, label) instead, the label being the source form of the tested condition"""
        b = self.b
        entry_edges = []
        seen = set()
        stack = [bi]
        while stack:
            x = stack.pop()
            if x in seen:
                continue
            seen.add(x)
            preds = b.pred[x]
            if not preds:
                return None
            for p in preds:
                t = b.blocks[p]["term"]
                if t["k"] == "switch":
                    entry_edges.append((p, x))
                elif t["k"] in ("goto", "call", "drop", "assert") and len(b.succ[p]) == 1:
                    stack.append(p)
                else:
                    return None
            if len(seen) > 12:
                return None
        conds = []
        labels = []
        for p, x in entry_edges:
            d = self.switch_conds.get(p)
            if d is None or d[0] != "b":
                return None
            t = b.blocks[p]["term"]
            vals = [v for v, tg in t["targets"] if tg == x]
            other = t["otherwise"] == x
            listed = {v for v, _ in t["targets"]}
            # truth value of the discriminant on this edge
            if vals and not other:
                if len(vals) != 1:
                    return None
                edge_truth = bool(vals[0])
            elif other and not vals:
                if listed == {0}:
                    edge_truth = True
                elif listed == {1}:
                    edge_truth = False
                else:
                    return None
            else:
                return None
            conds.append(("not", d[1]) if edge_truth else d[1])
            try:
                labels.append(("!" if edge_truth else "") + _short(show(self.eb.operand(t["discr"]))))
            except Exception:
                labels.append("c%d" % len(labels))
        if not conds:
            return None
        if parts:
            return sorted(zip(conds, labels), key=lambda cl: cl[1])
        return conds[0] if len(conds) == 1 else ("and",) + tuple(conds)

    def vs(self, v):
        if v[0] == "n":
            if v[1] is None:
                return str(v[2])
            return "%s%s" % (self.ts(v[1]), ("%+d" % v[2]) if v[2] else "")
        if v[0] == "iv":
            return "[%s, %s]" % (v[1], v[2])
        return v[0]

    def ts(self, t):
        root, steps = t[1], t[2]
        nm = self.b.lname(root) if isinstance(root, int) else str(root)
        s = nm or "_%s" % root
        for x in steps:
            if x == "*":
                s = "(*%s)" % s
            elif isinstance(x, tuple) and x[0] == "ix":
                s = "%s[%s]" % (s, self.vs(x[1]))
            elif isinstance(x, tuple):
                s = "(%s as %s)" % (s, x[1])
            else:
                s += "." + x
        return "len(%s)" % s if t[0] == "len" else s

    # ------------------------------------------------------------------ calls
    def do_call(self, st, bi, t):
        from . import callmodels
        return callmodels.do_call(self, st, bi, t)


def _val_places(v):
    from .absdom import val_places
    return val_places(v)


_ARITH_CALLS = ("min", "max", "clamp", "abs", "pow", "saturating_sub", "saturating_add", "saturating_mul", "wrapping_sub", "wrapping_add", "wrapping_mul",
                "checked_sub", "checked_add", "checked_mul", "checked_div", "rem_euclid", "div_euclid", "unsigned_abs")


def skeleton(e, depth=0):
    """the arithmetic of an expression with every value source (local, field, element, opaque call) blanked: constants,
    operators, lengths, ranges and std's arithmetic helpers stay.  `parameters[i + 1]` and `parameters[next.0 + 1]` are the
    same skeleton; `s[3..]` and `s[2..]` are not."""
    if depth > 30 or not isinstance(e, tuple) or not e:
        return "_"
    k = e[0]
    if k == "const":
        return str(e[1])
    if k == "bin":
        op = e[1][:-1] if e[1].endswith("O") else e[1]
        a, b = skeleton(e[2], depth + 1), skeleton(e[3], depth + 1)
        if op in ("Add", "Mul", "BitAnd", "BitOr", "BitXor", "Eq", "Ne") and b < a:
            a, b = b, a
        return "(%s %s %s)" % (a, op, b)
    if k == "un":
        return "%s(%s)" % (e[1], skeleton(e[2], depth + 1))
    if k == "cast":
        return skeleton(e[2], depth + 1)
    if k in ("ref", "deref"):
        return skeleton(e[1], depth + 1)
    if k == "len":
        return "len(_)"
    if k == "call" and isinstance(e[1], str) and e[1].split("::")[-1] in _ARITH_CALLS:
        return "%s(%s)" % (e[1].split("::")[-1], ", ".join(skeleton(a, depth + 1) for a in e[2]))
    if k == "agg" and "::ops::Range" in str(e[1]):
        return "%s{%s}" % (str(e[1]).split("::")[-1], ", ".join(skeleton(a, depth + 1) for a in e[2]))
    return "_"


def _short(s, n=160):
    s = re.sub(r"\s+", " ", s)
    return s if len(s) <= n else s[:n] + "…"

"""Value reconstruction: fold MIR temporaries (single-definition locals) into expression trees.

Expressions are nested tuples:
  ('const', v) ('str', s) ('static', path) ('def', path)   leaves
  ('var', local, name)                                     multi-definition local or argument
  ('bin', op, a, b) ('un', op, a) ('cast', to_type_str, a)
  ('field', base, name) ('index', base, idx) ('deref', base) ('ref', place_expr) ('len', e)
  ('call', callee_path, [args]) ('agg', kind, [ops]) ('discr', e) ('unknown', text)
Checked arithmetic (`AddWithOverflow` + `.0`) is folded to the plain operation: the rules that use
this module reason about the wrapping (release) semantics or about shapes only.
"""

LEN_FNS = {"core::slice::<impl [T]>::len", "std::vec::Vec::<T, A>::len", "core::str::<impl str>::len",
           "std::string::String::len", "std::collections::VecDeque::<T, A>::len"}

COMMUTATIVE = {"BitXor", "BitAnd", "BitOr", "Add", "Mul", "Eq", "Ne"}


class ExprBuilder:
    def __init__(self, body, max_depth=60, inline_getters=False):
        self.b = body
        self.max_depth = max_depth
        self.inline_getters = inline_getters      # `x.get_height()` reads as `x.size.height` (descriptions used in keys)
        self.defs = body.defs
        self._cache = {}
        # single-definition locals (arguments have an implicit definition at entry)
        self.single = {l for l, ds in self.defs.items() if len(ds) == 1 and l > body.argc}
        # locals also written through projections or borrowed mutably are not foldable
        partial = set()
        for i, k, s in body.stmts():
            if s["k"] == "assign":
                if "p" in s["p"]:
                    if not (s["p"]["p"] and s["p"]["p"][0] == "*"):
                        partial.add(s["p"]["l"])
                rv = s["rv"]
                if rv["k"] in ("ref", "rawptr") and rv.get("mut") and "p" not in rv["p"]:
                    partial.add(rv["p"]["l"])
        self.single -= partial

    def local(self, l, depth=0):
        if l in self._cache:
            return self._cache[l]
        if depth > self.max_depth:
            return ("unknown", "depth")
        if l not in self.single:
            e = ("var", l, self.b.lname(l))
            self._cache[l] = e
            return e
        self._cache[l] = ("var", l, self.b.lname(l))  # cycle guard
        bi, k = self.defs[l][0]
        if k == "term":
            t = self.b.blocks[bi]["term"]
            e = self.call_expr(t, depth + 1)
        else:
            s = self.b.blocks[bi]["stmts"][k]
            e = self.rvalue(s["rv"], depth + 1)
        self._cache[l] = e
        return e

    def call_expr(self, t, depth=0):
        c = t["callee"]
        path = c.get("resolved") or c.get("path") or "indirect"
        args = [self.operand(a, depth + 1) for a in t["args"]]
        if path in LEN_FNS and len(args) == 1:
            return ("len", args[0])
        if self.inline_getters and len(args) == 1:
            g = trivial_getter(self.b.f, path)
            if g is not None:
                return subst(g, {1: args[0]})
        return ("call", path, args)

    def place(self, p, depth=0):
        e = self.local(p["l"], depth)
        for el in p.get("p", []):
            if el == "*":
                if e[0] == "ref":
                    e = e[1]
                else:
                    e = ("deref", e)
            elif el[0] == "f":
                # checked-arithmetic tuple: (value, overflowed)
                if e[0] == "bin" and e[1].endswith("O") and el[1] == 0:
                    e = ("bin", e[1][:-1], e[2], e[3])
                elif e[0] == "bin" and e[1].endswith("O") and el[1] == 1:
                    e = ("overflow", e)
                elif e[0] == "agg" and el[1] < len(e[2]) and e[1] in ("tuple",):
                    e = e[2][el[1]]
                else:
                    e = ("field", e, el[2])
            elif el[0] == "i":
                e = ("index", e, self.local(el[1], depth + 1))
            elif el[0] == "ci":
                e = ("index", e, ("const", el[1] if not el[3] else -el[1]))
            elif el[0] == "dc":
                e = ("downcast", e, el[1])
            else:
                e = ("proj", e, str(el))
        return e

    def operand(self, op, depth=0):
        if "copy" in op:
            return self.place(op["copy"], depth)
        if "move" in op:
            return self.place(op["move"], depth)
        c = op.get("const")
        if c is not None:
            if "val" in c:
                return ("const", c["val"])
            if "str" in c:
                return ("str", c["str"])
            if "static" in c:
                return ("ref", ("static", c["static"]))
            if "fn" in c:
                return ("fn", c.get("fn_resolved") or c["fn"])
            if "def" in c and "promoted" in c:
                # a promoted constant: `&CONST_ITEM` / `&literal`
                pid = "%s::{promoted#%d}" % (c["def"], c["promoted"])
                pb = self.b.f.bodies.get(pid)
                if pb is not None:
                    for _, _, s2 in pb.stmts():
                        if s2["k"] == "assign" and s2["rv"]["k"] == "use" and "def" in s2["rv"]["a"].get("const", {}) \
                                and "promoted" not in s2["rv"]["a"]["const"]:
                            return ("ref", ("def", s2["rv"]["a"]["const"]["def"]))
                    for _, _, s2 in pb.stmts():
                        if s2["k"] == "assign" and s2["rv"]["k"] == "use" and "val" in s2["rv"]["a"].get("const", {}):
                            return ("ref", ("const", s2["rv"]["a"]["const"]["val"]))
                return ("def", pid)
            if "def" in c:
                return ("def", c["def"])
            if "bytes" in c:
                return ("bytes", c["bytes"])
            if "fbits" in c:
                return ("fconst", c["fbits"])
            return ("unknown", "const")
        return ("unknown", "operand")

    def rvalue(self, rv, depth=0):
        k = rv["k"]
        if k == "use":
            return self.operand(rv["a"], depth)
        if k == "bin":
            return ("bin", rv["op"], self.operand(rv["a"], depth), self.operand(rv["b"], depth))
        if k == "un":
            if rv["op"] == "PtrMetadata":
                return ("len", self.operand(rv["a"], depth))
            return ("un", rv["op"], self.operand(rv["a"], depth))
        if k == "cast":
            return ("cast", self.b.f.types[rv["ty"]]["s"], self.operand(rv["a"], depth))
        if k in ("ref", "rawptr"):
            return ("ref", self.place(rv["p"], depth))
        if k == "discr":
            return ("discr", self.place(rv["p"], depth))
        if k == "agg":
            kind = rv.get("ak")
            if kind == "adt":
                kind = "adt:%s::%s" % (rv["adt"], rv["variant"])
            elif kind == "closure":
                kind = "closure:%s" % rv["def"]
            return ("agg", kind, [self.operand(o, depth) for o in rv["ops"]])
        if k == "repeat":
            return ("repeat", self.operand(rv["a"], depth), rv.get("n"))
        return ("unknown", rv.get("dbg", k))


def flatten(e, op):
    """operands of a nested commutative/associative `op` chain"""
    if e[0] == "bin" and e[1] == op:
        return flatten(e[2], op) + flatten(e[3], op)
    return [e]


def strip_casts(e):
    while e[0] == "cast":
        e = e[2]
    return e


def show(e, depth=0):
    if depth > 12:
        return "…"
    k = e[0]
    if k == "const":
        return hex(e[1]) if isinstance(e[1], int) and abs(e[1]) > 255 else str(e[1])
    if k == "str":
        return repr(e[1])
    if k == "var":
        return e[2] or "_%d" % e[1]
    if k in ("static", "def", "fn"):
        return e[1].split("::")[-1]
    if k == "bin":
        sym = {"Add": "+", "Sub": "-", "Mul": "*", "Div": "/", "Rem": "%", "BitXor": "^", "BitAnd": "&", "BitOr": "|",
               "Shl": "<<", "Shr": ">>", "Eq": "==", "Ne": "!=", "Lt": "<", "Le": "<=", "Gt": ">", "Ge": ">="}.get(e[1], e[1])
        return "(%s %s %s)" % (show(e[2], depth + 1), sym, show(e[3], depth + 1))
    if k == "un":
        return "%s(%s)" % ({"Not": "!", "Neg": "-"}.get(e[1], e[1]), show(e[2], depth + 1))
    if k == "cast":
        return "(%s as %s)" % (show(e[2], depth + 1), e[1])
    if k == "field":
        return "%s.%s" % (show(e[1], depth + 1), e[2])
    if k == "index":
        return "%s[%s]" % (show(e[1], depth + 1), show(e[2], depth + 1))
    if k == "deref":
        return "*%s" % show(e[1], depth + 1)
    if k == "ref":
        return "&%s" % show(e[1], depth + 1)
    if k == "len":
        return "len(%s)" % show(e[1], depth + 1)
    if k == "call":
        return "%s(%s)" % (e[1].split("::")[-1], ", ".join(show(a, depth + 1) for a in e[2]))
    if k == "agg":
        return "%s{%s}" % (e[1].split("::")[-1], ", ".join(show(a, depth + 1) for a in e[2]))
    if k == "downcast":
        return "(%s as %s)" % (show(e[1], depth + 1), e[2])
    if k == "discr":
        return "discr(%s)" % show(e[1], depth + 1)
    return "?%s" % (k,)


def subst(e, env, depth=0):
    """replace ('var', l, _) leaves by env[l]"""
    if depth > 60 or not isinstance(e, (tuple, list)):
        return e
    if isinstance(e, tuple) and e and e[0] == "var" and e[1] in env:
        return env[e[1]]
    if isinstance(e, tuple):
        out = tuple(subst(x, env, depth + 1) if isinstance(x, (tuple, list)) else x for x in e)
        if out[0] == "deref" and out[1][0] == "ref":
            return out[1][1]
        return out
    return [subst(x, env, depth + 1) if isinstance(x, (tuple, list)) else x for x in e]


def free_locals(e, out, depth=0):
    if depth > 60 or not isinstance(e, (tuple, list)):
        return
    if isinstance(e, tuple) and e and e[0] == "var":
        out.add(e[1])
        return
    for x in e:
        if isinstance(x, (tuple, list)):
            free_locals(x, out, depth + 1)


def inline_helper(f, e, max_blocks=40):
    """a call of a small loop-free crate-local function whose single return value is an expression over its parameters ->
    that expression over the actual arguments (None otherwise): `expand(c)` reads like the `c << 2 | c >> 4` it stands for"""
    if e[0] != "call" or not isinstance(e[1], str):
        return None
    hb = f.bodies.get(e[1])
    if hb is None or hb.kind not in ("fn", "method") or hb.back_edges or hb.nblocks > max_blocks or hb.argc != len(e[2]):
        return None
    heb = ExprBuilder(hb)
    rets = []
    for bi, k in hb.defs.get(0, []):
        rets.append(heb.call_expr(hb.blocks[bi]["term"]) if k == "term" else heb.rvalue(hb.blocks[bi]["stmts"][k]["rv"]))
    if len(rets) != 1:
        return None
    vs = set()
    free_locals(rets[0], vs)
    if any(l > hb.argc or l < 1 for l in vs):
        return None
    return subst(rets[0], {i + 1: a for i, a in enumerate(e[2])})


def ok_payload_of(f, path, args):
    """the payload of the single `Ok(..)` / `Some(..)` a crate-local function returns, over the actual arguments, when it is an
    expression over the function's parameters alone (None otherwise)"""
    hb = f.bodies.get(path)
    if hb is None or hb.kind not in ("fn", "method") or hb.argc != len(args):
        return None
    heb = ExprBuilder(hb)
    oks = []
    for bi, k, st in hb.stmts():
        if st["k"] == "assign" and st["p"]["l"] == 0 and not st["p"].get("p") and st["rv"]["k"] == "agg" and st["rv"].get("variant") in ("Ok", "Some"):
            oks.append(heb.rvalue(st["rv"]))
    if len(oks) != 1 or len(oks[0][2]) != 1:
        return None
    pay = oks[0][2][0]
    vs = set()
    free_locals(pay, vs)
    if any(l > hb.argc or l < 1 for l in vs) or any(hb.defs.get(l) for l in vs):
        return None
    return subst(pay, {i + 1: a for i, a in enumerate(args)})


def see_through_try(f, e, depth=0):
    """replace `(branch(helper(args)) as Continue).0` / `(helper(args) as Ok).0` by the helper's Ok payload over the arguments"""
    if depth > 40 or not isinstance(e, (tuple, list)):
        return e
    if isinstance(e, tuple) and e and e[0] == "field" and e[2] == "0" and e[1][0] == "downcast" and e[1][2] in ("Continue", "Ok", "Some"):
        inner = e[1][1]
        if inner[0] == "call" and inner[1].endswith("as std::ops::Try>::branch") and len(inner[2]) == 1:
            inner = inner[2][0]
        if inner[0] == "call" and isinstance(inner[1], str) and inner[1] in f.bodies:
            r = ok_payload_of(f, inner[1], inner[2])
            if r is not None:
                return see_through_try(f, r, depth + 1)
    if isinstance(e, tuple):
        return tuple(see_through_try(f, x, depth + 1) if isinstance(x, (tuple, list)) else x for x in e)
    return [see_through_try(f, x, depth + 1) if isinstance(x, (tuple, list)) else x for x in e]


_TRIVIAL = {}


def trivial_getter(f, path):
    """the field chain `(*self).a.b` a crate-local one-argument function returns and does nothing else, or None"""
    if path in _TRIVIAL:
        return _TRIVIAL[path]
    r = None
    b = f.bodies.get(path)
    if b is not None and b.kind in ("fn", "method") and b.argc == 1 and b.nblocks <= 2 and not b.back_edges and not any(True for _ in b.calls()):
        eb = ExprBuilder(b)
        rets = [eb.rvalue(b.blocks[bi]["stmts"][k]["rv"]) for bi, k in b.defs.get(0, []) if k != "term"]
        if len(rets) == 1:
            e = rets[0]
            x, nf = e, 0
            while x[0] in ("field", "deref", "ref"):
                nf += x[0] == "field"
                x = x[1]
            if x[0] == "var" and x[1] == 1 and nf >= 1:
                r = e
    _TRIVIAL[path] = r
    return r

"""Facts loading: runs the mirfacts driver on the *current* /repo tree (cached by
content hash), and wraps the JSON into Body / Facts objects with CFG helpers.

Nothing here executes the engine: the only program run is the compiler front end
(type check + MIR construction) with the mirfacts callback.
"""
import fcntl
import hashlib
import json
import os
import subprocess
import sys
import time

VERIF = os.path.dirname(os.path.dirname(os.path.abspath(__file__)))
REPO = os.environ.get("VERIF_REPO", "/repo")
CACHE = os.environ.get("VERIF_CACHE", os.path.join(VERIF, ".cache"))
DRIVER_DIR = os.path.join(VERIF, "driver")
DRIVER = os.path.join(DRIVER_DIR, "target", "release", "mirfacts")

FEATURE_CONFIGS = {
    "default": [],
    "nodefault": ["--no-default-features"],
}


def _sha_file(h, path):
    with open(path, "rb") as f:
        while True:
            b = f.read(1 << 20)
            if not b:
                break
            h.update(b)


def tree_hash(repo=None, config="default"):
    repo = repo or REPO
    h = hashlib.sha256()
    files = []
    for root, dirs, fs in os.walk(os.path.join(repo, "src")):
        dirs.sort()
        for f in sorted(fs):
            files.append(os.path.join(root, f))
    for extra in ("Cargo.toml", "Cargo.lock"):
        p = os.path.join(repo, extra)
        if os.path.exists(p):
            files.append(p)
    for p in files:
        h.update(os.path.relpath(p, repo).encode())
        h.update(b"\0")
        _sha_file(h, p)
    h.update(config.encode())
    # the serialiser itself is part of the key
    for p in ("src/main.rs", "src/json.rs"):
        _sha_file(h, os.path.join(DRIVER_DIR, p))
    return h.hexdigest()[:24]


def build_driver():
    """Build the mirfacts driver if its binary is missing or older than its sources."""
    srcs = [os.path.join(DRIVER_DIR, "src", f) for f in ("main.rs", "json.rs")] + [os.path.join(DRIVER_DIR, "Cargo.toml")]
    if os.path.exists(DRIVER) and all(os.path.getmtime(DRIVER) >= os.path.getmtime(s) for s in srcs):
        return
    env = dict(os.environ, CARGO_NET_OFFLINE="true")
    r = subprocess.run(["cargo", "+nightly", "build", "--release", "--offline"], cwd=DRIVER_DIR, env=env,
                       stdout=subprocess.PIPE, stderr=subprocess.STDOUT, text=True)
    if r.returncode != 0 or not os.path.exists(DRIVER):
        sys.stderr.write(r.stdout)
        raise SystemExit("mirfacts driver build failed")


def _sysroot_lib():
    r = subprocess.run(["rustc", "+nightly", "--print", "sysroot"], stdout=subprocess.PIPE, text=True, check=True)
    return os.path.join(r.stdout.strip(), "lib")


def run_driver(repo, out, config="default", crate="icy_engine", target_dir=None, lib_only=True):
    build_driver()
    target_dir = target_dir or os.path.join(CACHE, "target")
    os.makedirs(target_dir, exist_ok=True)
    # force the workspace crate to be re-checked (cargo's freshness cache would skip the wrapper)
    fp = os.path.join(target_dir, "debug", ".fingerprint")
    if os.path.isdir(fp):
        for d in os.listdir(fp):
            if d.startswith(crate.replace("_", "-") + "-") or d.startswith(crate + "-"):
                subprocess.run(["rm", "-rf", os.path.join(fp, d)])
    env = dict(os.environ)
    env.update({
        "CARGO_NET_OFFLINE": "true",
        "LD_LIBRARY_PATH": _sysroot_lib() + ":" + env.get("LD_LIBRARY_PATH", ""),
        "RUSTFLAGS": "-Zmir-opt-level=0 -Awarnings",
        "RUSTC_WORKSPACE_WRAPPER": DRIVER,
        "MIRFACTS_OUT": out,
        "MIRFACTS_CRATES": crate,
        "CARGO_TARGET_DIR": target_dir,
    })
    if os.path.exists(out):
        os.remove(out)
    cmd = ["cargo", "+nightly", "check", "--offline"] + (["--lib"] if lib_only else []) + FEATURE_CONFIGS[config]
    t = time.time()
    r = subprocess.run(cmd, cwd=repo, env=env, stdout=subprocess.PIPE, stderr=subprocess.STDOUT, text=True)
    if r.returncode != 0:
        sys.stderr.write(r.stdout[-6000:])
        raise SystemExit("cargo check (mirfacts) failed on %s" % repo)
    if not os.path.exists(out):
        sys.stderr.write(r.stdout[-3000:])
        raise SystemExit("mirfacts produced no facts file (stale cargo cache?)")
    return time.time() - t


def ensure_facts(repo=None, config="default"):
    """Return path of the facts file for the current working tree (building it if needed)."""
    repo = repo or REPO
    os.makedirs(CACHE, exist_ok=True)
    h = tree_hash(repo, config)
    out = os.path.join(CACHE, "facts-%s.json" % h)
    if os.path.exists(out):
        return out, h, 0.0
    lock = open(os.path.join(CACHE, "lock"), "w")
    fcntl.flock(lock, fcntl.LOCK_EX)
    try:
        if os.path.exists(out):
            return out, h, 0.0
        # keep the cache small: drop older facts files
        olds = sorted((f for f in os.listdir(CACHE) if f.startswith("facts-") and f.endswith(".json")),
                      key=lambda f: os.path.getmtime(os.path.join(CACHE, f)))
        for f in olds[:-6]:
            os.remove(os.path.join(CACHE, f))
        dt = run_driver(repo, out + ".new", config)
        os.rename(out + ".new", out)
        return out, h, dt
    finally:
        fcntl.flock(lock, fcntl.LOCK_UN)
        lock.close()


# ---------------------------------------------------------------------------

class Body:
    __slots__ = ("f", "j", "id", "kind", "file", "line", "name", "blocks", "locals", "argc", "nblocks",
                 "succ", "pred", "_rpo", "_idom", "_ipdom", "_domdepth", "exits", "_loops", "impl_self_s",
                 "impl_trait", "trait_item", "parent", "vis", "_defs", "_live_in", "_tyl")

    def __init__(self, facts, j):
        self.f = facts
        self.j = j
        self.id = j["id"]
        self.kind = j["kind"]
        self.file = j["file"]
        self.line = j["line"]
        self.name = j.get("name")
        self.blocks = j["blocks"]
        self.locals = j["locals"]
        self.argc = j["argc"]
        self.impl_self_s = j.get("impl_self_s")
        self.impl_trait = j.get("impl_trait")
        self.trait_item = j.get("trait_item")
        self.parent = j.get("parent")
        self.vis = j.get("vis")
        self.nblocks = len(self.blocks)
        self._rpo = self._idom = self._ipdom = self._loops = self._defs = self._live_in = None
        self._build_cfg()

    # -- CFG (cleanup blocks and unwind edges excluded: panics are what we look for, not what we follow)
    def _build_cfg(self):
        n = self.nblocks
        succ = [[] for _ in range(n)]
        for i, b in enumerate(self.blocks):
            if b.get("cleanup"):
                continue
            t = b["term"]
            k = t["k"]
            if k == "goto":
                succ[i] = [t["target"]]
            elif k == "switch":
                s = []
                for _, tg in t["targets"]:
                    if tg not in s:
                        s.append(tg)
                if t["otherwise"] not in s:
                    s.append(t["otherwise"])
                succ[i] = s
            elif k in ("call", "assert", "drop"):
                if t.get("target") is not None:
                    succ[i] = [t["target"]]
            elif k == "other":
                succ[i] = [x for x in t.get("succ", []) if not self.blocks[x].get("cleanup")]
        pred = [[] for _ in range(n)]
        for i in range(n):
            for s in succ[i]:
                pred[s].append(i)
        self.succ = succ
        self.pred = pred
        self.exits = [i for i, b in enumerate(self.blocks) if not b.get("cleanup") and b["term"]["k"] == "return"]

    @property
    def rpo(self):
        if self._rpo is None:
            seen = set()
            order = []
            stack = [(0, iter(self.succ[0]))]
            seen.add(0)
            while stack:
                node, it = stack[-1]
                adv = False
                for s in it:
                    if s not in seen:
                        seen.add(s)
                        stack.append((s, iter(self.succ[s])))
                        adv = True
                        break
                if not adv:
                    order.append(node)
                    stack.pop()
            order.reverse()
            self._rpo = order
        return self._rpo

    @staticmethod
    def _dom(n, order, pred, entry):
        idx = {b: i for i, b in enumerate(order)}
        idom = {entry: entry}
        changed = True
        while changed:
            changed = False
            for b in order:
                if b == entry:
                    continue
                new = None
                for p in pred[b]:
                    if p in idom:
                        if new is None:
                            new = p
                        else:
                            a, c = p, new
                            while a != c:
                                while idx[a] > idx[c]:
                                    a = idom[a]
                                while idx[c] > idx[a]:
                                    c = idom[c]
                            new = a
                if new is not None and idom.get(b) != new:
                    idom[b] = new
                    changed = True
        return idom

    @property
    def idom(self):
        if self._idom is None:
            self._idom = self._dom(self.nblocks, self.rpo, self.pred, 0)
        return self._idom

    def dominates(self, a, b):
        """block a dominates block b (reflexive)"""
        idom = self.idom
        if b not in idom or a not in idom:
            return False
        while True:
            if a == b:
                return True
            nb = idom[b]
            if nb == b:
                return False
            b = nb

    @property
    def ipdom(self):
        """post-dominators w.r.t. a virtual exit joined to every return block (diverging ends are ignored)"""
        if self._ipdom is None:
            n = self.nblocks
            EXIT = n
            rsucc = [list(self.pred[i]) for i in range(n)] + [list(self.exits)]
            rpred = [list(self.succ[i]) for i in range(n)] + [[]]
            for e in self.exits:
                rpred[e] = rpred[e] + [EXIT]
            seen = {EXIT}
            order = []
            stack = [(EXIT, iter(rsucc[EXIT]))]
            while stack:
                node, it = stack[-1]
                adv = False
                for s in it:
                    if s not in seen:
                        seen.add(s)
                        stack.append((s, iter(rsucc[s])))
                        adv = True
                        break
                if not adv:
                    order.append(node)
                    stack.pop()
            order.reverse()
            self._ipdom = self._dom(n + 1, order, rpred, EXIT)
        return self._ipdom

    def postdominates(self, a, b):
        """block a post-dominates block b (reflexive), w.r.t. normal returns"""
        ip = self.ipdom
        if b not in ip or a not in ip:
            return False
        while True:
            if a == b:
                return True
            nb = ip[b]
            if nb == b:
                return False
            b = nb

    def reachable_from(self, start, avoid=()):
        """set of blocks reachable from block `start` (inclusive) without entering blocks in `avoid`"""
        seen = set()
        st = [start]
        while st:
            b = st.pop()
            if b in seen or b in avoid:
                continue
            seen.add(b)
            st.extend(self.succ[b])
        return seen

    @property
    def back_edges(self):
        if self._loops is None:
            be = []
            for b in self.rpo:
                for s in self.succ[b]:
                    if self.dominates(s, b):
                        be.append((b, s))
            self._loops = be
        return self._loops

    def loop_heads(self):
        return {h for _, h in self.back_edges}

    def control_deps(self, block):
        """switch blocks on which the execution of `block` (transitively) depends: S such that `block` (or something it depends
        on) post-dominates one successor of S but not S itself"""
        deps = []
        work = [block]
        while work:
            x0 = work.pop()
            for sb in range(self.nblocks):
                t = self.blocks[sb]["term"]
                if t["k"] != "switch" or len(self.succ[sb]) < 2 or sb in deps:
                    continue
                if any(self.postdominates(x0, x) for x in self.succ[sb]) and not self.postdominates(x0, sb):
                    deps.append(sb)
                    work.append(sb)
        return deps

    def natural_loop(self, head):
        body = {head}
        st = [t for t, h in self.back_edges if h == head]
        while st:
            b = st.pop()
            if b in body:
                continue
            body.add(b)
            st.extend(self.pred[b])
        return body

    # -- convenience
    def ty(self, local):
        return self.f.types[self.locals[local]["t"]]

    def tys(self, local):
        return self.f.types[self.locals[local]["t"]]["s"]

    def lname(self, local):
        return self.locals[local].get("n")

    def terms(self):
        for i, b in enumerate(self.blocks):
            if not b.get("cleanup"):
                yield i, b["term"]

    def calls(self):
        for i, b in enumerate(self.blocks):
            if not b.get("cleanup") and b["term"]["k"] == "call":
                yield i, b["term"]

    def stmts(self):
        for i, b in enumerate(self.blocks):
            if b.get("cleanup"):
                continue
            for k, s in enumerate(b["stmts"]):
                yield i, k, s

    @property
    def defs(self):
        """local -> list of (block, stmt index or 'term') that assign the whole local"""
        if self._defs is None:
            d = {}
            for i, k, s in self.stmts():
                if s["k"] == "assign" and "p" not in s["p"]:
                    d.setdefault(s["p"]["l"], []).append((i, k))
            for i, t in self.terms():
                if t["k"] == "call" and "p" not in t["dest"]:
                    d.setdefault(t["dest"]["l"], []).append((i, "term"))
            self._defs = d
        return self._defs

    @property
    def live_in(self):
        """block -> frozenset of locals live on entry (classic backward liveness over whole locals; a write through a
        projection counts as a use of the root, a borrow as a use).  Used to drop facts about dead temporaries."""
        if self._live_in is not None:
            return self._live_in

        def places(o, out):
            if isinstance(o, dict):
                if "l" in o and isinstance(o["l"], int):
                    out.add(o["l"])
                    for el in (o.get("p") or ()):
                        if isinstance(el, (list, tuple)) and el and el[0] == "i":
                            out.add(el[1])
                for v in o.values():
                    places(v, out)
            elif isinstance(o, (list, tuple)):
                for v in o:
                    places(v, out)
        n = self.nblocks
        gen, kill = [set() for _ in range(n)], [set() for _ in range(n)]
        for bi in range(n):
            blk = self.blocks[bi]
            g, k = set(), set()
            # backward through the block: terminator first
            t = blk["term"]
            tu = set()
            td = set()
            for key, v in t.items():
                if key == "dest":
                    if isinstance(v, dict) and not v.get("p"):
                        td.add(v["l"])
                    else:
                        places(v, tu)
                elif key not in ("callee", "targets", "otherwise", "target", "unwind", "line", "file", "exp", "k"):
                    places(v, tu)
            if t["k"] == "return":
                tu.add(0)
            g = (g - td) | tu
            k |= td
            for s_ in reversed(blk["stmts"]):
                su, sd = set(), set()
                if s_["k"] == "assign":
                    if not s_["p"].get("p"):
                        sd.add(s_["p"]["l"])
                    else:
                        places(s_["p"], su)
                    places(s_["rv"], su)
                else:
                    places(s_, su)
                g = (g - sd) | su
                k |= sd
            gen[bi], kill[bi] = g, k
        live = [set(gen[i]) for i in range(n)]
        if self.blocks and any(b_["term"]["k"] == "return" for b_ in self.blocks):
            pass
        changed = True
        while changed:
            changed = False
            for bi in reversed(self.rpo if self.rpo else range(n)):
                out = set()
                for s2 in self.succ[bi]:
                    out |= live[s2]
                if self.blocks[bi]["term"]["k"] == "return":
                    out.add(0)
                new = gen[bi] | (out - kill[bi])
                if new != live[bi]:
                    live[bi] = new
                    changed = True
        self._live_in = [frozenset(x) for x in live]
        return self._live_in

    def short(self):
        return short_name(self.id)

    def __repr__(self):
        return "<Body %s>" % self.id


def short_name(bid):
    """`parsers::<impl buffers::Buffer>::scroll_left` -> `parsers::Buffer::scroll_left`;
    `<T as Trait>` forms are kept readable.  Used in keys (no line numbers anywhere)."""
    import re
    s = re.sub(r"<impl ([^<>]*?) for ([^<>]*(?:<[^<>]*>)?[^<>]*?)>", lambda m: "<%s as %s>" % (m.group(2).split("::")[-1], m.group(1).split("::")[-1]), bid)
    s = re.sub(r"<impl ([^<>]*(?:<[^<>]*>)?[^<>]*?)>", lambda m: m.group(1).split("::")[-1] if "<" not in m.group(1) else m.group(1), s)
    return s


class Facts:
    def __init__(self, path):
        t = time.time()
        with open(path) as f:
            j = json.load(f)
        self.path = path
        self.j = j
        self.types = j["types"]
        self.adts = j["adts"]
        self.consts = j["consts"]
        self.impls = j["impls"]
        self.bodies = {}
        dup = []
        for bj in j["bodies"]:
            b = Body(self, bj)
            if b.id in self.bodies:
                dup.append(b.id)
                b.id = b.id + "#%d" % b.line
            self.bodies[b.id] = b
        self.duplicates = dup
        self.load_s = time.time() - t
        # trait method -> impl method bodies
        self.trait_impls = {}
        for b in self.bodies.values():
            if b.trait_item:
                self.trait_impls.setdefault(b.trait_item, []).append(b.id)
        self.by_name = {}
        for b in self.bodies.values():
            if b.name:
                self.by_name.setdefault(b.name, []).append(b)

    def find(self, suffix, self_ty=None, trait=None):
        """bodies whose id ends with `suffix` (and optional impl self type / trait filters)"""
        out = []
        for b in self.bodies.values():
            if b.id == suffix or b.id.endswith("::" + suffix) or b.id.endswith(suffix):
                if self_ty is not None and (b.impl_self_s or "") != self_ty:
                    continue
                if trait is not None and (b.impl_trait or "") != trait:
                    continue
                out.append(b)
        return out

    def method(self, self_ty, name, trait=None):
        """exactly one method `name` of impl self type `self_ty` (string as rustc prints it), or None"""
        out = [b for b in self.by_name.get(name, []) if b.kind == "method" and b.impl_self_s == self_ty
               and (trait is None or b.impl_trait == trait)]
        if len(out) == 1:
            return out[0]
        if len(out) > 1 and trait is None:
            inh = [b for b in out if not b.impl_trait]
            if len(inh) == 1:
                return inh[0]
        return None

    def const_table(self, name):
        """decoded scalar table for a const/static item (exact def path)"""
        c = self.consts.get(name)
        if c is None:
            return None
        if "val" in c:
            return c["val"]
        ty = self.types[c["ty"]]
        data = bytes.fromhex(c["bytes"])
        val, off = self._decode(ty, data, 0)
        return val

    def _size_align(self, ty):
        k = ty["k"]
        if k == "bool":
            return 1, 1
        if k == "char":
            return 4, 4
        if k in ("int", "float"):
            n = ty["n"]
            if n in ("usize", "isize"):
                return 8, 8
            bits = int("".join(ch for ch in n if ch.isdigit()))
            return bits // 8, min(bits // 8, 16 if bits == 128 else 8)
        if k == "array":
            s, a = self._size_align(self.types[ty["e"]])
            return s * ty["len"], a
        if k == "tuple":
            return self._layout([self.types[t] for t in ty["args"]])[1:]
        if k == "adt":
            adt = self.adts[ty["adt"]]
            fs = [self.types[f[1]] for f in adt["variants"][0]["fields"]]
            return self._layout(fs)[1:]
        raise ValueError("no layout for %s" % ty["s"])

    def _layout(self, ftys):
        """Layout for tuples/structs of scalars.  rustc may reorder fields; we only accept
        homogeneous size/alignment (no reordering ambiguity) and fail closed otherwise."""
        sas = [self._size_align(t) for t in ftys]
        if len({sa for sa in sas}) > 1:
            raise ValueError("heterogeneous aggregate layout not supported")
        offs = []
        o = 0
        for s, a in sas:
            offs.append(o)
            o += s
        al = max((a for _, a in sas), default=1)
        return offs, o, al

    def _decode(self, ty, data, off):
        k = ty["k"]
        if k == "array":
            ety = self.types[ty["e"]]
            out = []
            for _ in range(ty["len"]):
                v, off = self._decode(ety, data, off)
                out.append(v)
            return out, off
        if k in ("tuple", "adt"):
            if k == "tuple":
                ftys = [self.types[t] for t in ty["args"]]
            else:
                ftys = [self.types[f[1]] for f in self.adts[ty["adt"]]["variants"][0]["fields"]]
            offs, size, _ = self._layout(ftys)
            vals = []
            for ft, fo in zip(ftys, offs):
                v, _ = self._decode(ft, data, off + fo)
                vals.append(v)
            return tuple(vals), off + size
        s, _ = self._size_align(ty)
        raw = data[off:off + s]
        if k == "float":
            import struct
            return struct.unpack("<f" if s == 4 else "<d", raw)[0], off + s
        v = int.from_bytes(raw, "little", signed=(k == "int" and ty["n"].startswith("i")))
        return v, off + s


_FACTS = {}


def load(repo=None, config=None):
    repo = repo or REPO
    config = config or os.environ.get("VERIF_CONFIG", "default")
    path, h, dt = ensure_facts(repo, config)
    if path not in _FACTS:
        f = Facts(path)
        f.tree_hash = h
        f.driver_s = dt
        f.config = config
        _FACTS[path] = f
    return _FACTS[path]

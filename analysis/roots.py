"""Root sets (DESIGN §3.1), resolved by trait + impl self type — not by text."""

TXT_PARSERS = ["ansi", "avatar", "pcboard", "ctrla", "renegade", "petscii", "atascii", "viewdata", "mode7", "ascii"]
GFX_PARSERS = ["rip", "igs"]
BUFFER_PARSER = "parsers::BufferParser"


def parser_methods(f, mod, names=("print_char",)):
    out = []
    for b in f.bodies.values():
        if b.kind == "method" and b.impl_trait == BUFFER_PARSER and b.impl_self_s == "parsers::%s::Parser" % mod and b.name in names:
            out.append(b.id)
    return out


def txt_roots(f):
    r = []
    for m in TXT_PARSERS:
        r += parser_methods(f, m)
    return r


def gfx_roots(f):
    r = []
    for m in GFX_PARSERS:
        r += parser_methods(f, m, ("print_char", "get_next_action", "get_picture_data", "get_mouse_fields"))
    return r


def load_roots(f):
    """(direct roots, loader roots reached through dyn OutputFormat)"""
    direct = []
    want = [("buffers::Buffer", "from_bytes"), ("sauce_mod::SauceData", "extract"), ("fonts::BitFont", "from_bytes"),
            ("tdf_font::TheDrawFont", "from_tdf_bytes"), ("palette_handling::Palette", "load_palette"),
            ("layer::Layer", "from_clipboard_data")]
    for st, nm in want:
        b = f.method(st, nm)
        if b is not None:
            direct.append(b.id)
    loaders = [b.id for b in f.bodies.values() if b.kind == "method" and b.impl_trait == "formats::OutputFormat" and b.name == "load_buffer"]
    return direct, loaders

"""Call graph over local bodies: resolved calls, CHA/RTA for unresolved trait calls,
closure creation, fn items used as values, Drop terminators."""
from collections import deque


def _operands_of_stmt(s):
    rv = s.get("rv")
    if not rv:
        return
    for key in ("a", "b"):
        if key in rv:
            yield rv[key]
    for op in rv.get("ops", []):
        yield op


class CallGraph:
    def __init__(self, facts):
        self.f = facts
        self.edges = {}      # body id -> list of (callee id, kind, block index)
        self.unresolved = [] # (body id, block, callee path) unresolved and without local candidates
        self._coerced = None
        self._drop_impls = None
        self._adt_drop_cache = {}
        for b in facts.bodies.values():
            self.edges[b.id] = self._edges_of(b)

    # -- RTA: impl self types that are unsize-coerced to `dyn Trait` somewhere in the crate
    @property
    def coerced(self):
        if self._coerced is None:
            c = {}
            T = self.f.types
            for b in self.f.bodies.values():
                for _, _, s in b.stmts():
                    if s["k"] != "assign":
                        continue
                    rv = s["rv"]
                    if rv["k"] == "cast" and rv["ck"].startswith("coerce:Unsize"):
                        to = self._dyn_of(T[rv["ty"]])
                        if to:
                            src = self._pointee_adt(T[rv["from"]])
                            if src:
                                c.setdefault(to, set()).add(src)
            self._coerced = c
        return self._coerced

    def _dyn_of(self, ty, depth=0):
        T = self.f.types
        if depth > 4:
            return None
        if ty["k"] == "dyn":
            return ty.get("trait")
        if ty["k"] in ("ref", "ptr"):
            return self._dyn_of(T[ty["e"]], depth + 1)
        if ty["k"] == "adt" and ty["args"]:
            return self._dyn_of(T[ty["args"][0]], depth + 1)
        return None

    def _pointee_adt(self, ty, depth=0):
        T = self.f.types
        if depth > 4:
            return None
        if ty["k"] in ("ref", "ptr"):
            return self._pointee_adt(T[ty["e"]], depth + 1)
        if ty["k"] == "adt":
            if ty["adt"] in ("std::boxed::Box", "std::rc::Rc", "std::sync::Arc") and ty["args"]:
                return self._pointee_adt(T[ty["args"][0]], depth + 1)
            return ty["s"]
        return None

    def impl_candidates(self, trait_method_path, dyn_trait=None):
        """local impl bodies for a trait method; narrowed by RTA when the receiver is `dyn Trait`"""
        cands = list(self.f.trait_impls.get(trait_method_path, []))
        if dyn_trait is not None and dyn_trait in self.coerced:
            live = self.coerced[dyn_trait]
            narrowed = [c for c in cands if self.f.bodies[c].impl_self_s in live]
            cands = narrowed
        # provided (default) body of the trait method itself
        if trait_method_path in self.f.bodies:
            cands.append(trait_method_path)
        return cands

    @property
    def drop_impls(self):
        if self._drop_impls is None:
            d = {}
            for b in self.f.bodies.values():
                if b.impl_trait in ("std::ops::Drop", "core::ops::Drop") and b.name == "drop":
                    d[b.impl_self_s] = b.id
            self._drop_impls = d
        return self._drop_impls

    def _drops_for_type(self, tix, seen=None):
        """Drop::drop bodies that dropping a value of type index `tix` may run"""
        if tix in self._adt_drop_cache:
            return self._adt_drop_cache[tix]
        seen = seen or set()
        if tix in seen:
            return set()
        seen.add(tix)
        T = self.f.types
        ty = T[tix]
        out = set()
        if ty["k"] == "adt":
            if ty["s"] in self.drop_impls:
                out.add(self.drop_impls[ty["s"]])
            adt = self.f.adts.get(ty["adt"])
            if adt:
                for v in adt["variants"]:
                    for _, ft in v["fields"]:
                        out |= self._drops_for_type(ft, seen)
            for a in ty.get("args", []):
                out |= self._drops_for_type(a, seen)
        elif ty["k"] in ("array", "slice"):
            out |= self._drops_for_type(ty["e"], seen)
        elif ty["k"] == "tuple":
            for a in ty["args"]:
                out |= self._drops_for_type(a, seen)
        elif ty["k"] == "dyn":
            tr = ty.get("trait")
            for st in self.coerced.get(tr, ()):
                if st in self.drop_impls:
                    out.add(self.drop_impls[st])
        self._adt_drop_cache[tix] = out
        return out

    def _edges_of(self, b):
        out = []
        bodies = self.f.bodies
        for i, t in b.terms():
            if t["k"] == "call":
                c = t["callee"]
                res = c.get("resolved")
                if res and c.get("ikind") != "virtual" and res in bodies:
                    out.append((res, "call", i))
                elif res and c.get("ikind") == "virtual":
                    tr = c.get("trait")
                    for cand in self.impl_candidates(c["path"], dyn_trait=tr):
                        out.append((cand, "dyn", i))
                elif not res and c.get("path"):
                    cands = self.impl_candidates(c["path"])
                    for cand in cands:
                        out.append((cand, "cha", i))
                    if not cands and c.get("local"):
                        self.unresolved.append((b.id, i, c["path"]))
                elif "indirect" in c:
                    self.unresolved.append((b.id, i, "indirect"))
                # closure-calling shims: FnOnce::call_once etc. on a local closure type
                for ga in c.get("targs", []):
                    ty = self.f.types[ga]
                    if ty["k"] == "closure" and ty["def"] in bodies:
                        out.append((ty["def"], "closure-arg", i))
                    if ty["k"] == "fndef" and ty["def"] in bodies:
                        out.append((ty["def"], "fnitem-arg", i))
                for a in t["args"]:
                    cst = a.get("const")
                    if cst and cst.get("fn"):
                        tgt = cst.get("fn_resolved") or cst["fn"]
                        if tgt in bodies:
                            out.append((tgt, "fnitem", i))
            elif t["k"] == "drop":
                for d in self._drops_for_type(t["ty"]):
                    out.append((d, "drop", i))
        for i, k, s in b.stmts():
            if s["k"] != "assign":
                continue
            rv = s["rv"]
            if rv["k"] == "agg" and rv.get("ak") == "closure" and rv["def"] in bodies:
                out.append((rv["def"], "closure", i))
            for op in _operands_of_stmt(s):
                cst = op.get("const")
                if cst and cst.get("fn"):
                    tgt = cst.get("fn_resolved") or cst["fn"]
                    if tgt in bodies:
                        out.append((tgt, "fnitem", i))
        return out

    def callees(self, bid):
        return {c for c, _, _ in self.edges.get(bid, ())}

    def reachable(self, roots, stop=()):
        """body ids reachable from roots; returns dict id -> (parent id or None)"""
        parent = {}
        dq = deque()
        for r in roots:
            if r not in parent:
                parent[r] = None
                dq.append(r)
        while dq:
            n = dq.popleft()
            if n in stop:
                continue
            for c, _, _ in self.edges.get(n, ()):
                if c not in parent:
                    parent[c] = n
                    dq.append(c)
        return parent

    def path_to(self, parent, target):
        p = []
        n = target
        while n is not None:
            p.append(n)
            n = parent.get(n)
        p.reverse()
        return p

    def callers(self):
        rev = {}
        for a, es in self.edges.items():
            for c, k, i in es:
                rev.setdefault(c, []).append((a, k, i))
        return rev

    def sccs(self, nodes):
        """Tarjan SCCs restricted to `nodes`; returns list of lists (only cyclic ones)"""
        nodes = set(nodes)
        index = {}
        low = {}
        onst = set()
        st = []
        out = []
        counter = [0]
        for root in nodes:
            if root in index:
                continue
            work = [(root, iter(sorted(self.callees(root) & nodes)))]
            index[root] = low[root] = counter[0]
            counter[0] += 1
            st.append(root)
            onst.add(root)
            while work:
                v, it = work[-1]
                adv = False
                for w in it:
                    if w not in index:
                        index[w] = low[w] = counter[0]
                        counter[0] += 1
                        st.append(w)
                        onst.add(w)
                        work.append((w, iter(sorted(self.callees(w) & nodes))))
                        adv = True
                        break
                    elif w in onst:
                        low[v] = min(low[v], index[w])
                if adv:
                    continue
                work.pop()
                if work:
                    u = work[-1][0]
                    low[u] = min(low[u], low[v])
                if low[v] == index[v]:
                    comp = []
                    while True:
                        w = st.pop()
                        onst.discard(w)
                        comp.append(w)
                        if w == v:
                            break
                    if len(comp) > 1 or v in self.callees(v):
                        out.append(comp)
        return out

"""Interprocedural layer of the discharge calculus (DESIGN §3.3 "kept small"):

 * mod summaries   which field names a callee may write (transitively) and which reference parameters it
                   overwrites wholesale — decides what a call makes the caller forget;
 * return summaries  interval / alias / pointer / Some-ness / relations of the return value, relative to
                   the callee's parameters;
 * precondition lifting  an obligation that fails inside a callee but only mentions (unmodified) parameters
                   is checked in each caller's state at the call site instead (and lifted again if needed).
"""
from collections import OrderedDict

from . import absdom
from .absdom import FULL, TOP, State, term_place, under
from .absint import Analyzer, is_mut_ref, LEN_MAX, GOOD_VARIANT

STD_MUTATORS_LEN = ("::push", "::push_str", "::push_back", "::push_front", "::pop", "::pop_front", "::pop_back", "::clear", "::truncate",
                    "::resize", "::insert", "::remove", "::swap_remove", "::drain", "::splice", "::split_off", "::retain", "::dedup",
                    "::extend", "::extend_from_slice", "::append", "::insert_str", "::replace_range", "::take", "::replace", "::swap",
                    "::get_or_insert", "::entry", "::write_fmt", "::write_str", "::sort", "::reverse", "::fill", "::copy_from_slice",
                    "::clone_from", "::set_position", "::read_exact", "::read_to_end", "::seek", "::rotate_left", "::rotate_right")
STD_ELEMENT_ONLY = ("index_mut", "deref_mut", "iter_mut", "get_mut", "last_mut", "first_mut", "as_mut", "as_mut_slice", "borrow_mut",
                    "chunks_mut", "split_at_mut", "lock", "as_deref_mut", "values_mut")


class Mod:
    __slots__ = ("names", "roots", "wild")

    def __init__(self):
        self.names = set()
        self.roots = set()
        self.wild = False

    def key(self):
        return (frozenset(self.names), frozenset(self.roots), self.wild)


class Lifted:
    """a failing obligation of a callee, expressed over its (unmodified) parameters"""
    __slots__ = ("cls", "kind", "parts", "origin", "desc", "what", "file", "line", "chain", "must")

    def __init__(self, cls, kind, parts, origin, desc, what, file, line, chain, must=False):
        self.cls, self.kind, self.parts = cls, kind, parts
        # must: the condition necessarily held at entry whenever the function returns normally, and it speaks about places
        # the function never writes -- only then may a caller assume it after the call
        self.must = must
        self.origin, self.desc, self.what, self.file, self.line, self.chain = origin, desc, what, file, line, chain


class Summary:
    def __init__(self):
        self.exports = []      # [Lifted]
        self.ret = None        # dict
        self.analysed = False


class Interproc:
    def __init__(self, facts, cg):
        self.f = facts
        self.cg = cg
        self.mod = {}
        self.sum = {}
        self.results = {}
        self.in_progress = set()
        self.an = Analyzer(facts, interproc=self)
        self.prev_sum = {}
        self.cyclic = set()
        for comp in cg.sccs([bid for bid, b in facts.bodies.items() if b.kind in ("fn", "method", "closure")]):
            self.cyclic |= set(comp)
        self.compute_mod()
        self.watch = None
        self.nowrap = None
        self.establishers = {}         # body id -> clause names it establishes unconditionally ({true} f {clause}); assumed at call sites
        self._inv_cache = {}
        self._cparam_cache = {}
        self.entry_assume = None       # fn(body) -> {clause name: [(a, b, c)]} contracts over parameter terms (see analyse)
        self.clause_results = {}
        self.invariants = []
        self.closure_checked = set()   # closure bodies whose exports were checked at a consuming call

    # ------------------------------------------------------------------ mod summaries
    def _resolve_ref(self, b, local, depth=0):
        """(param index or None, steps tuple, derived) for a reference-typed local, through single-definition temps"""
        if depth > 12:
            return None
        if 1 <= local <= b.argc:
            return (local, ("*",), False)
        ds = b.defs.get(local, [])
        if len(ds) != 1:
            return None
        bi, k = ds[0]
        if k == "term":
            t = b.blocks[bi]["term"]
            c = t["callee"]
            path = c.get("resolved") or c.get("path") or ""
            nm = path.split("::")[-1]
            if t["args"]:
                a0 = t["args"][0]
                pj = a0.get("copy") or a0.get("move")
                if pj is not None and "p" not in pj:
                    r = self._resolve_ref(b, pj["l"], depth + 1)
                    if r is not None:
                        if nm in ("deref", "deref_mut", "as_mut", "as_ref", "borrow", "borrow_mut", "as_slice", "as_mut_slice", "as_str"):
                            return r
                        return (r[0], r[1], True)     # element / sub-object of it
            return None
        s = b.blocks[bi]["stmts"][k]
        rv = s["rv"]
        if rv["k"] in ("ref", "rawptr"):
            return self._resolve_place(b, rv["p"], depth + 1)
        if rv["k"] == "use":
            pj = rv["a"].get("copy") or rv["a"].get("move")
            if pj is not None:
                if "p" not in pj:
                    return self._resolve_ref(b, pj["l"], depth + 1)
                if all(el != "*" and el[0] in ("dc", "f") for el in pj["p"]):
                    # the payload of an Option / tuple returned by a call on a reference (`get_mut(i)`, `first_mut()`,
                    # `iter_mut().next()`): a pointer into what that reference points to
                    r = self._resolve_ref(b, pj["l"], depth + 1)
                    if r is not None:
                        return (r[0], r[1], True)
        if rv["k"] == "cast":
            pj = rv["a"].get("copy") or rv["a"].get("move")
            if pj is not None and "p" not in pj:
                return self._resolve_ref(b, pj["l"], depth + 1)
        return None

    def _resolve_place(self, b, pj, depth=0):
        """place -> (param or None, steps, derived): which parameter's memory it lies in"""
        proj = pj.get("p", [])
        if not proj:
            # a by-value local: caller-invisible unless it is itself a parameter passed by value (also invisible)
            return None
        if proj[0] != "*":
            return None
        base = self._resolve_ref(b, pj["l"], depth + 1)
        if base is None:
            return None
        steps = list(base[1])
        derived = base[2]
        for el in proj[1:]:
            if el == "*":
                steps.append("*")
            elif el[0] == "f":
                steps.append(el[2])
            elif el[0] == "dc":
                steps.append(("dc", el[1]))
            else:
                derived = True
                break
        return (base[0], tuple(steps), derived)

    @staticmethod
    def _last_field(steps):
        for s in reversed(steps):
            if isinstance(s, str) and s != "*":
                return s
        return None

    def _own_mod(self, b):
        m = Mod()
        T = self.f.types
        for bi, k, s in b.stmts():
            if s["k"] not in ("assign", "setdiscr"):
                continue
            pj = s["p"]
            proj = pj.get("p", [])
            if not proj or "*" not in [e for e in proj if e == "*"]:
                continue
            r = self._resolve_place(b, pj)
            # last field written (names are global, resolution only decides root writes)
            lf = None
            for el in proj:
                if el != "*" and el[0] in ("i", "ci", "sub"):
                    break
                if el != "*" and el[0] == "f":
                    lf = el[2]
            if lf is not None:
                m.names.add(lf)
            elif r is not None and r[0] is not None and not r[2] and r[1] == ("*",):
                m.roots.add(r[0])
            elif r is not None and not r[2]:
                f2 = self._last_field(r[1])
                if f2:
                    m.names.add(f2)
            elif r is None:
                # write through a pointer of unknown origin
                ty = T[b.locals[pj["l"]]["t"]]
                pt = ty.get("e")
                if pt is not None and T[pt]["k"] in ("int", "bool", "char"):
                    m.wild = True
        return m

    def compute_mod(self):
        bodies = self.f.bodies
        own = {}
        for bid, b in bodies.items():
            if b.kind in ("fn", "method", "closure"):
                own[bid] = self._own_mod(b)
        self.mod = own
        T = self.f.types
        changed = True
        rounds = 0
        while changed and rounds < 40:
            changed = False
            rounds += 1
            for bid, b in bodies.items():
                if bid not in own:
                    continue
                m = own[bid]
                before = m.key()
                for bi, t in b.calls():
                    c = t["callee"]
                    path = c.get("resolved") or c.get("path") or ""
                    cands = self.callee_ids(b, t)
                    nm = path.split("::")[-1]
                    for ai, a in enumerate(t["args"]):
                        pj = a.get("copy") or a.get("move")
                        if pj is None:
                            continue
                        aty = self.an_place_type(b, pj)
                        if aty is None:
                            continue
                        ty = T[aty]
                        if ty["k"] == "closure" and ty["def"] in own:
                            cm = own[ty["def"]]
                            m.names |= cm.names
                            m.wild |= cm.wild
                            if cm.roots:
                                m.wild = True
                            continue
                        if not is_mut_ref(ty):
                            continue
                        r = self._resolve_ref(b, pj["l"]) if "p" not in pj else self._resolve_place(b, pj)
                        if cands:
                            for cid in cands:
                                cm = own.get(cid)
                                if cm is None:
                                    continue
                                m.names |= cm.names
                                m.wild |= cm.wild
                                if (ai + 1) in cm.roots:
                                    self._root_write(m, r)
                        else:
                            if nm in STD_ELEMENT_ONLY or any(path.endswith(x) for x in ("::index_mut", "::deref_mut")):
                                continue
                            # std mutator or unknown external: the pointee is written
                            self._root_write(m, r)
                if m.key() != before:
                    changed = True

    def _root_write(self, m, r):
        if r is None:
            return
        if r[2]:
            return          # element / sub-object: no stable caller term lives there
        if r[1] == ("*",) and r[0] is not None:
            m.roots.add(r[0])
        else:
            lf = self._last_field(r[1])
            if lf:
                m.names.add(lf)

    def an_place_type(self, b, pj):
        T = self.f.types
        tix = b.locals[pj["l"]]["t"]
        for el in pj.get("p", ()):
            if el == "*":
                ty = T[tix]
                if ty["k"] in ("ref", "ptr"):
                    tix = ty["e"]
                elif ty["k"] == "adt" and ty["args"]:
                    tix = ty["args"][0]
                else:
                    return None
            elif el[0] == "f":
                tix = el[4]
            elif el[0] == "dc":
                pass
            elif el[0] in ("i", "ci"):
                tix = T[tix].get("e")
                if tix is None:
                    return None
            else:
                return None
        return tix

    def callee_ids(self, b, t):
        """local bodies a call terminator may enter"""
        c = t["callee"]
        res = c.get("resolved")
        bodies = self.f.bodies
        if res and c.get("ikind") != "virtual":
            return [res] if res in bodies else []
        if res and c.get("ikind") == "virtual":
            return self.cg.impl_candidates(c["path"], dyn_trait=c.get("trait"))
        if c.get("path"):
            return self.cg.impl_candidates(c["path"])
        return []

    # ------------------------------------------------------------------ const-generic specialisation
    # A body that mentions a const generic parameter (`SauceString<LEN, EMPTY>::read`) is analysed once per instantiation that
    # a call site names with literal arguments; the specialised analysis lives under the key `<body id>#[35,32]`.
    @staticmethod
    def base(key):
        return key.split("#[", 1)[0]

    @staticmethod
    def cargs_of(key):
        if "#[" not in key:
            return {}
        out = {}
        for i, tok in enumerate(key.split("#[", 1)[1].rstrip("]").split(",")):
            if tok != "?":
                out[i] = int(tok)
        return out

    def uses_cparams(self, bid):
        c = self._cparam_cache.get(bid)
        if c is None:
            b = self.f.bodies.get(bid)
            c = False
            if b is not None:
                import json as _json
                c = '"cparam_index"' in _json.dumps(b.blocks)
            self._cparam_cache[bid] = c
        return c

    def spec_key(self, cid, t, an):
        """key of the specialised analysis of callee `cid` for call terminator `t`, or `cid` itself"""
        if not self.uses_cparams(cid):
            return cid
        ga = (t["callee"].get("gargs") or "").strip()
        if not (ga.startswith("[") and ga.endswith("]")):
            return cid
        toks = [x.strip() for x in ga[1:-1].split(",")] if ga[1:-1].strip() else []
        vals = []
        import re as _re
        for i, tok in enumerate(toks):
            m = _re.fullmatch(r"(-?\d+)_[iu](8|16|32|64|128|size)", tok)
            if m:
                vals.append(m.group(1))
                continue
            m = _re.fullmatch(r"(true|false)", tok)
            if m:
                vals.append("1" if tok == "true" else "0")
                continue
            # the caller's own const parameter passed through
            m = _re.fullmatch(r"(\w+)(/#(\d+))?", tok)
            if m and an is not None and an.cargs and m.group(3) is not None and int(m.group(3)) in an.cargs:
                vals.append(str(an.cargs[int(m.group(3))]))
                continue
            vals.append("?")
        if not any(v != "?" for v in vals):
            return cid
        return "%s#[%s]" % (cid, ",".join(vals))

    # ------------------------------------------------------------------ summaries
    def summary(self, bid):
        s = self.sum.get(bid)
        if s is not None and s.analysed:
            return s
        if bid in self.in_progress:
            # recursion: use the previous round's summary (None in the first round: the recursive call site is
            # re-checked in the next round against the exports computed in this one)
            return self.prev_sum.get(bid)
        return self.analyse(bid)

    def run_scope(self, bodies):
        """analyse all `bodies`; bodies from which a recursive cycle is reachable are re-analysed until the
        exported preconditions of the cycle members are stable (recursive call sites checked against them)"""
        for bid in bodies:
            self.summary(bid)
        if not self.cyclic:
            return 1
        # who depends on a cyclic body?
        rev = {}
        for a, es in self.cg.edges.items():
            for c, k, i in es:
                rev.setdefault(c, set()).add(a)
        dep = set()
        st = [c for c in self.cyclic if c in self.sum]
        while st:
            x = st.pop()
            if x in dep:
                continue
            dep.add(x)
            st.extend(rev.get(x, ()))
        dep &= set(self.sum.keys())
        rounds = 1

        def sig():
            out = {}
            for c in self.cyclic:
                s = self.sum.get(c)
                if s is not None:
                    out[c] = sorted({(lf.origin, lf.desc, lf.kind, repr(lf.parts)) for lf in s.exports})
            return out
        while rounds < 5:
            before = sig()
            self.prev_sum = dict(self.sum)
            for bid in sorted(dep):
                self.sum.pop(bid, None)
                self.results.pop(bid, None)
            for bid in bodies:
                self.summary(bid)
            for bid in sorted(dep):
                if bid not in self.sum and self.f.bodies[bid].kind in ("fn", "method", "closure"):
                    self.summary(bid)
            rounds += 1
            if sig() == before:
                break
        return rounds

    def analyse(self, bid):
        b = self.f.bodies[self.base(bid)]
        s = Summary()
        self.in_progress.add(bid)
        # make sure callee summaries exist first (bottom-up), keeping the analyzer's per-body state intact
        for cid in sorted(self.cg.callees(self.base(bid))):
            if cid not in self.sum and cid not in self.in_progress and self.f.bodies[cid].kind in ("fn", "method"):
                self.analyse(cid)
        an = Analyzer(self.f, interproc=self)
        an.closure_seeds = self.an.closure_seeds
        an.watch = self.watch
        an.invariants = self.invariants
        an.nowrap = self.nowrap
        an.cargs = self.cargs_of(bid)
        an.infeasible = getattr(self, "infeasible", {}).get(self.base(bid), ())
        an.s9_unsigned = an.s9_unsigned or getattr(self, "s9_unsigned", False)
        an.mag = getattr(self, "mag", False)
        if an.mag:
            cfg = getattr(self, "mag_cfg", {})
            an.mag_fields = cfg.get("fields", frozenset())
            an.mag_variants = cfg.get("variants", frozenset())
            an.mag_calls = cfg.get("calls")
            an.mag_prop = cfg.get("prop")
            # invariants that hold between commands but are broken and restored inside one (the cursor position): an inner
            # helper may not rely on them for the trip count of a counting loop - its callers are asked instead
            soft = cfg.get("soft")
            if soft:
                an.mag_pos = self.soft_inv_terms(b, soft)
                if self.base(bid) not in cfg.get("roots", ()):
                    an.mag_soft = an.mag_pos
        res = an.analyze(b)
        absdom.MAX_PARAM = 0
        written = None
        self.in_progress.discard(bid)
        res.written = written
        self.results[bid] = res
        s.exports = self.make_exports(b, res, written)
        s.ret = self.make_ret(b, an, res)
        s.cond = None
        s.clauses = None
        if self.entry_assume is not None:
            clauses = self.entry_assume(b)
            if clauses:
                # contract per clause:  {clause} body {clause}.  Callers may assume a clause after the call whenever they
                # prove it before the call; whether this body honours its contract is checked by the rule that set
                # entry_assume, from clause_results (each violation is thus reported once, at its origin).
                s.clauses = clauses
                s.analysed = True
                self.sum[bid] = s          # recursive calls see the contract
                self.clause_results[bid] = {}
                for name, cons in clauses.items():
                    st0 = State()
                    if name not in self.establishers.get(bid, ()):
                        for con in cons:
                            st0.add_le(*con)
                    an2 = Analyzer(self.f, interproc=self)
                    an2.invariants = self.invariants
                    an2.nowrap = self.nowrap
                    an2.cargs = self.cargs_of(bid)
                    an2.infeasible = getattr(self, "infeasible", {}).get(self.base(bid), ())
                    absdom.MAX_PARAM = b.argc
                    res2 = an2.analyze(b, entry=st0, collect=False)
                    for xb in b.exits:
                        rst = an2.state_before_term(xb)
                        if rst is not None and rst != []:
                            res2.ret_states.append((xb, rst))
                    absdom.MAX_PARAM = 0
                    self.clause_results[bid][name] = res2
        s.analysed = True
        self.sum[bid] = s
        return s

    def _term_type_range(self, an, b, t):
        return (None, None)

    # -- liftability
    def _param_term_ok(self, b, t, written):
        """term is rooted at a parameter and its place is never written in the body"""
        if t is None:
            return True
        root = t[1]
        if not isinstance(root, int) or not (1 <= root <= b.argc):
            return False
        pl = term_place(t)
        if not pl[1]:
            if b.defs.get(root):
                return False
        for w in written:
            if _written_hits(w, pl):
                return False
        return True

    def _val_ok(self, b, v, written):
        if v[0] == "n":
            return self._param_term_ok(b, v[1], written)
        if v[0] == "iv":
            return v[1] is not None or v[2] is not None
        return False

    def make_exports(self, b, res, written):
        out = []
        seen = set()

        def add(lf):
            k = (lf.origin, lf.cls, lf.desc, lf.kind, repr(lf.parts))
            if k not in seen:
                seen.add(k)
                out.append(lf)
        final = set()
        for bi, st in res.ret_states:
            final |= set(st.dirty)

        def must(o, kind, parts, inherited=True):
            strong = kind == "conj" and len(parts) > 1 and parts[1]
            return bool(inherited and not strong and b.postdominates(o.block, 0) and self._parts_ok(b, kind, parts, final))
        for o in res.obls:
            if o.ok or o.lift is None:
                continue
            kind = o.lift[0]
            written = o.dirty
            if kind == "lifted":
                lf = o.lift[1]
                if self._parts_ok(b, lf.kind, lf.parts, written):
                    lf.must = must(o, lf.kind, lf.parts, lf.must)
                    add(lf)
                    o.rule = "exported"
                continue
            parts = o.lift[1:]
            if self._parts_ok(b, kind, parts, written):
                add(Lifted(o.cls, kind, parts, b.id, o.desc, o.what, o.file, o.line, [b.id], must(o, kind, parts)))
                o.rule = "exported"
        return out

    def _parts_ok(self, b, kind, parts, written):
        if kind == "cond":
            c = parts[0]
            places = list(absdom.cond_places(c))
            return bool(places) and all(
                isinstance(p[0], int) and 1 <= p[0] <= b.argc and not any(_written_hits(w, p) for w in written)
                and (p[1] or not b.defs.get(p[0])) for p in places)
        if kind == "conj":
            vals = [x for (a, bb, c) in parts[0] for x in (a, bb)]
        elif kind in ("mag", "maglo"):
            vals = list(parts[0])
        else:
            vals = [x for x in parts if isinstance(x, tuple) and x and x[0] in ("n", "iv")]
        return kind in ("conj", "nz", "mag", "maglo") and all(self._val_ok(b, v, written) for v in vals) \
            and any(v[0] == "n" and v[1] is not None for v in vals)

    # -- return summaries
    def make_ret(self, b, an, res):
        if not res.ret_states:
            return None
        tix0 = b.locals[0]["t"]
        ty0 = self.f.types[tix0]
        ret = {"iv": None, "alias": "?", "ref": "?", "opt": "?", "rels": None, "fields": None, "exit_iv": None, "exit_rel": None, "taint": set()}
        first = True
        ex = self.exit_facts(b, res)
        ret["exit_iv"], ret["exit_rel"] = ex
        for bi, st in res.ret_states:
            v = st.sym.get((0, ()))
            # numeric
            if an.is_num(tix0):
                val = v if (v is not None and v[0] in ("n", "iv")) else ("n", ("v", 0, ()), 0)
                if an.mag and (an.mag_tainted(st, val) or an.term_tainted(st, ("v", 0, ()))) and not an.mag_bounded(st, val, deep=False):
                    ret["taint"].add(())        # C03: the returned number may carry an unbounded magnitude from a source inside
                i = st.val_iv(val)
                r = an.ty_range(tix0) or FULL
                i = absdom.iv_meet(i, r)
                ret["iv"] = i if ret["iv"] is None else absdom.iv_join(ret["iv"], i)
                al = None
                if val[0] == "n" and (val[1] is None or self._ret_term_ok(b, val[1])):
                    al = val
                if first:
                    ret["alias"] = al
                elif ret["alias"] != al:
                    ret["alias"] = None
                # relations to parameter terms
                rels = {}
                me = val
                for pt in self._param_terms(b, st):
                    pv = ("n", pt, 0)
                    if me[0] == "n":
                        d1 = st.bound_diff(me[1], pt)
                        d2 = st.bound_diff(pt, me[1])
                        if d1 is not None:
                            rels[("le", pt)] = d1 + me[2]            # ret - pt <= d
                        if d2 is not None:
                            rels[("ge", pt)] = d2 - me[2]            # pt - ret <= d
                if ret["rels"] is None:
                    ret["rels"] = rels
                else:
                    merged = {}
                    for k, d in ret["rels"].items():
                        if k in rels:
                            merged[k] = max(d, rels[k])
                    ret["rels"] = merged
            else:
                ret["alias"] = None
            # pointer
            rf = None
            if v is not None and v[0] == "ref" and isinstance(v[1], int) and 1 <= v[1] <= b.argc and v[2][:1] == ("*",):
                rf = v
            if first:
                ret["ref"] = rf
            elif ret["ref"] != rf:
                ret["ref"] = None
            # a boolean result that stands for facts about the parameters (`fn fits(c: &Cell) -> bool { c.a <= 255 && c.b <= 255 }`)
            if ret.get("guard", "?") is not None:
                gd = None
                if v is not None and v[0] == "b" and isinstance(v[1], tuple) and v[1] and v[1][0] == "guarded":
                    def pr_ok(x):
                        return x[0] == "iv" or (x[0] == "n" and (x[1] is None or self._ret_term_ok(b, x[1])))
                    gd = (tuple(c_ for c_ in v[1][1] if pr_ok(c_[0]) and pr_ok(c_[1])), tuple(c_ for c_ in v[1][2] if pr_ok(c_[0]) and pr_ok(c_[1])))
                cur_g = ret.get("guard", "?")
                if gd is None:
                    ret["guard"] = None
                elif cur_g == "?":
                    ret["guard"] = gd
                else:
                    ret["guard"] = (tuple(c_ for c_ in cur_g[0] if c_ in gd[0]), tuple(c_ for c_ in cur_g[1] if c_ in gd[1]))
            # option-ness
            op = None
            if v is not None and v[0] == "opt":
                op = True if v[1] == "some" else False if v[1] == "none" else None
            # the range of an integer payload, when this exit returns Some (hex_digit(c) -> Option<usize> below 16)
            if ret.get("optpay", "?") is not None:
                pi = None
                if v is not None and v[0] == "opt" and v[1] == "none":
                    pi = "none"
                elif v is not None and v[0] == "opt" and v[1] in ("some", "cond"):
                    pay = v[2] if v[1] == "some" else v[3]
                    st2 = st
                    if v[1] == "cond" and isinstance(v[2], tuple) and v[2] and v[2][0] == "conj":
                        st2 = st.copy()
                        for con in v[2][1]:
                            st2.add_le(*con)
                    if pay is not None and pay[0] in ("n", "iv") and not st2.bottom:
                        i2 = st2.val_iv(pay)
                        if i2[0] is not None and i2[1] is not None:
                            pi = i2
                            # upper bounds of the payload by parameter terms (`Ok(start)` with start <= data.len() - 133)
                            pr = {}
                            if pay[0] == "n" and pay[1] is not None:
                                for pt in self._param_terms(b, st2):
                                    d1 = st2.bound_diff(pay[1], pt)
                                    if d1 is not None and abs(d1) <= (1 << 20):
                                        pr[pt] = d1 + pay[2]
                            cur_r = ret.get("optrels", "?")
                            ret["optrels"] = pr if cur_r == "?" else {k_: max(c_, pr[k_]) for k_, c_ in cur_r.items() if k_ in pr}
                if pi is None:
                    ret["optpay"] = None
                elif pi != "none":
                    cur = ret.get("optpay", "?")
                    ret["optpay"] = pi if cur == "?" else absdom.iv_join(cur, pi)
            if first:
                ret["opt"] = op
            elif ret["opt"] != op:
                ret["opt"] = None
            # struct fields (numeric leaves one or two levels deep)
            if ty0["k"] in ("adt", "tuple"):
                fl = {}
                frl = {}
                for steps, ftix in self._num_leaves(tix0):
                    if isinstance(ftix, tuple):
                        t = ("len", 0, steps)
                        i = absdom.iv_meet(st.iv.get(t, FULL), (0, LEN_MAX))
                        fl[("len",) + steps] = (i, None)
                        continue
                    t = ("v", 0, steps)
                    sv = st.sym.get((0, steps))
                    val = sv if (sv is not None and sv[0] in ("n", "iv")) else ("n", t, 0)
                    if an.mag and (an.mag_tainted(st, val) or an.term_tainted(st, t)) and not an.mag_bounded(st, val, deep=False):
                        ret["taint"].add(steps)
                    i = absdom.iv_meet(st.val_iv(val), an.ty_range(ftix) or FULL)
                    al = val if (val[0] == "n" and (val[1] is None or self._ret_term_ok(b, val[1]))) else None
                    if al is None and val[0] == "n":
                        # alias through equality relations with a parameter term
                        for pt in self._param_terms(b, st):
                            if st.bound_diff(val[1], pt) == -val[2] and st.bound_diff(pt, val[1]) == val[2]:
                                al = ("n", pt, 0)
                                break
                    fl[steps] = (i, al)
                    # upper bounds of the leaf by parameter terms (`(text, consumed)`: consumed <= data.len())
                    if al is None and val[0] == "n" and val[1] is not None:
                        for pt in self._param_terms(b, st):
                            d1 = st.bound_diff(val[1], pt)
                            if d1 is not None and abs(d1) <= (1 << 20):
                                frl[(steps, pt)] = d1 + val[2]
                if ret["fields"] is None:
                    ret["fields"] = fl
                    ret["frels"] = frl
                else:
                    merged = {}
                    for k, (i, al) in ret["fields"].items():
                        if k in fl:
                            i2, al2 = fl[k]
                            merged[k] = (absdom.iv_join(i, i2), al if al == al2 else None)
                    ret["fields"] = merged
                    ret["frels"] = {k: max(c_, frl[k]) for k, c_ in (ret.get("frels") or {}).items() if k in frl}
            first = False
        return ret

    def exit_facts(self, b, res):
        """(iv, rel) facts that hold at every return about the places (reachable from reference parameters) the body wrote"""
        ex_iv = None
        ex_rel = None
        inv = self.inv_terms(b)
        paths = []
        for bi, st in res.ret_states:
            if inv:
                # global field invariants hold at every return (their stores are INV obligations)
                st = st.copy()
                for t, lo, hi in inv:
                    st.set_iv(t, lo, hi)

            def prooted(t):
                return isinstance(t[1], int) and 1 <= t[1] <= b.argc and t[2][:1] == ("*",)

            def written(t):
                pl = term_place(t)
                return any(_written_hits(w, pl) for w in st.dirty)
            civ = {}
            for t, i in st.iv.items():
                if prooted(t) and written(t):
                    civ[t] = i
            for p, v in st.sym.items():
                if v[0] == "n" and v[1] is None and isinstance(p[0], int) and 1 <= p[0] <= b.argc and p[1][:1] == ("*",):
                    t = ("v", p[0], p[1])
                    if written(t):
                        civ[t] = (v[2], v[2])
            crel = {}
            cands = set()
            for t in st.iv:
                if prooted(t):
                    cands.add(t)
            def pval(t):
                # (a field of) a by-value parameter that the body never assigns: still the caller's argument at return
                return t[0] == "v" and isinstance(t[1], int) and 1 <= t[1] <= b.argc and t[2][:1] != ("*",) and not b.defs.get(t[1])
            for (x, y) in st.rel:
                for t in (x, y):
                    if prooted(t) or pval(t):
                        cands.add(t)
            for p, v in st.sym.items():
                if v[0] == "n" and v[1] is not None and prooted(v[1]):
                    cands.add(v[1])
            wr = [t for t in cands if written(t)]
            # copies of (fields of) by-value parameters the body never assigns: `self.pos = pos`
            for p, v in st.sym.items():
                if v[0] == "n" and v[1] is not None and isinstance(p[0], int) and 1 <= p[0] <= b.argc and p[1][:1] == ("*",):
                    src = v[1]
                    if src[0] == "v" and isinstance(src[1], int) and 1 <= src[1] <= b.argc and src[2][:1] != ("*",) and not b.defs.get(src[1]):
                        t = ("v", p[0], p[1])
                        if written(t):
                            crel[(t, src)] = v[2]
                            crel[(src, t)] = -v[2]
            for x in wr:
                for y in cands:
                    if x == y:
                        continue
                    for (a, bb) in ((x, y), (y, x)):
                        d = st.bound_diff(a, bb, depth=3)
                        if d is None:
                            continue
                        ha = st.iv.get(a, FULL)[1]
                        lb = st.iv.get(bb, FULL)[0]
                        if ha is not None and lb is not None and ha - lb <= d:
                            continue        # nothing beyond the intervals
                        crel[(a, bb)] = d
            def derived(a, bb, st=st, civ=civ):
                """a - b <= d from this path's intervals / constants alone"""
                def rng(t):
                    v = st.sym.get(term_place(t)) if t[0] == "v" else None
                    if v is not None and v[0] == "n" and v[1] is None:
                        return (v[2], v[2])
                    return st.term_iv(t)
                ha, lb = rng(a)[1], rng(bb)[0]
                if ha is None or lb is None:
                    return None
                return ha - lb
            paths.append((civ, crel, derived))
        if not paths:
            return {}, {}
        ex_iv = dict(paths[0][0])
        for civ, crel, derived in paths[1:]:
            ex_iv = {t: absdom.iv_join(i, civ[t]) for t, i in ex_iv.items() if t in civ}
        keys = set()
        for civ, crel, derived in paths:
            keys |= set(crel)
        ex_rel = {}
        for k in keys:
            worst = None
            for civ, crel, derived in paths:
                d = crel.get(k)
                if d is None:
                    d = derived(*k)
                if d is None:
                    worst = None
                    break
                worst = d if worst is None else max(worst, d)
            if worst is not None:
                ex_rel[k] = worst
        return {t: i for t, i in ex_iv.items() if i != FULL}, ex_rel

    def inv_terms(self, b):
        """[(term, lo, hi)]: places reachable from reference parameters (through struct fields) that carry a global invariant"""
        if not self.invariants:
            return []
        c = self._inv_cache.get(b.id)
        if c is None:
            c = self._inv_cache[b.id] = self._inv_terms(b)
        return c

    def _inv_terms(self, b):
        T = self.f.types
        out = []

        def walk(tix, root, steps, depth):
            ty = T[tix]
            if ty["k"] != "adt" or depth > 3:
                return
            adt = self.f.adts.get(ty["adt"])
            if not adt or adt["kind"] != "struct":
                return
            for owner, path, lo, hi in self.invariants:
                if owner == ty["adt"]:
                    out.append((("v", root, steps + tuple(path)), lo, hi))
            for nm, ft in adt["variants"][0]["fields"]:
                if T[ft]["k"] == "adt":
                    walk(ft, root, steps + (nm,), depth + 1)
        for i in range(1, b.argc + 1):
            ty = T[b.locals[i]["t"]]
            if ty["k"] == "ref":
                walk(ty["e"], i, ("*",), 0)
        return out

    def soft_inv_terms(self, b, soft):
        keep = self.invariants
        try:
            self.invariants = [i for i in (keep or []) if (i[0], tuple(i[1])) in soft]
            return frozenset(t for t, lo, hi in self._inv_terms(b))
        finally:
            self.invariants = keep

    def _num_leaves(self, tix, prefix=(), depth=0):
        T = self.f.types
        ty = T[tix]
        out = []
        if depth > 2:
            return out
        if ty["k"] == "adt":
            adt = self.f.adts.get(ty["adt"])
            if adt and adt["kind"] == "struct":
                for nm, ft in adt["variants"][0]["fields"]:
                    if T[ft]["k"] in ("int", "bool", "char"):
                        out.append((prefix + (nm,), ft))
                    elif T[ft]["k"] == "adt" and T[ft]["adt"] in ("std::vec::Vec", "std::string::String", "std::collections::VecDeque"):
                        out.append((prefix + (nm,), ("len", ft)))
                    elif T[ft]["k"] in ("adt", "tuple"):
                        out += self._num_leaves(ft, prefix + (nm,), depth + 1)
        elif ty["k"] == "tuple":
            for i, ft in enumerate(ty["args"]):
                if T[ft]["k"] in ("int", "bool", "char"):
                    out.append((prefix + (str(i),), ft))
                elif T[ft]["k"] in ("adt", "tuple"):
                    out += self._num_leaves(ft, prefix + (str(i),), depth + 1)
        return out

    def _ret_term_ok(self, b, t):
        root = t[1]
        if not isinstance(root, int) or not (1 <= root <= b.argc):
            return False
        if not t[2] and b.defs.get(root):
            return False
        return True

    def _param_terms(self, b, st):
        seen = set()
        for t in list(st.iv.keys()):
            if isinstance(t[1], int) and 1 <= t[1] <= b.argc and self._ret_term_ok(b, t):
                seen.add(t)
        for (a, c) in st.rel.keys():
            for t in (a, c):
                if isinstance(t[1], int) and 1 <= t[1] <= b.argc and self._ret_term_ok(b, t):
                    seen.add(t)
        for p, v in st.sym.items():
            if v[0] == "n" and v[1] is not None and isinstance(v[1][1], int) and 1 <= v[1][1] <= b.argc and self._ret_term_ok(b, v[1]):
                seen.add(v[1])
        return seen

    # ------------------------------------------------------------------ call sites
    def instantiate_term(self, an, ctx, t):
        """callee parameter-rooted term -> caller value, or None"""
        kind, root, steps = t
        ai = root - 1
        if ai >= len(ctx.args):
            return None
        v, tix = ctx.args[ai]
        if not steps:
            if kind != "v":
                return None
            if v[0] in ("n", "iv"):
                return v
            if v[0] == "b":
                return ("iv", 0, 1)
            return None
        if steps[0] != "*":
            # by-value aggregate argument: its fields live under the argument's own place
            op = ctx.t["args"][ai]
            pj = op.get("copy") or op.get("move")
            if pj is None:
                return None
            can = an.canon(ctx.st, pj)
            if can is None:
                return None
            pl = (can[0], can[1] + steps)
        else:
            if v[0] != "ref" or v[1] is None:
                return None
            if isinstance(v[1], str):
                return None
            pl = (v[1], v[2] + steps[1:])
        if kind == "len":
            return an.len_val(ctx.st, pl, None)
        sv = ctx.st.sym.get(pl)
        if sv is not None and sv[0] in ("n", "iv"):
            return sv
        return ("n", ("v", pl[0], pl[1]), 0)

    def instantiate_val(self, an, ctx, v):
        if v[0] == "iv":
            return v
        if v[0] != "n":
            return None
        if v[1] is None:
            return v
        w = self.instantiate_term(an, ctx, v[1])
        if w is None:
            return None
        if w[0] == "n":
            return ("n", w[1], w[2] + v[2])
        if w[0] == "iv":
            return ("iv", None if w[1] is None else w[1] + v[2], None if w[2] is None else w[2] + v[2])
        return None

    def instantiate_cond(self, an, ctx, c):
        k = c[0]
        if k == "cmp":
            a = self.instantiate_val(an, ctx, c[2])
            b = self.instantiate_val(an, ctx, c[3])
            if a is None or b is None:
                return None
            return ("cmp", c[1], a, b)
        if k == "not":
            x = self.instantiate_cond(an, ctx, c[1])
            return None if x is None else ("not", x)
        if k in ("and", "or"):
            xs = [self.instantiate_cond(an, ctx, x) for x in c[1:]]
            if any(x is None for x in xs):
                return None
            return (k,) + tuple(xs)
        if k in ("some", "none"):
            root, steps = c[1]
            ai = root - 1
            if ai >= len(ctx.args):
                return None
            v = ctx.args[ai][0]
            if steps[:1] == ("*",) and v[0] == "ref" and isinstance(v[1], int):
                return (k, (v[1], v[2] + steps[1:]))
            return None
        if k == "const":
            return c
        return None

    def check_lifted(self, an, ctx, lf):
        """is the callee's exported obligation implied by the caller's state at this call? -> (ok, caller-side lift or None)"""
        st = ctx.st
        if lf.kind == "cond":
            c = self.instantiate_cond(an, ctx, lf.parts[0])
            if c is None:
                return False, None, None
            truth = an.cond_truth(st, c)
            if truth is True:
                return True, None, c
            return False, ("cond", c), c
        if lf.kind == "conj":
            cons = []
            for (a, b, c) in lf.parts[0]:
                a2, b2 = self.instantiate_val(an, ctx, a), self.instantiate_val(an, ctx, b)
                if a2 is None or b2 is None:
                    return False, None, None
                cons.append((a2, b2, c))
            ok, un = an.conj_check(st, cons)
            return ok, ("conj", un if not ok else cons), None
        if lf.kind == "nz":
            dv = self.instantiate_val(an, ctx, lf.parts[0])
            if dv is None:
                return False, None, None
            i = st.val_iv(dv)
            ok = (i[0] is not None and i[0] > 0) or (i[1] is not None and i[1] < 0)
            return ok, ("nz", dv), None
        if lf.kind in ("mag", "maglo"):
            dvs = [self.instantiate_val(an, ctx, x) for x in lf.parts[0]]
            dvs = [x for x in dvs if x is not None]
            if not dvs:
                return False, None, None
            lo = lf.kind == "maglo"
            return any(not an.mag_parts(st, x, lo, soft=True) for x in dvs), (lf.kind, dvs), None
        return False, None, None

    def assume_lifted(self, an, ctx, lf, lift, cond):
        """after the call returns normally the callee's precondition held"""
        st = ctx.st
        if lift is None or not lf.must:
            return
        k = lift[0]
        if k == "conj":
            an.conj_assume(st, lift[1])
        elif k == "cond" and cond is not None:
            an.assume(st, cond, True)

    def apply_call(self, an, ctx):
        cands = self.callee_ids(an.b, ctx.t)
        if not cands:
            return NotImplemented
        st = ctx.st
        T = self.f.types
        sums = []
        for cid in cands:
            if self.f.bodies[cid].kind not in ("fn", "method", "closure"):
                continue
            sums.append((cid, self.summary(self.spec_key(cid, ctx.t, an) if len(cands) == 1 else cid)))
        # 0. which of the callee's contract clauses hold before the call? (they may be assumed afterwards)
        held = []
        if len(sums) == 1 and sums[0][1] is not None and getattr(sums[0][1], "clauses", None):
            for name, cons in sums[0][1].clauses.items():
                inst = []
                ok = True
                for (a, bb, c) in cons:
                    a2, b2 = self.instantiate_val(an, ctx, a), self.instantiate_val(an, ctx, bb)
                    if a2 is None or b2 is None or not st.prove_le(a2, b2, c):
                        ok = False
                        break
                    inst.append((a, bb, c))
                if ok or name in self.establishers.get(sums[0][0], ()):
                    held.append(list(cons))
        # 1. lifted preconditions (checked in the pre-call state)
        post = []
        for cid, s in sums:
            if s is None:
                continue
            for lf in s.exports:
                ok, lift, cond = self.check_lifted(an, ctx, lf)
                inst_lift = lift
                nl = None
                raw_un = lift[1] if (not ok and lift is not None and lift[0] == "conj") else None
                extra = []
                if lift is not None and lift[0] in ("mag", "maglo"):
                    raw_un = (lift[0], lift[1], (not ok) and any(an.mag_tainted(ctx.st, x) for x in lift[1]))
                if not ok and lift is not None:
                    if lift[0] == "conj":
                        an.cur_dirty = ctx.st.dirty
                        lift = an.conj_lift(lift[1], ctx.st)
                    elif lift[0] in ("mag", "maglo"):
                        # the unbounded leaves of the (first) candidate, each lifted on its own
                        an.cur_dirty = ctx.st.dirty
                        leaves = an.mag_parts(ctx.st, lift[1][0], lift[0] == "maglo", soft=True)
                        lifts = []
                        for (lv, llo) in leaves:
                            cs = an.mag_cands(ctx.st, lv, llo)
                            lifts.append((("maglo" if llo else "mag", cs) if cs else None, lv, llo))
                        lift = lifts[0][0] if lifts else None
                        if lifts:
                            raw_un = ("maglo" if lifts[0][2] else "mag", [lifts[0][1]], an.mag_tainted(ctx.st, lifts[0][1]))
                        extra = lifts[1:]
                    if lift is not None:
                        nl = Lifted(lf.cls, lift[0], lift[1:], lf.origin, lf.desc, lf.what, lf.file, lf.line, lf.chain + [an.b.id], lf.must)
                if an.collect:
                    lo = _lifted_obl(ctx, lf, ok, nl, an)
                    lo.raw = raw_un
                    an.res.obls.append(lo)
                    for (xl, xv, xlo) in extra:
                        xn = Lifted(lf.cls, xl[0], xl[1:], lf.origin, lf.desc, lf.what, lf.file, lf.line, lf.chain + [an.b.id], lf.must) if xl is not None else None
                        xo = _lifted_obl(ctx, lf, False, xn, an)
                        xo.raw = ("maglo" if xlo else "mag", [xv], an.mag_tainted(ctx.st, xv))
                        an.res.obls.append(xo)
                if len(cands) == 1:
                    post.append((lf, inst_lift, cond))
        # 2. effects
        # an argument passed by value was evaluated before the call: if it is stated in terms of a place the callee overwrites
        # (`attr.set_foreground(attr.foreground_color + 8)`), that term names the *new* content afterwards - the argument is
        # then only known by the interval it had
        byval = {}
        for i, (v, tix) in enumerate(ctx.args):
            if v is not None and v[0] == "n" and v[1] is not None:
                byval[i] = (term_place(v[1]), st.val_iv(v))
        stale = set()
        for cid, s in sums:
            m = self.mod.get(cid)
            for i, (v, tix) in enumerate(ctx.args):
                if tix is None:
                    continue
                ty = T[tix]
                if ty["k"] == "closure":
                    from .callmodels import forget_closure_captures
                    forget_closure_captures(ctx, i)
                    continue
                if not is_mut_ref(ty):
                    continue
                pl = ctx.place_of(i)
                if pl is None:
                    continue
                probe = [pp for (pp, _) in byval.values()]
                hit_ = []
                if m is None or m.wild:
                    hit_ = st.kill_under(pl, probe=probe)
                elif (i + 1) in m.roots:
                    hit_ = st.kill_under(pl, by_call=True, probe=probe)
                elif m.names:
                    hit_ = st.kill_under(pl, m.names, probe=probe)
                stale |= set(hit_ or ())
        if stale:
            for i, (pp, iv_) in byval.items():
                if pp in stale:
                    ctx.args[i] = (("iv", iv_[0], iv_[1]), ctx.args[i][1])
        for lf, lift, cond in post:
            self.assume_lifted(an, ctx, lf, lift, cond)
        if len(sums) == 1 and sums[0][1] is not None and sums[0][1].ret is not None:
            self.apply_exit(an, ctx, sums[0][1].ret)
        for inst in held:
            # re-instantiate after the call's effects (the argument places are the same, their contents were forgotten)
            for (a, bb, c) in inst:
                a2, b2 = self.instantiate_val(an, ctx, a), self.instantiate_val(an, ctx, bb)
                if a2 is not None and b2 is not None:
                    st.add_le(a2, b2, c)
        # 3. return value
        if len(sums) == 1 and sums[0][1] is not None and sums[0][1].ret is not None:
            r = self.apply_ret(an, ctx, sums[0][1].ret)
            # a small, loop-free numeric helper is evaluated once more in the context of this call (its summary is the join over
            # all contexts: `if c > 0 { c - 1 } else { size - 1 }` stays below `size` only because this caller's c does)
            if r == "stored" and ctx.dest_tix is not None and an.is_num(ctx.dest_tix):
                self.refine_by_context(an, ctx, sums[0][0])
            return r
        return None

    def refine_by_context(self, an, ctx, cid):
        b2 = self.f.bodies.get(self.base(cid))
        if b2 is None or b2.nblocks > 24 or b2.back_edges or b2.argc == 0 or b2.argc != len(ctx.args) or b2.id == an.b.id:
            return
        T = self.f.types
        nums = []
        for i in range(1, b2.argc + 1):
            ty = T[b2.locals[i]["t"]]
            if ty["k"] in ("int", "bool", "char"):
                nums.append(i)
            elif ty["k"] != "ref":
                return
        if not nums or b2.defs.get(0) is None:
            return
        st = ctx.st
        # entry state: intervals of the numeric arguments and the differences between them, as this call site knows them
        vals = {}
        for i in nums:
            v = ctx.args[i - 1][0]
            if v[0] in ("n", "iv"):
                vals[i] = v
        if not vals:
            return
        sig = []
        st0 = State()
        for i, v in sorted(vals.items()):
            iv_ = st.val_iv(v)
            st0.set_iv(("v", i, ()), iv_[0], iv_[1])
            sig.append((i, iv_))
        for i, v in sorted(vals.items()):
            for j, w in sorted(vals.items()):
                if i != j and v[0] == "n" and w[0] == "n" and v[1] is not None and w[1] is not None:
                    d = st.bound_diff(v[1], w[1])
                    if d is not None and abs(d) <= (1 << 20):
                        st0.add_le(("n", ("v", i, ()), 0), ("n", ("v", j, ()), 0), d + v[2] - w[2])
                        sig.append((i, j, d + v[2] - w[2]))
        key = (b2.id, tuple(sig))
        cache = self.__dict__.setdefault("_ctx_cache", {})
        out = cache.get(key)
        if out is None:
            if len(cache) > 4000:
                return
            an2 = Analyzer(self.f, interproc=self)
            an2.invariants = self.invariants
            an2.nowrap = self.nowrap
            an2.cargs = self.cargs_of(cid)
            an2.infeasible = getattr(self, "infeasible", {}).get(b2.id, ())
            saved = absdom.MAX_PARAM
            exits = []
            try:
                an2.analyze(b2, entry=st0, collect=False)
                for xb in b2.exits:
                    rst = an2.state_before_term(xb)
                    if rst is not None and rst != [] and not rst.bottom:
                        exits.append(rst)
            except RuntimeError:
                exits = []
            finally:
                absdom.MAX_PARAM = saved
            if not exits:
                cache[key] = ()
                return
            iv_, rels = None, None
            tr = an2.ty_range(b2.locals[0]["t"]) or FULL
            for rst in exits:
                rv = rst.sym.get((0, ()))
                val = rv if (rv is not None and rv[0] in ("n", "iv")) else ("n", ("v", 0, ()), 0)
                i1 = absdom.iv_meet(rst.val_iv(val), tr)
                iv_ = i1 if iv_ is None else absdom.iv_join(iv_, i1)
                r1 = {}
                if val[0] == "n":
                    for i in vals:
                        if b2.defs.get(i):
                            continue        # the parameter is reassigned in the callee: it no longer names the argument
                        pt = ("v", i, ())
                        d1 = rst.bound_diff(val[1], pt)
                        d2 = rst.bound_diff(pt, val[1])
                        if d1 is not None:
                            r1[("le", i)] = d1 + val[2]
                        if d2 is not None:
                            r1[("ge", i)] = d2 - val[2]
                rels = r1 if rels is None else {k: max(c, r1[k]) for k, c in rels.items() if k in r1}
            rels = tuple((k[0], k[1], c) for k, c in sorted(rels.items()))
            out = cache[key] = (iv_, rels)
        if not out:
            return
        iv_, rels = out
        d = ctx.dest_place()
        if d is None:
            return
        t = ("v", d[0], d[1])
        st.set_iv(t, iv_[0], iv_[1])
        me = ("n", t, 0)
        for kind, i, c in rels:
            w = vals.get(i)
            if w is None or w[0] != "n":
                continue
            if kind == "le":
                st.add_le(me, w, c)
            else:
                st.add_le(w, me, c)

    def apply_exit(self, an, ctx, ret):
        st = ctx.st
        for t, i in (ret.get("exit_iv") or {}).items():
            w = self.instantiate_term(an, ctx, t)
            if w is not None and w[0] == "n" and w[1] is not None:
                st.set_iv(w[1], None if i[0] is None else i[0] - w[2], None if i[1] is None else i[1] - w[2])
        for (x, y), c in (ret.get("exit_rel") or {}).items():
            a, b = self.instantiate_term(an, ctx, x), self.instantiate_term(an, ctx, y)
            if a is not None and b is not None and a[0] == "n" and b[0] == "n":
                st.add_le(a, b, c)

    def apply_ret(self, an, ctx, ret):
        st = ctx.st
        d = ctx.dest_place()
        if d is None:
            return None
        dt = ctx.dest_tix
        if ret.get("ref") not in (None, "?"):
            v = ret["ref"]
            ai = v[1] - 1
            if ai < len(ctx.args):
                av = ctx.args[ai][0]
                if av[0] == "ref" and av[1] is not None and not isinstance(av[1], str):
                    return ("ref", av[1], av[2] + v[2][1:])
        gd_ = ret.get("guard", "?")
        if gd_ not in (None, "?") and (gd_[0] or gd_[1]) and dt is not None and self.f.types[dt]["k"] == "bool":
            inst_ = []
            for lst in gd_:
                o_ = []
                for (a_, b_, c_) in lst:
                    a2, b2 = self.instantiate_val(an, ctx, a_), self.instantiate_val(an, ctx, b_)
                    if a2 is not None and b2 is not None and a2[0] in ("n", "iv") and b2[0] in ("n", "iv"):
                        o_.append((a2, b2, c_))
                inst_.append(tuple(o_))
            if inst_[0] or inst_[1]:
                st.kill(d, whole_local=not d[1])
                st.sym[d] = ("b", ("guarded", inst_[0], inst_[1]))
                return "stored"
        op_ = ret.get("optpay", "?")
        if ret.get("opt") is not False and op_ not in (None, "?") and dt is not None and self.f.types[dt]["k"] == "adt" and self.f.types[dt]["adt"] in GOOD_VARIANT:
            good = GOOD_VARIANT[self.f.types[dt]["adt"]][0]
            rels_ = ret.get("optrels")
            inst = []
            for pt, c_ in (rels_.items() if isinstance(rels_, dict) else ()):
                w = self.instantiate_term(an, ctx, pt)
                if w is not None and w[0] == "n":
                    inst.append((w, c_))
            if not inst:
                pay_ = ("iv", op_[0], op_[1])
                return ("opt", "some", pay_) if ret.get("opt") is True else ("opt", "cond", ("unknown",), pay_)
            st.kill(d, whole_local=not d[1])
            P = ("v", d[0], d[1] + (("dc", good), "0"))
            pv = ("n", P, 0)
            st.set_iv(P, op_[0], op_[1])
            for w, c_ in inst:
                st.add_le(pv, w, c_)
            st.sym[d] = ("opt", "some", pv) if ret.get("opt") is True else ("opt", "cond", ("unknown",), pv)
            return "stored"
        if ret.get("opt") is True:
            return ("opt", "some", None)
        if ret.get("opt") is False:
            return ("opt", "none")
        if dt is not None and an.is_num(dt):
            al = ret.get("alias")
            if al not in (None, "?"):
                w = self.instantiate_val(an, ctx, al)
                if w is not None:
                    i = ret.get("iv")
                    if i and w[0] == "n" and w[1] is not None:
                        # the callee's view of the value's range (type range, field invariants) also holds for the alias
                        st.set_iv(w[1], None if i[0] is None else i[0] - w[2], None if i[1] is None else i[1] - w[2])
                    return w
            i = ret.get("iv") or FULL
            st.kill(d, whole_local=not d[1])
            t = ("v", d[0], d[1])
            st.set_iv(t, i[0], i[1])
            if an.mag and () in (ret.get("taint") or ()):
                st.taint = st.taint | {t}
            me = ("n", t, 0)
            for (k, pt), c in (ret.get("rels") or {}).items():
                w = self.instantiate_term(an, ctx, pt)
                if w is None or w[0] != "n":
                    continue
                if k == "le":
                    st.add_le(me, w, c)
                else:
                    st.add_le(w, me, c)
            return "stored"
        fl = ret.get("fields")
        if fl:
            st.kill(d, whole_local=not d[1])
            for steps, (i, al) in fl.items():
                if steps[:1] == ("len",):
                    t = ("len", d[0], d[1] + steps[1:])
                    st.set_iv(t, i[0], i[1])
                    continue
                t = ("v", d[0], d[1] + steps)
                st.set_iv(t, i[0], i[1])
                if al is not None:
                    w = self.instantiate_val(an, ctx, al)
                    if w is not None and w[0] == "n":
                        st.add_eq(("n", t, 0), w)
                if an.mag and steps in (ret.get("taint") or ()):
                    st.taint = st.taint | {t}
            for (steps, pt), c_ in (ret.get("frels") or {}).items():
                if steps[:1] == ("len",) or steps not in fl:
                    continue
                w = self.instantiate_term(an, ctx, pt)
                if w is not None and w[0] == "n":
                    st.add_le(("n", ("v", d[0], d[1] + steps), 0), w, c_)
            return "stored"
        return None

    def assume_pred(self, an, st, c, truth):
        return

    # ------------------------------------------------------------------ closures
    def check_closure_call(self, an, ctx, ai):
        """the closure passed as argument `ai` is called by the callee (for_each, map, …): its exported
        obligations are checked here, with captured variables resolved through the closure value and the
        element parameter bounded by the receiver when that is an integer range"""
        T = self.f.types
        tix = ctx.args[ai][1]
        cdef = T[tix]["def"]
        if cdef not in self.f.bodies:
            return
        s = self.summary(cdef)
        if s is None or not s.exports:
            if s is not None and an.collect:
                self.closure_checked.add(cdef)
            return
        op = ctx.t["args"][ai]
        pj = op.get("copy") or op.get("move")
        can = an.canon(ctx.st, pj) if pj is not None else None
        cb = self.f.bodies[cdef]
        env_ty = T[cb.locals[1]["t"]] if cb.argc >= 1 else None
        by_ref_env = env_ty is not None and env_ty["k"] == "ref"
        elem = self._elem_bounds(an, ctx, ai)
        saved_state = None
        rel_elem = self._elem_relational(an, ctx, ai)
        if rel_elem is not None:
            elem = rel_elem

        def inst_term(t):
            kind, root, steps = t
            if root == 1 and can is not None:
                st2 = steps
                if by_ref_env:
                    if st2[:1] != ("*",):
                        return None
                    st2 = st2[1:]
                if not st2 or not isinstance(st2[0], str):
                    return None
                cap = ctx.st.sym.get((can[0], can[1] + (st2[0],)))
                rest = st2[1:]
                if cap is None:
                    # captured by value and numeric: a term of its own
                    if not rest and kind == "v":
                        return ("n", ("v", can[0], can[1] + (st2[0],)), 0)
                    return None
                if cap[0] in ("n", "iv") and not rest and kind == "v":
                    return cap
                if cap[0] == "ref" and cap[1] is not None and not isinstance(cap[1], str) and rest[:1] == ("*",):
                    pl = (cap[1], cap[2] + rest[1:])
                    if kind == "len":
                        return an.len_val(ctx.st, pl, None)
                    sv = ctx.st.sym.get(pl)
                    if sv is not None and sv[0] in ("n", "iv"):
                        return sv
                    return ("n", ("v", pl[0], pl[1]), 0)
                return None
            if root == 2 and not steps and kind == "v" and elem is not None:
                return elem
            return None

        def inst_val(v):
            if v[0] == "iv":
                return v
            if v[0] != "n":
                return None
            if v[1] is None:
                return v
            w = inst_term(v[1])
            if w is None:
                return None
            if w[0] == "n":
                return ("n", w[1], w[2] + v[2])
            return ("iv", None if w[1] is None else w[1] + v[2], None if w[2] is None else w[2] + v[2])

        for lf in s.exports:
            ok = False
            lift = None
            if lf.kind == "conj":
                cons = []
                for (a, b, c) in lf.parts[0]:
                    a2, b2 = inst_val(a), inst_val(b)
                    if a2 is None or b2 is None:
                        cons = None
                        break
                    cons.append((a2, b2, c))
                if cons is not None:
                    ok, un = an.conj_check(ctx.st, cons)
                    an.cur_dirty = ctx.st.dirty
                    lift = an.conj_lift(un, ctx.st) if not ok else None
            elif lf.kind == "nz":
                dv = inst_val(lf.parts[0])
                if dv is not None:
                    i = ctx.st.val_iv(dv)
                    ok = (i[0] is not None and i[0] > 0) or (i[1] is not None and i[1] < 0)
                    lift = ("nz", dv) if (not ok and dv[0] == "n") else None
            nl = None
            if not ok and lift is not None:
                nl = Lifted(lf.cls, lift[0], lift[1:], lf.origin, lf.desc, lf.what, lf.file, lf.line, lf.chain + [an.b.id], False)
            if an.collect:
                an.res.obls.append(_lifted_obl(ctx, lf, ok, nl, an))
        if an.collect:
            self.closure_checked.add(cdef)

    def _elem_relational(self, an, ctx, ai):
        """fresh term E with  start <= E < end  added to the call-site state (E is rooted at the call's destination
        local, so it dies with it)"""
        if ai == 0 or not ctx.args:
            return None
        v0, t0 = ctx.args[0]
        if t0 is None:
            return None
        ty = self.f.types[t0]
        if ty["k"] != "adt" or ty["adt"] not in ("std::ops::Range", "std::ops::RangeInclusive"):
            return None
        op = ctx.t["args"][0]
        pj = op.get("copy") or op.get("move")
        can = an.canon(ctx.st, pj) if pj is not None else None
        d = ctx.dest_place()
        if can is None or d is None:
            return None
        st = ctx.st

        def fld(nm):
            pl = (can[0], can[1] + (nm,))
            w = st.sym.get(pl)
            if w is not None and w[0] == "n":
                return w
            t = ("v", pl[0], pl[1])
            if t in st.iv or any(t in k for k in st.rel):
                return ("n", t, 0)
            return None
        s0, e0 = fld("start"), fld("end")
        E = ("v", d[0], d[1] + ("#elem",))
        for k in [k for k in st.rel if E in k]:
            del st.rel[k]
        st.iv.pop(E, None)
        ev = ("n", E, 0)
        if s0 is not None:
            st.add_le(s0, ev, 0)
        if e0 is not None:
            st.add_le(ev, e0, -1 if ty["adt"] == "std::ops::Range" else 0)
        if s0 is None and e0 is None:
            return None
        return ev

    def _elem_bounds(self, an, ctx, ai):
        """value bounds of the closure's element parameter when the receiver (argument 0) is an integer range"""
        if ai == 0 or not ctx.args:
            return None
        v0, t0 = ctx.args[0]
        if t0 is None:
            return None
        ty = self.f.types[t0]
        if ty["k"] != "adt" or ty["adt"] not in ("std::ops::Range", "std::ops::RangeInclusive"):
            return None
        op = ctx.t["args"][0]
        pj = op.get("copy") or op.get("move")
        can = an.canon(ctx.st, pj) if pj is not None else None
        if can is None:
            return None
        st = ctx.st

        def fld(nm):
            pl = (can[0], can[1] + (nm,))
            w = st.sym.get(pl)
            if w is not None and w[0] in ("n", "iv"):
                return st.val_iv(w)
            return st.iv.get(("v", pl[0], pl[1]), FULL)
        lo = fld("start")[0]
        hi = fld("end")[1]
        if hi is not None and ty["adt"] == "std::ops::Range":
            hi -= 1
        return ("iv", lo, hi)


def _written_hits(w, pl):
    """does the recorded write `w` possibly change the value / length stored at place `pl`?
    (writes strictly below `pl` — elements of the container, fields of … — do not: `pl` is a numeric leaf or
    a container whose length is meant)"""
    cands = [pl] + list(absdom.ix_places(pl))
    for q in cands:
        if w[0] != q[0]:
            continue
        prefix = (w[0], w[1])
        if not under(q, prefix):
            continue
        if len(w) == 3:
            if w[2] is None:
                return True
            rest = q[1][len(prefix[1]):]
            if any((s in w[2]) for s in rest if isinstance(s, str)):
                return True
        else:
            return True
    return False


def _lifted_obl(ctx, lf, ok, newlift, an):
    from .absint import Obl
    o = Obl(ctx.bi, lf.cls, ok, "lifted" if ok else None, lf.desc, lf.line, lf.file, lf.what,
            ("lifted", newlift) if (not ok and newlift is not None) else None)
    o.dirty = ctx.st.dirty
    o.trust = ("origin", lf.origin, list(lf.chain) + [an.b.id])
    return o

"""Verdict plumbing shared by all rules: findings -> reviewed-safe / known-finding / VIOLATION,
floors (fail closed), evidence files."""
import json
import os
import sys
import time
from collections import Counter, OrderedDict

VERIF = os.path.dirname(os.path.dirname(os.path.abspath(__file__)))
EVID = os.environ.get("VERIF_EVIDENCE_DIR") or os.path.join(VERIF, "evidence")
KNOWN_FILE = os.path.join(VERIF, "known_findings.txt")


def load_known(path=KNOWN_FILE):
    """lines:  known: property=C01 key=<key> count=<n> what=<text>
               fixed: property=C10 <commit> <what failed>       (suppresses nothing)"""
    known = {}
    fixed = []
    if not os.path.exists(path):
        return known, fixed
    for ln in open(path, encoding="utf-8"):
        ln = ln.rstrip("\n")
        if not ln.strip() or ln.lstrip().startswith("#"):
            continue
        if ln.startswith("fixed:"):
            fixed.append(ln)
            continue
        if not ln.startswith("known:"):
            raise SystemExit("known_findings.txt: unparsable line: %r" % ln)
        rest = ln[len("known:"):].strip()
        try:
            p_prop, rest = rest.split(" key=", 1)
            key, rest = rest.rsplit(" count=", 1)
            cnt, what = rest.split(" what=", 1)
            prop = p_prop.split("=", 1)[1].strip()
            known.setdefault(prop, OrderedDict())[key] = (int(cnt), what)
        except ValueError:
            raise SystemExit("known_findings.txt: unparsable line: %r" % ln)
    return known, fixed


def _key_op(cls, shape):
    """operation and failing side of a table key's shape part (see rules/panic_common._op_of)"""
    import re
    if cls == "S5":
        return shape
    m = re.match(r"^([A-Za-z_][\w:]*)", shape)
    part = re.search(r" (#[a-z+0-9!<>= ()&*._-]+)$", shape)
    return (m.group(1) if m else shape.split("(")[0]) + ((" " + part.group(1)) if part else "")


def load_table(name):
    p = os.path.join(VERIF, "tables", name)
    with open(p, encoding="utf-8") as f:
        return json.load(f)


class Check:
    def __init__(self, prop, tier="quick", level="other"):
        self.prop = prop
        self.tier = tier
        self.level = level
        self.t0 = time.time()
        self.findings = []          # (key, detail dict)
        self.hard = []              # (rule, text, detail)  violations that are not key-suppressible (floors, anchors)
        self.cov = OrderedDict()
        self.samples = []
        self.assumptions = []
        self.trusted_base = []
        self.obligations = 0
        self.discharged = 0
        self.rules = []
        self.notes = []
        self.seed = int(os.environ.get("VERIF_SEED", "0") or 0)

    # -- recording ------------------------------------------------------
    def obligation(self, ok=True, n=1):
        self.obligations += n
        if ok:
            self.discharged += n

    def finding(self, key, **detail):
        """a site that violates a rule unless reviewed-safe / known"""
        self.findings.append((key, detail))

    def anchor(self, ok, rule, what, **detail):
        """fail-closed structural requirement (anchor present, floor met)"""
        self.obligation(bool(ok))
        if not ok:
            self.hard.append((rule, what, detail))
        return bool(ok)

    def floor(self, rule, what, count, minimum):
        self.cov.setdefault("floors", OrderedDict())["%s:%s" % (rule, what)] = {"count": count, "min": minimum}
        return self.anchor(count >= minimum, rule, "instance count below floor: %s = %d < %d" % (what, count, minimum))

    def sample(self, s):
        if len(self.samples) < 12:
            self.samples.append(s)

    # -- verdict --------------------------------------------------------
    def finish(self, explanation, reviewed=None):
        """reviewed: dict key -> (count, reason) of reviewed-safe sites for this property"""
        reviewed = reviewed or {}
        known_all, fixed = load_known()
        known = known_all.get(self.prop, {})
        bykey = OrderedDict()
        for key, det in self.findings:
            bykey.setdefault(key, []).append(det)
        violations = []
        n_known = 0
        n_reviewed = 0
        known_lines = []
        for key, dets in bykey.items():
            n = len(dets)
            # a key may stand for several sites of one kind in one function, some reviewed safe and some known defects
            r_allow = reviewed[key][0] if key in reviewed else 0
            k_allow = known[key][0] if key in known else 0
            allow = r_allow + k_allow
            n_reviewed += min(n, r_allow)
            n_known += min(max(n - r_allow, 0), k_allow)
            if n > allow:
                for det in dets[allow:] if allow else dets:
                    violations.append((key, det, n, allow))
        # re-shaped sites: a finding that no entry covers, against an entry of the *same function and class* that has allowance
        # left (its site is gone) and the same skeleton - the arithmetic and the constants of the site are what they were, only the
        # way its operands are obtained was rewritten (`p[i + 1]` in a `while` loop, `p[x_index + 1]` under an iterator)
        if violations:
            left2 = OrderedDict()
            for k in list(reviewed) + [k_ for k_ in known if k_ not in reviewed]:
                have = len(bykey.get(k, ()))
                r_ = reviewed[k][0] if k in reviewed else 0
                k_ = known[k][0] if k in known else 0
                r_used = min(have, r_)
                k_used = min(have - r_used, k_)
                if r_ - r_used > 0:
                    left2[("reviewed", k)] = r_ - r_used
                if k_ - k_used > 0:
                    left2[("known", k)] = k_ - k_used
            still = []
            reshaped = []
            for (key, det, n, allow) in violations:
                sk = det.get("skel")
                hit = None
                if sk:
                    kp = key.split("|")
                    for (which, k), spare in left2.items():
                        if spare <= 0:
                            continue
                        p2 = k.split("|")
                        if len(p2) < 3 or p2[0] != kp[0] or p2[1] != kp[1] or " ~" not in p2[2]:
                            continue
                        if p2[2].split(" ~", 1)[1] == sk and p2[3:] == kp[3:]:
                            hit = (which, k)
                            break
                if hit is None:
                    still.append((key, det, n, allow))
                    continue
                left2[hit] -= 1
                if hit[0] == "reviewed":
                    n_reviewed += 1
                else:
                    n_known += 1
                    known_lines.append("KNOWN-FINDING: property=%s %s — %s" % (self.prop, hit[1], known[hit[1]][1]))
                reshaped.append({"finding": key, "covered_by": hit[1], "table": hit[0]})
            violations = still
            if reshaped:
                self.cov["reshaped_sites"] = reshaped
        # moved sites: a finding that no entry covers, in a function h, against an entry of a function f that has allowance left
        # (its site is gone), of the same class and operation, where f calls h -- the site was extracted into a helper
        calls_into = getattr(self, "calls_into", None)
        moved_notes = []
        if violations and calls_into is not None:
            left = OrderedDict()
            for k in list(reviewed) + [k_ for k_ in known if k_ not in reviewed]:
                have = len(bykey.get(k, ()))
                r_ = reviewed[k][0] if k in reviewed else 0
                k_ = known[k][0] if k in known else 0
                r_used = min(have, r_)
                k_used = min(have - r_used, k_)
                if r_ - r_used > 0:
                    left[("reviewed", k)] = r_ - r_used
                if k_ - k_used > 0:
                    left[("known", k)] = k_ - k_used
            still = []
            for (key, det, n, allow) in violations:
                mv = det.get("moved")
                hit = None
                if mv is not None:
                    origin_id, cls, op = mv
                    for (which, k), spare in left.items():
                        if spare <= 0:
                            continue
                        parts = k.split("|")
                        if len(parts) < 3 or parts[1] != cls or parts[0] == key.split("|")[0]:
                            continue
                        kop = _key_op(cls, parts[2])
                        if kop == op and calls_into(parts[0], origin_id):
                            hit = (which, k)
                            break
                if hit is None:
                    still.append((key, det, n, allow))
                    continue
                left[hit] -= 1
                if hit[0] == "reviewed":
                    n_reviewed += 1
                else:
                    n_known += 1
                    known_lines.append("KNOWN-FINDING: property=%s %s — %s (the site now stands in %s)" % (self.prop, hit[1], known[hit[1]][1], key.split("|")[0]))
                moved_notes.append({"finding": key, "covered_by": hit[1], "table": hit[0]})
            violations = still
        if moved_notes:
            self.cov["moved_sites"] = moved_notes
        known_sites = []
        for key, (cnt, what) in known.items():
            if key in bykey:
                known_lines.append("KNOWN-FINDING: property=%s %s — %s" % (self.prop, key, what))
                known_sites.append({"key": key, "where": sorted({str(d.get("where")) for d in bykey[key]})})
        self.cov["known_finding_sites"] = known_sites
        stale_known = [k for k in known if k not in bykey]
        stale_rev = [k for k in reviewed if k not in bykey]
        for rule, what, det in self.hard:
            violations.append(("%s|%s" % (rule, what), det, 1, 0))

        os.makedirs(os.path.join(EVID, "violations"), exist_ok=True)
        # clear old violation reports of this property
        vd = os.path.join(EVID, "violations")
        for f in os.listdir(vd):
            if f.startswith(self.prop + "-"):
                os.remove(os.path.join(vd, f))
        out_lines = []
        for i, (key, det, n, allow) in enumerate(violations, 1):
            path = os.path.join(vd, "%s-%d.json" % (self.prop, i))
            rep = OrderedDict(property=self.prop, key=key, occurrences=n, allowed=allow, detail=det)
            with open(path, "w", encoding="utf-8") as f:
                json.dump(rep, f, indent=1, default=str)
            out_lines.append("VIOLATION property=%s replay=%s" % (self.prop, path))
            out_lines.append("  key: %s   (found x%d, allowed x%d)" % (key, n, allow))
            for k in ("detail", "where", "fn", "rule", "what", "why", "path"):
                if k in det:
                    out_lines.append("  %s: %s" % (k, det[k]))
        for ln in known_lines:
            print(ln)
        for ln in out_lines:
            print(ln)

        cov = OrderedDict()
        cov["explanation"] = explanation
        cov["obligations"] = self.obligations
        cov["discharged"] = self.discharged - 0
        cov["checker_cmd"] = "cd /verif && ./check %s" % self.prop
        cov["trusted_base"] = self.trusted_base or [
            "rustc nightly type checker and MIR construction", "mirfacts serialiser (/verif/driver)",
            "Python rule modules under /verif/analysis and /verif/rules"]
        cov["rules"] = self.rules
        cov["findings_total"] = len(self.findings)
        cov["findings_reviewed_safe"] = n_reviewed
        cov["findings_known"] = n_known
        cov["violations"] = len(violations)
        cov["stale_known_entries"] = stale_known
        cov["stale_reviewed_entries"] = stale_rev
        if self.notes:
            cov["notes"] = self.notes
        cov["samples"] = self.samples or ["(no samples recorded)"]
        for k, v in self.cov.items():
            cov[k] = v
        level = self.level
        if level == "proof" and (self.obligations == 0 or self.discharged != self.obligations or violations):
            level = "other"
        ev = OrderedDict(property_id=self.prop, tier=self.tier, seed=self.seed, level=level, coverage=cov,
                         assumptions=self.assumptions, wall_s=round(time.time() - self.t0, 3),
                         violations=len(violations))
        os.makedirs(EVID, exist_ok=True)
        with open(os.path.join(EVID, "%s.json" % self.prop), "w", encoding="utf-8") as f:
            json.dump(ev, f, indent=1, default=str)
        print("%s: %s obligations=%d discharged=%d findings=%d (reviewed %d, known %d) violations=%d wall=%.1fs" % (
            self.prop, "FAIL" if violations else "ok", self.obligations, self.discharged, len(self.findings),
            n_reviewed, n_known, len(violations), time.time() - self.t0))
        sys.stdout.flush()
        return 1 if violations else 0

"""Bit-level dependency (information-flow) analysis of small straight-line/branching MIR bodies.

For every local (and field of a struct local) the analysis computes, per bit, the set of *source atoms* the bit may depend
on through data flow and control dependence.  Source atoms are supplied by the caller (parameter bits, `self` field bits,
flag predicates).  The CFG can be pruned by fixing the variant of an enum-typed parameter (IceMode), which is how a codec is
analysed per mode.  Flow-insensitive over the pruned CFG (sound: every assignment is joined), with one refinement: a bit that
an assignment leaves unchanged (x = x | C, x = x & !C) does not pick up the control dependence of the enclosing branch.
"""
from .facts import Body

WIDTH = {"u8": 8, "u16": 16, "u32": 32, "u64": 64, "usize": 64, "i8": 8, "i16": 16, "i32": 32, "i64": 64, "isize": 64}
E = frozenset()


def width_of(types, tix):
    ty = types[tix]
    if ty["k"] == "int":
        return WIDTH.get(ty["n"], 64)
    if ty["k"] == "bool":
        return 1
    if ty["k"] == "char":
        return 32
    return None


class BitDep:
    def __init__(self, facts, body, sources, call_model=None, prune=None):
        """sources: fn(place json) -> list of bit-sets or None  (reads of parameters / self fields)
        call_model: fn(term, arg_bits(list), analysis) -> result bits or None
        prune: fn(block index, switch terminator) -> successor to keep or None"""
        self.f = facts
        self.T = facts.types
        self.b = body
        self.sources = sources
        self.call_model = call_model
        self.env = {}         # key (local, fieldpath tuple) -> list of frozensets
        self.const_defs = {}  # key -> set of constant values assigned (keys that only ever receive constants)
        self.nonconst = set()
        self.cdep_acc = {}
        self.site_bits = {}   # key -> {site: (per-bit dependency sets without control dependence, control dependence)}
        self.succ = [list(s) for s in body.succ]
        if prune:
            for bi, t in body.terms():
                if t["k"] == "switch":
                    keep = prune(bi, t)
                    if keep is not None:
                        self.succ[bi] = [keep]
        # reachable blocks
        seen = set()
        st = [0]
        while st:
            x = st.pop()
            if x in seen:
                continue
            seen.add(x)
            st.extend(self.succ[x])
        self.reach = seen
        self.ctrl = self._control_deps()
        self.ret = None
        self.cur_site = None

    def _control_deps(self):
        n = self.b.nblocks
        succ = [self.succ[i] if i in self.reach else [] for i in range(n)]
        pred = [[] for _ in range(n)]
        for i in self.reach:
            for s in succ[i]:
                pred[s].append(i)
        EXIT = n
        exits = [i for i in self.reach if not succ[i]]
        rsucc = [list(pred[i]) for i in range(n)] + [list(exits)]
        rpred = [list(succ[i]) for i in range(n)] + [[]]
        for e in exits:
            rpred[e] = rpred[e] + [EXIT]
        seen = {EXIT}
        order = []
        stack = [(EXIT, iter(rsucc[EXIT]))]
        while stack:
            node, it = stack[-1]
            adv = False
            for s in it:
                if s not in seen:
                    seen.add(s)
                    stack.append((s, iter(rsucc[s])))
                    adv = True
                    break
            if not adv:
                order.append(node)
                stack.pop()
        order.reverse()
        ipdom = Body._dom(n + 1, order, rpred, EXIT)
        ctrl = {i: set() for i in self.reach}
        for s in self.reach:
            if len(succ[s]) < 2:
                continue
            stop = ipdom.get(s)
            for t in succ[s]:
                x = t
                guard = 0
                while x is not None and x != stop and x != EXIT and guard < 10000:
                    if x in ctrl:
                        ctrl[x].add(s)
                    x = ipdom.get(x)
                    guard += 1
        # transitive closure (nested branches)
        changed = True
        while changed:
            changed = False
            for x in ctrl:
                add = set()
                for s in ctrl[x]:
                    add |= ctrl.get(s, set())
                if not add <= ctrl[x]:
                    ctrl[x] |= add
                    changed = True
        return ctrl

    # ---------------------------------------------------------------- values
    def place_bits(self, pj, want_width=None, selfmark=None):
        src = self.sources(pj)
        if src is not None:
            return src
        l = pj["l"]
        path = tuple(el[2] if (el != "*" and el[0] == "f") else ("*" if el == "*" else str(el[0])) for el in pj.get("p", []))
        key = (l, path)
        v = self.env.get(key)
        tix = self.place_type(pj)
        w = width_of(self.T, tix) if tix is not None else want_width
        if selfmark is not None and key == selfmark and w:
            return [frozenset([("self", i)]) for i in range(w)]
        if v is not None:
            return v
        if w:
            return [E] * w
        return None

    def place_type(self, pj):
        tix = self.b.locals[pj["l"]]["t"]
        for el in pj.get("p", ()):
            if el == "*":
                ty = self.T[tix]
                tix = ty.get("e")
            elif el[0] == "f":
                tix = el[4]
            elif el[0] == "dc":
                pass
            else:
                return None
            if tix is None:
                return None
        return tix

    def operand(self, op, w=None, selfmark=None):
        if "const" in op:
            c = op["const"]
            ww = width_of(self.T, c["ty"]) or w or 64
            return [E] * ww
        pj = op.get("copy") or op.get("move")
        v = self.place_bits(pj, w, selfmark)
        if v is None:
            return [E] * (w or 64)
        return v

    @staticmethod
    def allbits(v):
        out = set()
        for x in v:
            out |= x
        return frozenset(out)

    def rvalue(self, rv, dest_w, selfmark):
        k = rv["k"]
        if k == "use":
            return self.operand(rv["a"], dest_w, selfmark)
        if k == "cast":
            a = self.operand(rv["a"], None, selfmark)
            w = width_of(self.T, rv["ty"]) or dest_w or len(a)
            return (a + [E] * w)[:w]
        if k == "un":
            a = self.operand(rv["a"], dest_w, selfmark)
            if rv["op"] == "Not":
                return list(a)
            allb = self.allbits(a)
            return [allb] * (dest_w or len(a))
        if k == "bin":
            op = rv["op"]
            if op.endswith("O"):
                op = op[:-1]
            ca = rv["a"].get("const", {}).get("val") if "const" in rv["a"] else None
            cb = rv["b"].get("const", {}).get("val") if "const" in rv["b"] else None
            a = self.operand(rv["a"], dest_w, selfmark)
            b = self.operand(rv["b"], len(a), selfmark)
            w = len(a)
            if op in ("Eq", "Ne", "Lt", "Le", "Gt", "Ge"):
                return [self.allbits(a) | self.allbits(b)]
            if op in ("Shl", "Shr") and cb is not None:
                if op == "Shl":
                    return ([E] * cb + a)[:w]
                return (a[cb:] + [E] * cb)[:w]
            if op == "BitAnd":
                if cb is not None:
                    return [a[i] if (cb >> i) & 1 else E for i in range(w)]
                if ca is not None:
                    b2 = (b + [E] * w)[:w]
                    return [b2[i] if (ca >> i) & 1 else E for i in range(w)]
                b2 = (b + [E] * w)[:w]
                return [a[i] | b2[i] if (a[i] or b2[i]) else E for i in range(w)]
            if op in ("BitOr", "BitXor"):
                if op == "BitOr" and cb is not None:
                    return [E if (cb >> i) & 1 else a[i] for i in range(w)]
                b2 = (b + [E] * w)[:w]
                return [a[i] | b2[i] for i in range(w)]
            if op in ("Add", "Sub", "Mul"):
                b2 = (b + [E] * w)[:w]
                out = []
                acc = frozenset()
                for i in range(w):
                    acc = acc | a[i] | b2[i]
                    out.append(acc)
                return out
            allb = self.allbits(a) | self.allbits(b)
            return [allb] * w
        if k == "discr":
            v = self.place_bits(rv["p"])
            return [self.allbits(v) if v else E] * (dest_w or 8)
        return None

    def run(self):
        b = self.b
        changed = True
        rounds = 0
        self.ret_bits = None
        while changed and rounds < 50:
            changed = False
            rounds += 1
            for bi in sorted(self.reach):
                blk = b.blocks[bi]
                cdep = frozenset()
                for s in self.ctrl.get(bi, ()):
                    t = b.blocks[s]["term"]
                    if t["k"] == "switch":
                        cdep |= self.allbits(self.operand(t["discr"]))
                for k_, st in enumerate(blk["stmts"]):
                    if st["k"] != "assign":
                        continue
                    self.cur_site = (bi, k_)
                    changed |= self.assign(st["p"], st["rv"], cdep)
                self.cur_site = None
                t = blk["term"]
                if t["k"] == "call":
                    changed |= self.call(t, cdep)
        return self

    def key_of(self, pj):
        path = tuple(el[2] if (el != "*" and el[0] == "f") else ("*" if el == "*" else str(el[0])) for el in pj.get("p", []))
        return (pj["l"], path)

    def join(self, key, bits, cdep, identity_ok=True, site=None):
        """site: identity of the assigning statement.  A bit position at which every assignment of the place stores the same
        thing (`let t = if c { x | 8 } else { x }`: all bits but bit 3) does not depend on which assignment ran, so the
        control dependence is added only where the assignments differ."""
        old = self.env.get(key)
        w = len(bits)
        if old is None:
            old = [E] * w
        old = (old + [E] * w)[:w]
        new = []
        reals = []
        for i in range(w):
            v = bits[i]
            if identity_ok and v == frozenset([("self", i)]):
                new.append(old[i])          # bit unchanged by this assignment
                reals.append(None)
                continue
            real = set()
            for a in v:
                if isinstance(a, tuple) and a and a[0] == "self":
                    real |= old[a[1]] if a[1] < len(old) else set()
                else:
                    real.add(a)
            reals.append(frozenset(real))
            new.append(old[i] | frozenset(real))
        rec_changed = False
        if site is not None:
            recs = self.site_bits.setdefault(key, {})
            if recs.get(site) != (tuple(reals), cdep):
                recs[site] = (tuple(reals), cdep)
                rec_changed = True
            for i in range(w):
                if reals[i] is None:
                    continue
                differ = any((len(r[0]) > i and r[0][i] is not None and r[0][i] != reals[i]) for s_, r in recs.items() if s_ != site)
                if differ:
                    for s_, r in recs.items():
                        new[i] = new[i] | r[1]
        else:
            for i in range(w):
                if reals[i] is not None:
                    new[i] = new[i] | cdep
        if new != old or self.env.get(key) is None:
            self.env[key] = new
            return new != old or rec_changed
        return rec_changed

    def assign(self, pj, rv, cdep):
        key = self.key_of(pj)
        tix = self.place_type(pj)
        w = width_of(self.T, tix) if tix is not None else None
        if rv["k"] == "agg":
            changed = False
            adt = rv.get("adt")
            info = self.f.adts.get(adt) if adt else None
            names = None
            if info is not None and info["kind"] == "struct":
                names = [fl[0] for fl in info["variants"][0]["fields"]]
            elif rv.get("ak") == "tuple":
                names = [str(i) for i in range(len(rv["ops"]))]
            if names and len(names) == len(rv["ops"]):
                for nm, o in zip(names, rv["ops"]):
                    bits = self.operand(o, None, None)
                    # nested struct operands: copy their fields
                    pj2 = o.get("copy") or o.get("move")
                    if pj2 is not None:
                        k2 = self.key_of(pj2)
                        for (l, path), v in list(self.env.items()):
                            if l == k2[0] and path[:len(k2[1])] == k2[1] and len(path) > len(k2[1]):
                                changed |= self.join((key[0], key[1] + (nm,) + path[len(k2[1]):]), v, cdep, False)
                    changed |= self.join((key[0], key[1] + (nm,)), bits, cdep, False)
            return changed
        if w is None:
            # struct move / copy: carry the fields
            if rv["k"] == "use":
                pj2 = rv["a"].get("copy") or rv["a"].get("move")
                if pj2 is not None:
                    changed = False
                    k2 = self.key_of(pj2)
                    src_fields = self.sources(pj2)
                    for (l, path), v in list(self.env.items()):
                        if l == k2[0] and path[:len(k2[1])] == k2[1] and len(path) > len(k2[1]):
                            changed |= self.join((key[0], key[1] + path[len(k2[1]):]), v, cdep, False)
                    return changed
            return False
        # constants assigned under control: only the bit positions where the assigned constants differ depend on the branch
        if rv["k"] == "use" and "const" in rv["a"] and "val" in rv["a"]["const"] and key not in self.nonconst:
            self.const_defs.setdefault(key, set()).add(rv["a"]["const"]["val"])
            self.cdep_acc[key] = self.cdep_acc.get(key, frozenset()) | cdep
            vals = self.const_defs[key]
            new = []
            for i in range(w):
                same = len({(v >> i) & 1 for v in vals}) == 1
                new.append(E if same else self.cdep_acc[key])
            if self.env.get(key) != new:
                self.env[key] = new
                return True
            return False
        if key in self.const_defs and key not in self.nonconst:
            # a non-constant assignment joins the party: fall back to the plain rule for everything seen so far
            self.nonconst.add(key)
            w0 = w
            self.env[key] = [self.cdep_acc.get(key, frozenset())] * w0
        self.nonconst.add(key)
        bits = self.rvalue(rv, w, key)
        if bits is None:
            return False
        bits = (bits + [E] * w)[:w]
        return self.join(key, bits, cdep, site=self.cur_site)

    def call(self, t, cdep):
        args = []
        for a in t["args"]:
            args.append(self.operand(a))
        res = None
        if self.call_model is not None:
            res = self.call_model(self, t, args, cdep)
        key = self.key_of(t["dest"])
        tix = self.place_type(t["dest"])
        w = width_of(self.T, tix) if tix is not None else None
        if res == "handled":
            return False
        if res is None:
            if w is None:
                return False
            allb = frozenset()
            for a in args:
                allb |= self.allbits(a)
            res = [allb] * w
        if w is not None:
            res = (res + [E] * w)[:w]
        return self.join(key, res, cdep, False)

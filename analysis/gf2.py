"""GF(2) bit-sliced normal form of shift/xor/mask/cast/table-lookup expressions.

A value of width w is a list of w bits (LSB first); each bit is a frozenset of atoms, meaning the XOR of
those atoms.  Atoms:  'ONE' (constant 1), ('v', name, i) (bit i of a free input), ('T', table, row, idx, i)
(bit i of an uninterpreted table lookup whose index has normal form idx), ('opaque', text, i).
Two expressions with equal normal forms compute the same function for all inputs (tables treated as
uninterpreted functions).  This is symbolic normalisation of the source expression, not execution.
"""
import re

ONE = "ONE"


def const_bits(v, w):
    return [frozenset([ONE]) if (v >> i) & 1 else frozenset() for i in range(w)]


def var_bits(name, w):
    return [frozenset([("v", name, i)]) for i in range(w)]


def xor(a, b):
    assert len(a) == len(b), (len(a), len(b))
    return [x ^ y for x, y in zip(a, b)]


def shl(a, k):
    w = len(a)
    return ([frozenset()] * k + a)[:w] if k < w else [frozenset()] * w


def shr(a, k):
    w = len(a)
    return (a[k:] + [frozenset()] * k)[:w] if k < w else [frozenset()] * w


def resize(a, w):
    """zero-extend / truncate (unsigned casts)"""
    if len(a) >= w:
        return a[:w]
    return a + [frozenset()] * (w - len(a))


def is_const(a):
    return all(b <= {ONE} for b in a)


def const_val(a):
    return sum((1 << i) for i, b in enumerate(a) if b == {ONE})


def and_(a, b):
    if is_const(b):
        m = const_val(b)
        return [x if (m >> i) & 1 else frozenset() for i, x in enumerate(a)]
    if is_const(a):
        return and_(b, a)
    return None


def or_(a, b):
    """bitwise OR: where both bits are non-constant-zero the result is an opaque ('or', {x, y}) atom (canonical, so two
    expressions OR-ing the same pair of bits normalise identically)"""
    out = []
    for x, y in zip(a, b):
        if not x:
            out.append(y)
        elif not y:
            out.append(x)
        elif x == y:
            out.append(x)
        else:
            out.append(frozenset([("or", frozenset([x, y]))]))
    return out


def not_(a):
    return [x ^ frozenset([ONE]) for x in a]


def trim(a):
    n = len(a)
    while n > 0 and not a[n - 1]:
        n -= 1
    return tuple(a[:n])


def lookup(table, row, idx, w):
    key = trim(idx)
    return [frozenset([("T", table, row, key, i)]) for i in range(w)]


WIDTH = {"u8": 8, "u16": 16, "u32": 32, "u64": 64, "usize": 64, "i8": 8, "i16": 16, "i32": 32, "i64": 64, "isize": 64}


_FROM = re.compile(r"^(?:std|core)::convert::num::<impl (?:std|core)::convert::From<(?:u8|u16|u32|bool)> for (u8|u16|u32|u64|usize|i16|i32|i64|isize|u128|i128)>::from$")


class Normalizer:
    """turns analysis.expr trees into normal forms.
    env: callback name-> (atom name, width) for ('var', …) leaves and indexable inputs;
    tables: dict static path -> (dims, elem width)"""

    def __init__(self, var_width, tables, index_inputs=None):
        self.var_width = var_width      # fn(var expr) -> (name, width) or None
        self.tables = tables            # path -> (rows or None, width)
        self.index_inputs = index_inputs or (lambda e: None)
        self.inline = None              # fn(call expr) -> equivalent expression over the arguments, or None (expr.inline_helper)
        self.helpers = {}               # callee path -> ((argument widths), fn(*bit vectors) -> bit vector): helpers whose own form is checked
        self.fail = None

    def nf(self, e, want=None):
        k = e[0]
        if k == "const":
            if want is None:
                self.fail = "constant of unknown width"
                return None
            return const_bits(e[1] & ((1 << want) - 1), want)
        inp = self.index_inputs(e)
        if inp is not None:
            name, w = inp
            return var_bits(name, w)
        if k == "var":
            r = self.var_width(e)
            if r is None:
                self.fail = "free variable %r of unknown width" % (e,)
                return None
            return var_bits(r[0], r[1])
        if k == "deref":
            return self.nf(e[1], want)
        if k == "cast":
            w = WIDTH.get(e[1])
            if w is None:
                self.fail = "cast to %s" % e[1]
                return None
            inner = self.nf(e[2], None if e[2][0] != "const" else w)
            if inner is None:
                return None
            return resize(inner, w)
        if k == "un" and e[1] == "Not":
            a = self.nf(e[2], want)
            return None if a is None else not_(a)
        if k == "bin":
            op = e[1]
            if op in ("Shl", "Shr"):
                a = self.nf(e[2], want)
                if a is None:
                    return None
                if e[3][0] != "const":
                    self.fail = "shift by non-constant"
                    return None
                return shl(a, e[3][1]) if op == "Shl" else shr(a, e[3][1])
            if op in ("BitXor", "BitAnd", "BitOr"):
                a_first = e[2][0] != "const"
                x, y = (e[2], e[3]) if a_first else (e[3], e[2])
                a = self.nf(x, want)
                if a is None:
                    return None
                b = self.nf(y, len(a))
                if b is None:
                    return None
                if len(a) != len(b):
                    self.fail = "width mismatch in %s" % op
                    return None
                r = xor(a, b) if op == "BitXor" else and_(a, b) if op == "BitAnd" else or_(a, b)
                if r is None:
                    self.fail = "non-linear %s" % op
                return r
            self.fail = "operator %s outside the shift/xor/mask fragment" % op
            return None
        if k == "index":
            # table lookups: STATIC[idx] or STATIC[row][idx]
            base, idx = e[1], e[2]
            row = None
            b0 = base
            if b0[0] == "index":
                if b0[2][0] != "const":
                    self.fail = "table row is not a constant"
                    return None
                row = b0[2][1]
                b0 = b0[1]
            while b0[0] in ("deref", "ref"):
                b0 = b0[1]
            if b0[0] in ("static", "def") and b0[1] in self.tables:
                rows, w = self.tables[b0[1]]
                if (rows is None) != (row is None):
                    self.fail = "table dimensionality mismatch"
                    return None
                i = self.nf(idx, 64)
                if i is None:
                    return None
                return lookup(b0[1], row, i, w)
            self.fail = "index into something that is not a known table: %r" % (b0,)
            return None
        if k == "call":
            # lossless widenings written as conversions: usize::from(x), u32::from(x), x.into()
            m = _FROM.match(e[1])
            if m and len(e[2]) == 1:
                w = WIDTH.get(m.group(1))
                a = self.nf(e[2][0], None)
                if a is None:
                    return None
                if w is None or len(a) > w:
                    self.fail = "conversion %s" % e[1]
                    return None
                return resize(a, w)
            h = self.helpers.get(e[1])
            if h is not None:
                widths, fn = h
                if len(widths) != len(e[2]):
                    self.fail = "helper %s: arity" % e[1]
                    return None
                args = []
                for w, a in zip(widths, e[2]):
                    x = self.nf(a, w)
                    if x is None:
                        return None
                    if len(x) != w:
                        self.fail = "helper %s: argument width" % e[1]
                        return None
                    args.append(x)
                return fn(*args)
            if self.inline is not None:
                e2 = self.inline(e)
                if e2 is not None:
                    return self.nf(e2, want)
            self.fail = "call of %s outside the fragment" % e[1]
            return None
        self.fail = "expression kind %s outside the fragment" % k
        return None

"""Abstract domain for the discharge calculus (DESIGN §3.3): intervals + difference constraints
over *terms* (values at stable places, container lengths), symbolic values for temporaries.

Terms:   ('v', root, steps)   integer value stored at place root.steps
         ('len', root, steps) length of the container at that place
Places:  (root local, steps) with steps a tuple of '*', field names, ('dc', variant)
Values (what `sym` maps places to, and what evaluating an operand yields):
  ('n', term|None, k)            number == term + k      (term None: the constant k)
  ('iv', lo, hi)                 number known only by interval (None = unbounded)
  ('ref', root, steps)           pointer to a place        ('ref', None, None) unknown pointer
  ('b', cond)                    boolean; cond see assume()
  ('opt', 'some', payload|None) | ('opt', 'none') | ('opt', 'cond', cond, payload|None)
  ('top',)                       nothing known
All arithmetic is over mathematical integers; callers clip to type ranges (wrap-aware).
"""
import os

NEG_INF = None
TOP = ("top",)
MAX_PARAM = 0        # set per analysed body: locals 1..MAX_PARAM are parameters
KILL_LOG = None      # when a set: every place whose contents are forgotten is recorded (used for liftability)


def iv_add(a, b):
    return (None if a[0] is None or b[0] is None else a[0] + b[0],
            None if a[1] is None or b[1] is None else a[1] + b[1])


def iv_neg(a):
    return (None if a[1] is None else -a[1], None if a[0] is None else -a[0])


def iv_sub(a, b):
    return iv_add(a, iv_neg(b))


def iv_mul(a, b):
    if a == (0, 0) or b == (0, 0):
        return (0, 0)
    if None in a or None in b:
        # sign-based reasoning for the common non-negative case
        if a[0] is not None and a[0] >= 0 and b[0] is not None and b[0] >= 0:
            return (a[0] * b[0], None)
        return (None, None)
    ps = [a[0] * b[0], a[0] * b[1], a[1] * b[0], a[1] * b[1]]
    return (min(ps), max(ps))


def iv_join(a, b):
    return (None if a[0] is None or b[0] is None else min(a[0], b[0]),
            None if a[1] is None or b[1] is None else max(a[1], b[1]))


def iv_meet(a, b):
    lo = a[0] if b[0] is None else b[0] if a[0] is None else max(a[0], b[0])
    hi = a[1] if b[1] is None else b[1] if a[1] is None else min(a[1], b[1])
    return (lo, hi)


def iv_empty(a):
    return a[0] is not None and a[1] is not None and a[0] > a[1]


def iv_within(a, b):
    """a ⊆ b"""
    if b[0] is not None and (a[0] is None or a[0] < b[0]):
        return False
    if b[1] is not None and (a[1] is None or a[1] > b[1]):
        return False
    return True


FULL = (None, None)


def term_place(t):
    return (t[1], t[2])


def _steq(a, b):
    """step compatibility: index steps may denote the same element whatever their index values"""
    if a == b:
        return True
    return isinstance(a, tuple) and isinstance(b, tuple) and a and b and a[0] == "ix" and b[0] == "ix"


def _prefix_eq(a, b, n):
    for i in range(n):
        if not _steq(a[i], b[i]):
            return False
    return True


def ix_places(pl):
    """places of the terms used as index values inside a place's steps"""
    for s in pl[1]:
        if isinstance(s, tuple) and s and s[0] == "ix":
            v = s[1]
            if v[0] == "n" and v[1] is not None:
                yield (v[1][1], v[1][2])


def _overlaps_plain(p, q):
    if p[0] != q[0]:
        return False
    a, b = p[1], q[1]
    n = min(len(a), len(b))
    return _prefix_eq(a, b, n)


def overlaps(p, q):
    """places p, q (root, steps): one is a prefix of the other — or q's identity depends (through an index
    step) on a value stored at p.  Used as: overlaps(fact place, written place)."""
    if _overlaps_plain(p, q):
        return True
    for ip in ix_places(p):
        if _overlaps_plain(ip, q):
            return True
    return False


def under(p, prefix):
    """place p is prefix itself or below it"""
    if p[0] != prefix[0]:
        return False
    n = len(prefix[1])
    if len(p[1]) < n:
        return False
    return _prefix_eq(p[1], prefix[1], n)


def val_places(v):
    """places referenced by a value (for kill)"""
    k = v[0]
    if k in ("n", "nw"):
        if v[1] is not None:
            yield term_place(v[1])
    elif k == "ref":
        if v[1] is not None:
            yield (v[1], v[2])
    elif k == "b":
        for p in cond_places(v[1]):
            yield p
    elif k == "opt":
        if v[1] == "some" and v[2] is not None:
            for p in val_places(v[2]):
                yield p
        elif v[1] == "cond":
            for p in cond_places(v[2]):
                yield p
            if v[3] is not None:
                for p in val_places(v[3]):
                    yield p
    elif k == "iter":
        for x in v[2:]:
            if isinstance(x, tuple) and x and x[0] in ("n", "ref", "b", "opt", "iv"):
                for p in val_places(x):
                    yield p
            elif isinstance(x, tuple) and x and x[0] in ("v", "len"):
                yield term_place(x)
    elif k == "rng":
        for x in (v[1], v[2]):
            if x is not None:
                for p in val_places(x):
                    yield p
    elif k == "discr":
        yield v[1]
    elif k == "pending":
        inner = v[1]
        for x in inner[1:]:
            if isinstance(x, tuple) and x and x[0] in ("n", "iv"):
                for p in val_places(x):
                    yield p


def cond_places(c):
    k = c[0]
    if k in ("cmp", "cmpw"):
        for x in (c[2], c[3]):
            for p in val_places(x):
                yield p
    elif k == "not":
        for p in cond_places(c[1]):
            yield p
    elif k in ("and", "or"):
        for x in c[1:]:
            for p in cond_places(x):
                yield p
    elif k in ("some", "none"):
        yield c[1]
    elif k == "optval":
        for p in val_places(c[1]):
            yield p
    elif k == "guarded":
        for lst in c[1:]:
            for (a, b, d) in lst:
                for x in (a, b):
                    for p in val_places(x):
                        yield p
    elif k == "conj":
        for lst in c[1:]:
            for (a, b, d) in lst:
                for x in (a, b):
                    for p in val_places(x):
                        yield p
    elif k == "pred":
        for x in c[3]:
            if x is not None:
                for p in val_places(x):
                    yield p


def _bool_const(v):
    if v is not None and v[0] == "n" and v[1] is None and v[2] in (0, 1):
        return v[2]
    return None


def _diff_facts(side, joined, skip_place, limit=40):
    """constraints (a, b, c) [a - b <= c] that hold in `side` but are weaker/absent in `joined`"""
    out = []
    for t, iv in side.iv.items():
        if term_place(t) == skip_place:
            continue
        j = joined.iv.get(t, FULL)
        if iv[1] is not None and (j[1] is None or iv[1] < j[1]):
            out.append((("n", t, 0), ("n", None, iv[1]), 0))
        if iv[0] is not None and (j[0] is None or iv[0] > j[0]):
            out.append((("n", None, iv[0]), ("n", t, 0), 0))
        if len(out) >= limit:
            return out
    for (x, y), c in side.rel.items():
        j = joined.rel.get((x, y))
        if j is None or c < j:
            out.append((("n", x, 0), ("n", y, 0), c))
            if len(out) >= limit:
                return out
    for p, v in side.sym.items():
        if p == skip_place or joined.sym.get(p) == v:
            continue
        if v[0] == "n" and not p[1]:
            me = ("n", ("v", p[0], p[1]), 0)
            out.append((me, v, 0))
            out.append((v, me, 0))
            if len(out) >= limit:
                return out
    return out


class State:
    __slots__ = ("iv", "rel", "sym", "bottom", "dirty", "taint", "lin")

    def __init__(self):
        self.iv = {}
        self.rel = {}
        self.sym = {}
        self.bottom = False
        self.dirty = frozenset()     # places (rooted at parameters) written since function entry
        self.taint = frozenset()     # terms that may hold a not yet bounded magnitude-source value (C03; empty elsewhere)
        self.lin = {}                # place -> (a, b): the place holds a - b for two 'n' values (a remembered difference, see add_le);
        #                              place -> (a, b, '+'): the place holds a + b (value numbering of sums, see Analyzer.assign_typed)

    def copy(self):
        s = State.__new__(State)
        s.iv = dict(self.iv)
        s.rel = dict(self.rel)
        s.sym = dict(self.sym)
        s.bottom = self.bottom
        s.dirty = self.dirty
        s.taint = self.taint
        s.lin = dict(self.lin) if self.lin else {}
        return s

    def mark_dirty(self, entry):
        if isinstance(entry[0], int) and entry[0] <= MAX_PARAM and entry not in self.dirty:
            self.dirty = self.dirty | {entry}

    # ---- numeric queries -------------------------------------------------
    def term_iv(self, t):
        return self.iv.get(t, FULL)

    def val_iv(self, v):
        k = v[0]
        if k == "n":
            if v[1] is None:
                return (v[2], v[2])
            a = self.iv.get(v[1], FULL)
            return (None if a[0] is None else a[0] + v[2], None if a[1] is None else a[1] + v[2])
        if k == "iv":
            return (v[1], v[2])
        if k == "b":
            return (0, 1)
        return FULL

    def _rel_index(self):
        idx = {}
        for (x, y), c in self.rel.items():
            idx.setdefault(x, []).append((y, c))
        return idx

    def bound1(self, ta, tb, idx):
        """bound_diff(ta, tb, depth=1) with a pre-built index of rel by first term (used by join, where it is called often)"""
        if ta == tb:
            return 0
        best = None
        if ta is not None and tb is not None:
            best = self.rel.get((ta, tb))
        ha = 0 if ta is None else self.iv.get(ta, FULL)[1]
        lb = 0 if tb is None else self.iv.get(tb, FULL)[0]
        if ha is not None and lb is not None:
            c = ha - lb
            if best is None or c < best:
                best = c
        if ta is not None:
            for m, c1 in idx.get(ta, ()):
                if m == tb:
                    continue
                c2 = self.rel.get((m, tb)) if tb is not None else None
                hm = self.iv.get(m, FULL)[1]
                if hm is not None and lb is not None and (c2 is None or hm - lb < c2):
                    c2 = hm - lb
                if c2 is not None:
                    c = c1 + c2
                    if best is None or c < best:
                        best = c
        return best

    def bound_diff(self, ta, tb, depth=3):
        """least c (or None) with  ta - tb <= c  derivable through at most `depth` relational hops and a final direct step;
        ta/tb terms or None (= constant 0)"""
        if ta == tb:
            return 0
        best = self._direct(ta, tb)
        if depth > 0 and ta is not None and self.rel:
            idx = self._rel_index()
            if ta not in idx:
                return best
            dist = {ta: 0}
            frontier = {ta: 0}
            for _ in range(depth):
                nxt = {}
                for x, cx in frontier.items():
                    for m, c1 in idx.get(x, ()):
                        c = cx + c1
                        d0 = dist.get(m)
                        if d0 is None or c < d0:
                            dist[m] = c
                            nxt[m] = c
                if not nxt:
                    break
                frontier = nxt
            for m, cm in dist.items():
                if m == ta or m == tb:
                    if m == tb and m != ta and (best is None or cm < best):
                        best = cm
                    continue
                c2 = self._direct(m, tb)
                if c2 is not None and (best is None or cm + c2 < best):
                    best = cm + c2
        return best

    def _direct(self, ta, tb):
        if ta == tb:
            return 0
        best = self.rel.get((ta, tb)) if (ta is not None and tb is not None) else None
        ha = 0 if ta is None else self.iv.get(ta, FULL)[1]
        lb = 0 if tb is None else self.iv.get(tb, FULL)[0]
        if ha is not None and lb is not None:
            c = ha - lb
            if best is None or c < best:
                best = c
        return best

    def norm(self, v):
        """replace a place term by the numeric alias stored for that place, if any"""
        for _ in range(4):
            if v[0] == "n" and v[1] is not None and v[1][0] == "v":
                w = self.sym.get((v[1][1], v[1][2]))
                if w is not None and w[0] == "n" and w[1] != v[1]:
                    v = ("n", w[1], w[2] + v[2])
                    continue
            break
        return v

    def prove_le(self, a, b, c=0):
        """values a, b ('n' or 'iv'):  a - b <= c ?"""
        a, b = self.norm(a), self.norm(b)
        if a[0] == "n" and b[0] == "n":
            d = self.bound_diff(a[1], b[1])
            if d is not None and d + a[2] - b[2] <= c:
                return True
            return False
        ia, ib = self.val_iv(a), self.val_iv(b)
        if ia[1] is not None and ib[0] is not None and ia[1] - ib[0] <= c:
            return True
        # mixed: one side interval-only
        if a[0] == "n" and ib[0] is not None:
            d = self.bound_diff(a[1], None)
            return d is not None and d + a[2] - ib[0] <= c
        if b[0] == "n" and ia[1] is not None:
            d = self.bound_diff(None, b[1])
            return d is not None and ia[1] + d - b[2] <= c
        return False

    # ---- constraints -----------------------------------------------------
    def set_iv(self, t, lo, hi):
        cur = self.iv.get(t, FULL)
        new = iv_meet(cur, (lo, hi))
        if iv_empty(new):
            self.bottom = True
            return
        if new != FULL:
            self.iv[t] = new

    def add_le(self, a, b, c=0, _lin=True):
        """assume  a - b <= c  for values a, b"""
        if _lin and self.lin:
            # x = p - q (+k) compared with a constant: the bound is one on p - q
            if a[0] == "n" and a[1] is not None and a[1][0] == "v" and b[0] == "n" and b[1] is None:
                pq = self.lin.get((a[1][1], a[1][2]))
                if pq is not None and len(pq) == 2:
                    self.add_le(pq[0], pq[1], c - a[2] + b[2], _lin=False)
            if b[0] == "n" and b[1] is not None and b[1][0] == "v" and a[0] == "n" and a[1] is None:
                pq = self.lin.get((b[1][1], b[1][2]))
                if pq is not None and len(pq) == 2:
                    # a.k - (p - q + b.k) <= c   <=>   q - p <= c + b.k - a.k
                    self.add_le(pq[1], pq[0], c + b[2] - a[2], _lin=False)
        if a[0] == "iv" or b[0] == "iv" or a[0] != "n" or b[0] != "n":
            ia, ib = self.val_iv(a), self.val_iv(b)
            # a <= b + c:  only interval tightening on the 'n' side
            if a[0] == "n" and a[1] is not None and ib[1] is not None:
                self.set_iv(a[1], None, ib[1] + c - a[2])
            if b[0] == "n" and b[1] is not None and ia[0] is not None:
                self.set_iv(b[1], ia[0] - c - b[2], None)
            if ia[0] is not None and ib[1] is not None and ia[0] - ib[1] > c:
                self.bottom = True
            return
        ta, ka, tb, kb = a[1], a[2], b[1], b[2]
        d = c - ka + kb          # ta - tb <= d
        if ta is None and tb is None:
            if 0 > d:
                self.bottom = True
            return
        if ta == tb:
            if 0 > d:
                self.bottom = True
            return
        if tb is None:
            self.set_iv(ta, None, d)
            return
        if ta is None:
            self.set_iv(tb, -d, None)
            return
        cur = self.rel.get((ta, tb))
        if cur is None or d < cur:
            self.rel[(ta, tb)] = d
        # contradiction with the reverse constraint
        rev = self.rel.get((tb, ta))
        if rev is not None and rev + d < 0:
            self.bottom = True
            return
        # interval tightening
        ia, ib = self.iv.get(ta, FULL), self.iv.get(tb, FULL)
        if ib[1] is not None:
            self.set_iv(ta, None, ib[1] + d)
        if ia[0] is not None:
            self.set_iv(tb, ia[0] - d, None)

    def add_eq(self, a, b):
        self.add_le(a, b, 0)
        self.add_le(b, a, 0)

    # ---- kills -------------------------------------------------------------
    def materialise(self, place):
        """before dropping a numeric alias of `place`, keep its interval"""
        v = self.sym.get(place)
        if v is not None and v[0] == "n" and v[1] is not None:
            i = self.val_iv(v)
            if i != FULL:
                self.iv[("v", place[0], place[1])] = iv_meet(self.iv.get(("v", place[0], place[1]), FULL), i)
            if self.taint and v[1] in self.taint:
                self.taint = self.taint | {("v", place[0], place[1])}

    def kill(self, place, whole_local=False, keep_len=False):
        """forget facts about the contents of `place` (and everything below / above it).
        whole_local: the root local itself is reassigned -> pointers rooted there die too.
        keep_len: element writes through the place keep its length term."""
        if not keep_len:
            self.mark_dirty(place)
        memo = {}

        def hit(pl):
            # a fact about `pl` depends on what is stored at `place` iff pl is at/below it, or one of its index
            # values is; writes *below* pl (elements of a container whose length is meant, …) do not affect it
            r = memo.get(pl)
            if r is None:
                r = under(pl, place)
                if not r:
                    for ip in ix_places(pl):
                        if under(ip, place):
                            r = True
                            break
                memo[pl] = r
            return r

        def keep(t):
            return keep_len and t[0] == "len" and term_place(t) == place
        if self.taint:
            self.taint = frozenset(t for t in self.taint if not (hit(term_place(t)) and not keep(t)))
        if self.lin:
            self.lin = {p: ab for p, ab in self.lin.items() if not hit(p) and not any(x[1] is not None and hit(term_place(x[1])) for x in ab[:2])}
        for t in [t for t in self.iv if hit(term_place(t)) and not keep(t)]:
            del self.iv[t]
        if self.rel:
            terms = set()
            for k in self.rel:
                terms.add(k[0])
                terms.add(k[1])
            bad = {t for t in terms if hit(term_place(t)) and not keep(t)}
            if bad:
                for k in [k for k in self.rel if k[0] in bad or k[1] in bad]:
                    del self.rel[k]
        dead = []
        for p, v in self.sym.items():
            if hit(p):
                if keep_len and p == place:
                    continue
                dead.append(p)
                continue
            for q in val_places(v):
                if v[0] == "ref" and not whole_local:
                    # a pointer stays valid when the pointee's contents change; it dies when a local on its path is reassigned
                    continue
                if keep_len and q == place and v[0] == "n" and v[1] is not None and v[1][0] == "len":
                    continue
                if hit(q):
                    dead.append(p)
                    break
        for p in dead:
            if p in self.sym:
                if not hit(p):
                    self.materialise(p)
                del self.sym[p]

    def kill_under(self, prefix, names=None, by_call=False, probe=None):
        """forget facts about places strictly below/at `prefix`; with `names`, only those whose path below the
        prefix mentions one of the field names (callee mod summary).  Dirty entries of writes made by an analysed callee are
        3-tuples (prefix root, steps, names or None = everything)"""
        self.mark_dirty((prefix[0], prefix[1], tuple(sorted(names))) if names is not None else ((prefix[0], prefix[1], None) if by_call else prefix))
        def hit1(pl):
            if not under(pl, prefix):
                return False
            if names is None:
                return True
            rest = pl[1][len(prefix[1]):]
            return any((s in names) for s in rest if isinstance(s, str))

        memo = {}

        def hit(pl):
            r = memo.get(pl)
            if r is None:
                r = hit1(pl)
                if not r:
                    for ip in ix_places(pl):
                        if hit1(ip):
                            r = True
                            break
                memo[pl] = r
            return r
        if self.taint:
            self.taint = frozenset(t for t in self.taint if not hit(term_place(t)))
        if self.lin:
            self.lin = {p: ab for p, ab in self.lin.items() if not hit(p) and not any(x[1] is not None and hit(term_place(x[1])) for x in ab[:2])}
        for t in [t for t in self.iv if hit(term_place(t))]:
            del self.iv[t]
        if self.rel:
            terms = set()
            for k in self.rel:
                terms.add(k[0])
                terms.add(k[1])
            bad = {t for t in terms if hit(term_place(t))}
            if bad:
                for k in [k for k in self.rel if k[0] in bad or k[1] in bad]:
                    del self.rel[k]
        dead = []
        for p, v in self.sym.items():
            if hit(p):
                dead.append(p)
                continue
            if v[0] == "ref":
                continue
            for q in val_places(v):
                if hit(q):
                    dead.append(p)
                    break
        for p in dead:
            if p in self.sym:
                if not hit(p):
                    self.materialise(p)
                del self.sym[p]
        if probe:
            return [p for p in probe if hit(p)]
        return []

    def copy_facts(self, src, dst):
        """struct move/copy: duplicate facts about places under `src` to `dst`"""
        n = len(src[1])

        def mv(pl):
            return (dst[0], dst[1] + pl[1][n:])
        for p, v in list(self.sym.items()):
            if under(p, src):
                self.sym[mv(p)] = v
        if self.taint:
            extra = set()
            for t in self.taint:
                pl = term_place(t)
                if under(pl, src):
                    q = mv(pl)
                    extra.add((t[0], q[0], q[1]))
            if extra:
                self.taint = self.taint | extra
        for t, i in list(self.iv.items()):
            pl = term_place(t)
            if under(pl, src):
                q = mv(pl)
                self.iv[(t[0], q[0], q[1])] = i
        for (a, b), c in list(self.rel.items()):
            pa, pb = term_place(a), term_place(b)
            ua, ub = under(pa, src), under(pb, src)
            if ua or ub:
                qa = mv(pa) if ua else pa
                qb = mv(pb) if ub else pb
                na = (a[0], qa[0], qa[1])
                nb = (b[0], qb[0], qb[1])
                self.rel[(na, nb)] = c
                # the copy equals the original right now
        # equalities between scalar leaves are implied by the duplicated intervals/relations only;
        # add explicit equalities for leaves that had interval facts (cheap and useful for Range ends)
        for t in list(self.iv.keys()):
            pl = term_place(t)
            if under(pl, src) and not under(pl, dst):
                q = mv(pl)
                nt = (t[0], q[0], q[1])
                self.rel[(t, nt)] = min(self.rel.get((t, nt), 0), 0)
                self.rel[(nt, t)] = min(self.rel.get((nt, t), 0), 0)

    def tighten(self):
        """one round of interval propagation along the relations (x - y <= c: hi(x) <= hi(y) + c, lo(y) >= lo(x) - c); the facts
        are implied, so adding them in place is sound.  Done before a join, where a relation that pins an interval on one side
        only would otherwise be averaged away."""
        if self.bottom or not self.rel:
            return
        for (x, y), c in list(self.rel.items()):
            ix, iy = self.iv.get(x, FULL), self.iv.get(y, FULL)
            if iy[1] is not None and (ix[1] is None or iy[1] + c < ix[1]):
                self.iv[x] = (ix[0], iy[1] + c)
                ix = self.iv[x]
            if ix[0] is not None and (iy[0] is None or ix[0] - c > iy[0]):
                self.iv[y] = (ix[0] - c, iy[1])
        for t, i in self.iv.items():
            if i[0] is not None and i[1] is not None and i[0] > i[1]:
                self.bottom = True
                return

    # ---- lattice -----------------------------------------------------------
    def _option_payloads(self, other):
        """`Some(x)` / `Ok(x)` on one side, `None` / `Err(_)` on the other: the payload place does not exist on the second side, so
        what the first side knows about it holds vacuously there.  Returns the two states with the payload facts on both
        (and the value as 'maybe some'), or None when there is nothing to do."""
        todo = []
        for side, oth in ((self, other), (other, self)):
            for p, v in side.sym.items():
                if v[0] == "opt" and v[1] in ("some", "cond") and oth.sym.get(p) == ("opt", "none"):
                    q = None
                    for k in list(side.sym) + [(t[1], t[2]) for t in side.iv if t[0] == "v"]:
                        if k[0] == p[0] and len(k[1]) == len(p[1]) + 2 and k[1][:len(p[1])] == p[1] and isinstance(k[1][len(p[1])], tuple) \
                                and k[1][len(p[1])][0] == "dc" and k[1][-1] == "0":
                            q = k
                    pay = v[2] if v[1] == "some" else v[3]
                    if q is not None and pay is not None and pay[0] == "n":
                        todo.append((side is self, p, q, pay))
        if not todo:
            return None
        a, b = self.copy(), other.copy()
        for first, p, q, pay in todo:
            side, oth = (a, b) if first else (b, a)
            P = ("v", q[0], q[1])
            me = ("n", P, 0)
            if pay[1] != P:
                side.sym.pop(q, None)
                if pay[1] is None:
                    side.set_iv(P, pay[2], pay[2])
                else:
                    side.add_le(me, pay, 0, _lin=False)
                    side.add_le(pay, me, 0, _lin=False)
                    i_ = side.val_iv(pay)
                    side.set_iv(P, i_[0], i_[1])
                    # what the payload's source is related to, said of the payload itself
                    for y in {t for k in side.rel for t in k}:
                        if y == P or y == pay[1]:
                            continue
                        d1 = side.bound_diff(P, y)
                        if d1 is not None and abs(d1) <= (1 << 20):
                            side.rel[(P, y)] = min(d1, side.rel.get((P, y), d1))
                        d2 = side.bound_diff(y, P)
                        if d2 is not None and abs(d2) <= (1 << 20):
                            side.rel[(y, P)] = min(d2, side.rel.get((y, P), d2))
            newv = ("opt", "cond", ("unknown",), me)
            side.sym[p] = newv
            oth.sym[p] = newv
            pref = q[1][:-1]
            for t, i_ in list(side.iv.items()):
                if t[1] == q[0] and t[2][:len(pref)] == pref:
                    oth.iv[t] = i_
            for (x, y), c in list(side.rel.items()):
                if (x[1] == q[0] and x[2][:len(pref)] == pref) or (y[1] == q[0] and y[2][:len(pref)] == pref):
                    oth.rel[(x, y)] = c
            for k, w in list(side.sym.items()):
                if k[0] == q[0] and k[1][:len(pref)] == pref:
                    oth.sym[k] = w
        return a, b

    def join(self, other):
        """least upper bound (in place on a copy); returns new State"""
        if self.bottom:
            return other.copy()
        if other.bottom:
            return self.copy()
        self.tighten()
        other.tighten()
        if self.bottom:
            return other.copy()
        if other.bottom:
            return self.copy()
        pre = self._option_payloads(other)
        if pre is not None:
            return pre[0].join(pre[1])
        s = State()
        s.dirty = self.dirty | other.dirty
        s.taint = self.taint | other.taint
        if self.lin and other.lin:
            s.lin = {p: ab for p, ab in self.lin.items() if other.lin.get(p) == ab}
        # a place that aliases a tainted term on one side only keeps its own taint after the alias is dropped
        if self.taint or other.taint:
            extra = set()
            for side, oth in ((self, other), (other, self)):
                for p, v in side.sym.items():
                    if v[0] == "n" and v[1] is not None and v[1] in side.taint and oth.sym.get(p) != v:
                        extra.add(("v", p[0], p[1]))
            if extra:
                s.taint = s.taint | extra
        # sym: keep equal entries; numeric aliases that differ are turned into intervals
        for p, v in self.sym.items():
            w = other.sym.get(p)
            if w == v:
                s.sym[p] = v
        numeric_places = set()
        for p, v in self.sym.items():
            if p not in s.sym and v[0] in ("n", "iv"):
                numeric_places.add(p)
        for p, v in other.sym.items():
            if p not in s.sym and v[0] in ("n", "iv"):
                numeric_places.add(p)
        for t, a in self.iv.items():
            b = other.iv.get(t)
            if b is None:
                # maybe the other side knows it through an alias
                pl = term_place(t)
                if t[0] == "v" and pl in other.sym and other.sym[pl][0] in ("n", "iv"):
                    b = other.val_iv(other.sym[pl])
                else:
                    continue
            j = iv_join(a, b)
            if j != FULL:
                s.iv[t] = j
        for p in numeric_places:
            t = ("v", p[0], p[1])
            va = self.sym.get(p)
            vb = other.sym.get(p)
            ia = self.val_iv(va) if va is not None else self.iv.get(t, FULL)
            ib = other.val_iv(vb) if vb is not None else other.iv.get(t, FULL)
            j = iv_join(ia, ib)
            if j != FULL:
                s.iv[t] = iv_meet(s.iv.get(t, FULL), j)
        idx_s, idx_o = self._rel_index(), other._rel_index()
        for k, c in self.rel.items():
            d = other.rel.get(k)
            if d is None:
                d = other._alias_bound(k, numeric_places, idx_o)
            if d is not None:
                # the weaker side may hold a stale constant and imply the tighter one through a third term (`len - i <= 0`,
                # `i - start <= -1`, but still `len - start <= 0` from before the cursor moved): ask it before giving in
                if c > d:
                    c2 = self.bound1(k[0], k[1], idx_s)
                    if c2 is not None and c2 < c:
                        c = c2
                elif d > c:
                    d2 = other.bound1(k[0], k[1], idx_o)
                    if d2 is not None and d2 < d:
                        d = d2
                s.rel[k] = max(c, d)
        # relations that only the other side holds explicitly but this side implies through an alias
        for k, d in other.rel.items():
            if k not in self.rel and k not in s.rel:
                c = self._alias_bound(k, numeric_places, idx_s)
                if c is not None:
                    s.rel[k] = max(c, d)
        # relations of dropped numeric aliases: x == t + k on one side, x within relation on the other
        for p in numeric_places:
            xt = ("v", p[0], p[1])
            va, vb = self.sym.get(p), other.sym.get(p)
            cands = set()
            for v in (va, vb):
                if v is not None and v[0] == "n" and v[1] is not None:
                    cands.add(v[1])
            for st in (self, other):
                for (a, b) in st.rel:
                    if a == xt:
                        cands.add(b)
                    if b == xt:
                        cands.add(a)
            # one more hop: what the alias targets themselves are related to  (x = y - 1 on one side, y <= W - 1  ==>  x <= W - 2)
            for v, st in ((va, self), (vb, other)):
                if v is not None and v[0] == "n" and v[1] is not None:
                    for (a, b) in st.rel:
                        if a == v[1]:
                            cands.add(b)
                        if b == v[1]:
                            cands.add(a)
            for t in cands:
                if t == xt:
                    continue
                for (x, y) in ((xt, t), (t, xt)):
                    ca = self._bound_with_alias(x, y, p, va, idx_s)
                    cb = other._bound_with_alias(x, y, p, vb, idx_o)
                    if ca is not None and cb is not None:
                        s.rel[(x, y)] = min(s.rel.get((x, y), max(ca, cb)), max(ca, cb))
        # a place holding different constants on the two sides, each of them below a container length known on that side
        # (`o = 11, len >= 11` joined with `o = 59, len >= 59`): keep  place <= len
        for p in numeric_places:
            xt = ("v", p[0], p[1])
            va, vb = self.sym.get(p), other.sym.get(p)
            ca = va is not None and va[0] == "n" and va[1] is None
            cb = vb is not None and vb[0] == "n" and vb[1] is None
            if not (ca or cb):
                continue
            for t in self.iv:
                if t[0] != "len" or t not in other.iv or (xt, t) in s.rel:
                    continue

                def side(st_, v_, isconst, idx_):
                    if isconst:
                        lo_ = st_.iv[t][0]
                        return None if lo_ is None else v_[2] - lo_
                    if v_ is not None and v_[0] == "n" and v_[1] is not None:
                        d_ = st_.bound1(v_[1], t, idx_)
                        return None if d_ is None else d_ + v_[2]
                    return st_.bound1(xt, t, idx_)
                da, db = side(self, va, ca, idx_s), side(other, vb, cb, idx_o)
                if da is None or db is None:
                    continue
                d = max(da, db)
                if d > 65536:
                    continue            # nothing beyond what the type ranges say
                hi = s.iv.get(xt, FULL)[1]
                lo = s.iv.get(t, FULL)[0]
                if hi is None or lo is None or hi - lo > d:
                    s.rel[(xt, t)] = d
        # terms that are one constant on this side and another constant on the other side (a counter and a length after the
        # first trip round a loop: 0/0 joined with 1/1) keep their difference:  x - y <= max over the two sides
        def singles(st_):
            out = {}
            for t_, a_ in st_.iv.items():
                if a_[0] is not None and a_[0] == a_[1] and t_[0] in ("v", "len"):
                    out[t_] = a_[0]
            for p_, v_ in st_.sym.items():
                if v_[0] == "n" and v_[1] is None:
                    out[("v", p_[0], p_[1])] = v_[2]
            return out
        sa, sb = singles(self), singles(other)
        chg = [(t, a, sb[t]) for t, a in sa.items() if t in sb and sb[t] != a]
        if 2 <= len(chg) <= 6 and not os.environ.get('VERIF_NO_CHG'):
            for (x, xa, xb) in chg:
                for (y, ya, yb) in chg:
                    if x != y and (x, y) not in s.rel:
                        s.rel[(x, y)] = max(xa - ya, xb - yb)
        # boolean flag correlation: a local that is the constant true on one side and false on the other remembers
        # the facts that distinguish the two sides ("is_short == true  =>  ch <= 255 ...")
        for p in set(self.sym) | set(other.sym):
            if p[1]:
                continue
            a, b = self.sym.get(p), other.sym.get(p)
            va, vb = _bool_const(a), _bool_const(b)
            ga = a[1] if (a is not None and a[0] == "b" and a[1][0] == "guarded") else None
            gb = b[1] if (b is not None and b[0] == "b" and b[1][0] == "guarded") else None
            if ga is not None and gb is not None:
                s.sym[p] = ("b", ("guarded", tuple(x for x in ga[1] if x in gb[1]), tuple(x for x in ga[2] if x in gb[2])))
                continue
            if (ga is not None and vb is not None) or (gb is not None and va is not None):
                gg, vv, side = (ga, vb, other) if ga is not None else (gb, va, self)
                extra = _diff_facts(side, s, p)
                if vv == 0:
                    s.sym[p] = ("b", ("guarded", gg[1], tuple(x for x in gg[2] if x in extra)))
                else:
                    s.sym[p] = ("b", ("guarded", tuple(x for x in gg[1] if x in extra), gg[2]))
                continue
            # `let ok = a && b && c;` leaves `ok = false` on the paths where a conjunct failed and `ok = <last comparison>` on
            # the path where all the others held: ok == true then means that path was taken and the comparison held too
            ca = a[1] if (a is not None and a[0] == "b" and isinstance(a[1], tuple) and a[1] and a[1][0] == "cmp") else None
            cb = b[1] if (b is not None and b[0] == "b" and isinstance(b[1], tuple) and b[1] and b[1][0] == "cmp") else None
            if (ca is not None and vb == 0) or (cb is not None and va == 0):
                cc, side = (ca, self) if ca is not None else (cb, other)
                facts = list(_diff_facts(side, s, p))
                op_, x_, y_ = cc[1], cc[2], cc[3]
                if x_[0] in ("n", "iv") and y_[0] in ("n", "iv") and x_[0] == "n" and y_[0] == "n":
                    tr = {"Lt": (x_, y_, -1), "Le": (x_, y_, 0), "Gt": (y_, x_, -1), "Ge": (y_, x_, 0)}.get(op_)
                    if tr is not None:
                        facts.append(tr)
                s.sym[p] = ("b", ("guarded", tuple(facts), ()))
                continue
            if va is None or vb is None or va == vb:
                continue
            fa, fb = _diff_facts(self, s, p), _diff_facts(other, s, p)
            if va == 1:
                s.sym[p] = ("b", ("guarded", tuple(fa), tuple(fb)))
            else:
                s.sym[p] = ("b", ("guarded", tuple(fb), tuple(fa)))
        return s

    def prune_dead(self, live, nparams):
        """drop what is only about dead temporaries: locals that are not live here, are not parameters / the return place,
        and are not referenced (pointer, alias, condition, remembered sum) by anything that is kept.  Before a dead term
        goes, the relations it mediates between two kept terms are composed (a - d <= c1, d - b <= c2  =>  a - b <= c1 + c2)."""
        if self.bottom:
            return

        def root_ok(r):
            return not isinstance(r, int) or r <= nparams or r in keep
        keep = set(live)
        # closure over what kept places mention
        changed = True
        while changed:
            changed = False
            for p, v in self.sym.items():
                if root_ok(p[0]):
                    for q in val_places(v):
                        if isinstance(q[0], int) and q[0] > nparams and q[0] not in keep:
                            keep.add(q[0])
                            changed = True
                    for ip in ix_places(p):
                        if isinstance(ip[0], int) and ip[0] > nparams and ip[0] not in keep:
                            keep.add(ip[0])
                            changed = True
            for p, ab in self.lin.items():
                if root_ok(p[0]):
                    for x in ab[:2]:
                        if x[1] is not None:
                            q = term_place(x[1])
                            if isinstance(q[0], int) and q[0] > nparams and q[0] not in keep:
                                keep.add(q[0])
                                changed = True
                elif len(ab) == 3 and ab[2] == "+" and isinstance(p[0], int) and not p[1]:
                    # a dead temporary that witnesses a sum of two kept values (`if a + b > len {..}` ... `a += b`): what is
                    # known about it is the only way the zone domain can say anything about a + b, so it stays while its operands do
                    if all(x[1] is None or root_ok(term_place(x[1])[0]) for x in ab[:2]) and any(k[0] == ("v", p[0], ()) or k[1] == ("v", p[0], ()) for k in self.rel):
                        keep.add(p[0])
                        changed = True

        def dead_term(t):
            pl = term_place(t)
            if not root_ok(pl[0]):
                return True
            for ip in ix_places(pl):
                if not root_ok(ip[0]):
                    return True
            return False
        terms = set(self.iv)
        for k in self.rel:
            terms.add(k[0])
            terms.add(k[1])
        dead = {t for t in terms if dead_term(t)}
        if dead:
            if self.rel:
                # eliminate the dead terms one after the other (so that chains through several dead terms are composed too)
                succ_, pred_ = {}, {}
                for (a, b), c in self.rel.items():
                    succ_.setdefault(a, {})[b] = c
                    pred_.setdefault(b, {})[a] = c
                for d in sorted(dead, key=repr):
                    ia = pred_.pop(d, {})
                    ob = succ_.pop(d, {})
                    ia.pop(d, None)
                    ob.pop(d, None)
                    iv_d = self.iv.get(d, FULL)
                    for a, c1 in ia.items():
                        succ_.get(a, {}).pop(d, None)
                        if iv_d[1] is not None and a not in dead:
                            self.set_iv(a, None, iv_d[1] + c1)
                    for b, c2 in ob.items():
                        pred_.get(b, {}).pop(d, None)
                        if iv_d[0] is not None and b not in dead:
                            self.set_iv(b, iv_d[0] - c2, None)
                    if ia and ob and len(ia) * len(ob) <= 100:
                        for a, c1 in ia.items():
                            for b, c2 in ob.items():
                                if a != b:
                                    cur = succ_.get(a, {}).get(b)
                                    if cur is None or c1 + c2 < cur:
                                        succ_.setdefault(a, {})[b] = c1 + c2
                                        pred_.setdefault(b, {})[a] = c1 + c2
                self.rel = {(a, b): c for a, m in succ_.items() if a not in dead for b, c in m.items() if b not in dead}
            for t in [t for t in self.iv if t in dead]:
                del self.iv[t]
        for p in [p for p in self.sym if not root_ok(p[0])]:
            del self.sym[p]
        if self.lin:
            self.lin = {p: ab for p, ab in self.lin.items() if root_ok(p[0])}
        if self.taint:
            self.taint = frozenset(t for t in self.taint if not dead_term(t))

    def meet_facts(self, other):
        """conjunction of two sound descriptions of the same program point: `self` (kept as the base: its aliases, dirty and
        taint sets are sound on their own) strengthened with the intervals, relations, aliases and remembered sums of `other`.
        Returns `self`'s copy unchanged if the conjunction looks contradictory."""
        if self.bottom or other.bottom:
            return self.copy()
        s = self.copy()
        for t, b in other.iv.items():
            a = s.iv.get(t, FULL)
            m = iv_meet(a, b)
            if iv_empty(m):
                return self.copy()
            if m != FULL:
                s.iv[t] = m
        for k, d in other.rel.items():
            c = s.rel.get(k)
            if c is None or d < c:
                s.rel[k] = d
        # (aliases of `other` are not taken over: which alias a place is read through decides which relations are found)
        for p, ab in other.lin.items():
            if p not in s.lin:
                s.lin[p] = ab
        return s

    def _bound_with_alias(self, x, y, p, alias, idx=None):
        """bound on x - y where the place p may be known only through its alias value"""
        if idx is None:
            idx = self._rel_index()
        xt = ("v", p[0], p[1])
        if alias is not None and alias[0] == "n":
            if x == xt:
                d = self.bound1(alias[1], y, idx)
                return None if d is None else d + alias[2]
            if y == xt:
                d = self.bound1(x, alias[1], idx)
                return None if d is None else d - alias[2]
        return self.bound1(x, y, idx)

    def _alias_bound(self, k, numeric_places, idx=None):
        a, b = k
        return self.bound1(a, b, idx if idx is not None else self._rel_index())

    def widen(self, new, thresholds, strict=False):
        """self = old state at a loop head, new = joined state; returns widened state.
        strict: keep only relations the old state *holds* (not those it merely implies through other relations or intervals).
        Two relations that imply each other through a third term can otherwise keep each other alive for ever, each re-derived
        with a constant one larger than the one just dropped (found by a behaviour-preserving refactoring of SauceString::read);
        the solver switches to strict after a few widenings of the same head."""
        if self.bottom:
            return new.copy()
        s = State()
        s.dirty = self.dirty | new.dirty
        s.taint = self.taint | new.taint
        if self.lin and new.lin:
            s.lin = {p: ab for p, ab in new.lin.items() if self.lin.get(p) == ab}
        s.sym = {p: v for p, v in new.sym.items() if self.sym.get(p) == v}
        for t, b in new.iv.items():
            a = self.iv.get(t)
            if a is None:
                continue
            lo, hi = b
            if a[0] is None or (lo is not None and lo < a[0]):
                if lo is not None:
                    cands = [x for x in thresholds if x <= lo]
                    lo = max(cands) if cands else None
            if lo is None or a[0] is None:
                lo = None
            if a[1] is None or (hi is not None and hi > a[1]):
                if hi is not None:
                    cands = [x for x in thresholds if x >= hi]
                    hi = min(cands) if cands else None
            if hi is None or a[1] is None:
                hi = None
            if (lo, hi) != FULL:
                s.iv[t] = (lo, hi)
        idx = None
        for k, d in new.rel.items():
            c = self.rel.get(k)
            if c is None and strict:
                continue
            if c is None:
                # the old state may imply the relation without holding it (a place that was still a constant there)
                if idx is None:
                    idx = self._rel_index()
                c = self.bound1(k[0], k[1], idx)
                if c is None:
                    ia, ib = self._term_iv(k[0]), self._term_iv(k[1])
                    if ia[1] is not None and ib[0] is not None:
                        c = ia[1] - ib[0]
                if c is not None and c > (1 << 20):
                    c = None
            if c is not None and d <= c:
                s.rel[k] = c
        return s

    def _term_iv(self, t):
        a = self.iv.get(t)
        if a is not None:
            return a
        if t[0] == "v":
            v = self.sym.get(term_place(t))
            if v is not None and v[0] in ("n", "iv"):
                return self.val_iv(v)
        return FULL

    def leq(self, other):
        """self ⊑ other (other is at least as weak)"""
        if self.bottom:
            return True
        if other.bottom:
            return False
        if not (self.dirty <= other.dirty):
            return False
        if not (self.taint <= other.taint):
            return False
        for p, ab in other.lin.items():
            if self.lin.get(p) != ab:
                return False
        for p, v in other.sym.items():
            if self.sym.get(p) != v:
                return False
        for t, b in other.iv.items():
            a = self.iv.get(t)
            if a is None:
                pl = term_place(t)
                v = self.sym.get(pl)
                if t[0] == "v" and v is not None and v[0] in ("n", "iv"):
                    a = self.val_iv(v)
                else:
                    return False
            if not iv_within(a, b):
                return False
        for k, d in other.rel.items():
            c = self.rel.get(k)
            if c is None:
                c = self.bound_diff(k[0], k[1], depth=1)
            if c is None or c > d:
                return False
        return True

"""Parameter-relative write sets (an effect analysis over MIR).

W[body][param] = set of access paths (tuples of field names, relative to what the reference parameter points to) that the
body may write through that parameter: direct stores, std mutators applied to a place (`Vec::push(&mut p.a.b)`, `mem::swap`),
and -- through a fix-point over the call graph -- writes of callees (dyn calls: all implementations) mapped through the
actual argument's path.  Index / deref steps are dropped from paths, enum downcasts are kept as `<Variant>`.  Paths are cut to
MAXLEN names.  Writes through references whose origin cannot be traced to a parameter are recorded under param 0 ("unknown")."""
from .interproc import Interproc, is_mut_ref

MAXLEN = 6
PURE_STD = ("len", "is_empty", "get", "first", "last", "iter", "contains", "clone", "as_ref", "as_slice", "as_str", "deref", "borrow", "eq", "ne",
            "cmp", "partial_cmp", "fmt", "to_string", "to_owned", "to_vec", "capacity", "starts_with", "ends_with", "index", "lock", "unwrap",
            "expect", "ok", "is_some", "is_none", "is_ok", "is_err", "get_mut", "index_mut", "deref_mut", "as_mut", "iter_mut", "as_mut_slice",
            "last_mut", "first_mut", "borrow_mut", "by_ref", "into_iter", "enumerate", "rev", "unwrap_or", "branch", "from_residual", "map")
# get_mut/index_mut/deref_mut/... only *produce* a mutable reference: the write happens where that reference is used


def _names(steps):
    out = []
    for s in steps:
        if s == "*":
            continue
        if isinstance(s, tuple):
            if s[0] == "dc":
                out.append("<%s>" % s[1])
            continue
        out.append(s)
    return tuple(out[:MAXLEN])


class Effects:
    def __init__(self, facts, cg, cut=None):
        self.f = facts
        self.cg = cg
        self.cut = cut                        # optional predicate on callee paths: their effects are not propagated
        self.ip = Interproc(facts, cg)       # only its reference resolvers / callee resolution are used
        self.W = {}
        self.compute()

    def _place_path(self, b, pj):
        """(param, path names) of a place reached through a dereference, or None"""
        r = self.ip._resolve_place(b, pj)
        if r is None:
            return None
        return (r[0] if r[0] is not None else 0, _names(r[1]))

    def _ref_path(self, b, op):
        """where does a reference-typed operand point?  (param, path) or None"""
        pj = op.get("copy") or op.get("move")
        if pj is None:
            return None
        if "p" in pj and pj["p"]:
            # e.g. `move (*_1).field` holding a reference: treat as the place it is stored in (conservative: its contents)
            r = self.ip._resolve_place(b, pj)
        else:
            r = self.ip._resolve_ref(b, pj["l"])
        if r is None:
            return None
        return (r[0] if r[0] is not None else 0, _names(r[1]))

    def own(self, b):
        w = {}
        for bi, k, s in b.stmts():
            if s["k"] not in ("assign", "setdiscr"):
                continue
            pj = s["p"]
            proj = pj.get("p", [])
            if "*" not in proj:
                continue
            pp = self._place_path(b, pj)
            if pp is None:
                w.setdefault(0, set()).add(("?",))
                continue
            w.setdefault(pp[0], set()).add(pp[1])
        return w

    def compute(self):
        bodies = {bid: b for bid, b in self.f.bodies.items() if b.kind in ("fn", "method", "closure")}
        W = {bid: self.own(b) for bid, b in bodies.items()}
        T = self.f.types
        changed = True
        rounds = 0
        while changed and rounds < 60:
            changed = False
            rounds += 1
            for bid, b in bodies.items():
                w = W[bid]
                for bi, t in b.calls():
                    c = t["callee"]
                    path = c.get("resolved") or c.get("path") or ""
                    nm = path.split("::")[-1]
                    if self.cut is not None and self.cut(path):
                        continue
                    cands = [x for x in self.ip.callee_ids(b, t) if x in W]
                    for ai, a in enumerate(t["args"]):
                        pj = a.get("copy") or a.get("move")
                        if pj is None:
                            continue
                        aty = self.ip.an_place_type(b, pj)
                        if aty is None:
                            continue
                        ty = T[aty]
                        if ty["k"] == "closure" and ty["def"] in W:
                            # captured references: the closure's env is its param 1; its captures were built from places of b
                            cw = W[ty["def"]]
                            for cp, paths in cw.items():
                                if cp == 0:
                                    for p in paths:
                                        if p not in w.setdefault(0, set()):
                                            w[0].add(p)
                                            changed = True
                            # writes through captured upvars: resolve via the closure aggregate's operands
                            changed |= self._closure_writes(b, pj, ty["def"], W, w)
                            continue
                        if not is_mut_ref(ty):
                            continue
                        rp = self._ref_path(b, a)
                        if cands:
                            for cid in cands:
                                for p in W[cid].get(ai + 1, ()):
                                    tgt = rp if rp is not None else (0, ("?",))
                                    full = (tgt[1] + p)[:MAXLEN]
                                    if full not in w.setdefault(tgt[0], set()):
                                        w[tgt[0]].add(full)
                                        changed = True
                                for p in W[cid].get(0, ()):
                                    if p not in w.setdefault(0, set()):
                                        w[0].add(p)
                                        changed = True
                        else:
                            if nm in PURE_STD:
                                continue
                            tgt = rp if rp is not None else (0, ("?",))
                            if tgt[1] not in w.setdefault(tgt[0], set()):
                                w[tgt[0]].add(tgt[1])
                                changed = True
        self.W = W
        self.rounds = rounds

    def _closure_writes(self, b, pj, cdef, W, w):
        """map the closure body's writes through its environment (param 1, field k) to the places captured by reference"""
        changed = False
        cw = W.get(cdef, {}).get(1)
        if not cw:
            return False
        # find the aggregate that built the closure value
        l = pj["l"]
        ds = b.defs.get(l, [])
        caps = None
        for bi, k in ds:
            if k == "term":
                continue
            s = b.blocks[bi]["stmts"][k]
            if s["rv"]["k"] == "agg" and s["rv"].get("ak") == "closure":
                caps = s["rv"].get("ops", [])
        if caps is None:
            return False
        for p in cw:
            # p = (capture field name = index, rest...)
            if not p:
                continue
            try:
                idx = int(p[0])
            except ValueError:
                continue
            if idx >= len(caps):
                continue
            rp = self._ref_path(b, caps[idx])
            if rp is None:
                # captured by value / from a local: not visible to b's callers
                continue
            full = (rp[1] + p[1:])[:MAXLEN]
            if full not in w.setdefault(rp[0], set()):
                w[rp[0]].add(full)
                changed = True
        return changed

"""Models of std / core / alloc calls for the abstract interpreter: value of the result, effect on the
arguments' places, and the panic obligations (sink classes S2..S7) each API documents.

The table is the frozen panic-API table of DESIGN §3.2 in executable form.  Anything not modelled is
treated as: result unknown, every `&mut` argument's pointee forgotten, no panic (trusted base: documented
panicking APIs are the ones listed here; cross-checked in the thorough tier against `# Panics` doc sections)."""
import re

from .absdom import FULL, TOP, iv_meet, under, term_place
from .absint import GOOD_VARIANT, LEN_MAX, PANIC_FN, is_mut_ref

MODELS = []
_CACHE = {}


def model(*patterns):
    def deco(fn):
        for p in patterns:
            MODELS.append((re.compile(p), fn))
        return fn
    return deco


def lookup(path):
    if path in _CACHE:
        return _CACHE[path]
    h = None
    for rx, fn in MODELS:
        if rx.search(path):
            h = fn
            break
    _CACHE[path] = h
    return h


class Ctx:
    __slots__ = ("an", "st", "bi", "t", "path", "args", "dest", "callee", "dest_tix", "raws")

    def raw(self, i):
        """argument value before reduction (keeps signed->unsigned cast provenance)"""
        v = self.raws[i][0]
        if v[0] == "pending":
            v = v[1]
        if v[0] in ("sum", "diff", "rem", "quot"):
            v = v[1]
        if v[0] in ("n", "iv", "nw"):
            return v
        return self.num(i)

    def place_of(self, i):
        """place a reference argument points to, or None"""
        v = self.args[i][0]
        if v[0] == "ref" and v[1] is not None and not isinstance(v[1], str):
            return (v[1], v[2])
        return None

    def pointee_tix(self, i):
        t = self.args[i][1]
        return self.an.pointee(t) if t is not None else None

    def len_of(self, i):
        """length value of the container argument i (by reference) — or of a by-value container"""
        v, tix = self.args[i]
        if v[0] == "strlit":
            return ("n", None, v[1])
        if v[0] == "constdef":
            cinfo = self.an.f.consts.get(v[1])
            if cinfo is not None and "slice_len" in cinfo:
                return ("n", None, cinfo["slice_len"])
        if v[0] == "ref" and isinstance(v[1], str) and v[1].startswith("arr:") and not v[2]:
            return ("n", None, int(v[1][4:]))
        if v[0] == "ref" and isinstance(v[1], str) and v[1].startswith("promoted:") and not v[2]:
            pv = self.an.promoted_value(self.st, v[1][len("promoted:"):])
            if pv is not None:
                return pv
        pl = self.place_of(i)
        if pl is not None and pl[1] == ("*",):
            base = self.st.sym.get((pl[0], ()))
            if base is not None and base[0] == "constdef":
                cinfo = self.an.f.consts.get(base[1])
                if cinfo is not None and "slice_len" in cinfo:
                    return ("n", None, cinfo["slice_len"])
        if pl is not None:
            return self.an.len_val(self.st, pl, self.pointee_tix(i))
        if v[0] == "ref" and isinstance(v[1], str):
            # reference to a static: array length from the type
            pt = self.pointee_tix(i)
            if pt is not None and self.an.T[pt]["k"] == "array":
                return ("n", None, self.an.T[pt]["len"])
        if tix is not None and self.an.T[tix]["k"] == "array":
            return ("n", None, self.an.T[tix]["len"])
        # a reference of unknown origin to an array: the length is in the type
        pt = self.pointee_tix(i)
        if pt is not None and self.an.T[pt]["k"] == "array" and self.an.T[pt].get("len") is not None:
            return ("n", None, self.an.T[pt]["len"])
        return ("iv", 0, LEN_MAX)

    def num(self, i):
        v = self.args[i][0]
        if v[0] in ("n", "iv"):
            return v
        if v[0] == "b":
            return ("iv", 0, 1)
        if v[0] in ("sum", "diff", "rem", "quot"):
            return v[1]
        r = self.an.ty_range(self.args[i][1]) if self.args[i][1] is not None else None
        return ("iv", r[0], r[1]) if r else ("iv", None, None)

    def deref_num(self, i):
        """numeric value behind a `&int` argument"""
        pl = self.place_of(i)
        if pl is None:
            pt = self.pointee_tix(i)
            r = self.an.ty_range(pt) if pt is not None else None
            return ("iv", r[0], r[1]) if r else ("iv", None, None)
        v = self.st.sym.get(pl)
        if v is not None and v[0] in ("n", "iv"):
            return v
        pt = self.pointee_tix(i)
        r = self.an.ty_range(pt) if pt is not None else None
        if r is None:
            return ("iv", None, None)
        t = ("v", pl[0], pl[1])
        self.st.set_iv(t, r[0], r[1])
        return ("n", t, 0)

    def oblige(self, cls, ok, rule, what, lift=None, trust=None, tag=""):
        self.an.oblige(self.bi, cls, ok, rule, self.an.describe(self.t) + tag, self.t, what, lift, trust)

    def dest_place(self):
        c = self.an.canon(self.st, self.dest)
        return None if c is None else (c[0], c[1])

    def fresh_term(self, *suffix):
        """a term rooted at the destination local (valid until the destination is reassigned)"""
        d = self.dest_place()
        if d is None:
            return None
        return ("v", d[0], d[1] + tuple(suffix))

    def targ(self, i):
        ta = self.callee.get("targs", [])
        return ta[i] if i < len(ta) else None


# ----------------------------------------------------------------------------- C03: magnitude sinks
MAG_ALLOC = [(re.compile(r"^std::vec::Vec::<T, A>::(resize|resize_with|reserve|reserve_exact)$"), 1, "allocation"),
             (re.compile(r"^std::collections::VecDeque::<T, A>::(resize|reserve)$"), 1, "allocation"),
             (re.compile(r"^std::vec::Vec::<T>::with_capacity$|^std::string::String::with_capacity$|^std::collections::VecDeque::<T>::with_capacity$"), 0, "allocation"),
             (re.compile(r"^std::vec::from_elem$"), 1, "allocation"),
             (re.compile(r"^std::str::<impl str>::repeat$|^std::slice::<impl \[T\]>::repeat$"), 1, "allocation")]
MAG_DIM = re.compile(r"^(buffers::Buffer|layer::Layer|terminal_state::TerminalState|<buffers::Buffer as TextPane>|<layer::Layer as TextPane>)::(set_size|set_width|set_height)$"
                     r"|^layer::Layer::new$|^buffers::Buffer::(new|create)$|^line::Line::(create|with_capacity)$|^terminal_state::TerminalState::from$"
                     r"|^<terminal_state::TerminalState as std::convert::From<\w*>>::from$")
MAG_LOOP_CONSUME = re.compile(r"^std::iter::Iterator::(for_each|fold|try_for_each|map|count|sum|collect|last)$")
RANGE_TY = re.compile(r"^(std|core)::ops::(Range|RangeInclusive)<(u8|u16|u32|u64|usize|i8|i16|i32|i64|isize)>$|^std::iter::Rev<std::ops::(Range|RangeInclusive)<\w+>>$")


def _range_trip(c, i):
    """(value that bounds the trip count of the Range argument i, text) or None"""
    v, tix = c.args[i]
    if tix is None or not RANGE_TY.match(c.an.T[tix]["s"]):
        return None
    op = c.t["args"][i]
    pj = op.get("copy") or op.get("move")
    if pj is None:
        return None
    can = c.an.canon(c.st, pj)
    if can is None:
        return None
    base = (can[0], can[1])
    if c.an.T[tix]["s"].startswith("std::iter::Rev"):
        base = (base[0], base[1] + ("iter",))

    def fld(nm):
        pl = (base[0], base[1] + (nm,))
        sv = c.st.sym.get(pl)
        if sv is not None and sv[0] in ("n", "iv"):
            return sv
        return ("n", ("v", pl[0], pl[1]), 0)
    s_, e_ = fld("start"), fld("end")
    si = c.st.val_iv(s_)
    tnt = c.an.mag_tainted(c.st, e_) or c.an.mag_tainted(c.st, s_)
    if s_[0] == "n" and s_[1] is None and e_[0] == "n":
        return ("n", e_[1], e_[2] - s_[2]), tnt
    # relational: end - start
    d = None
    if s_[0] == "n" and e_[0] == "n" and s_[1] is not None and e_[1] is not None:
        d = c.st.bound_diff(e_[1], s_[1])
        if d is not None:
            d = d + e_[2] - s_[2]
            if d <= c.an.MAG_LIMIT:
                return ("iv", None, d), tnt
    # start >= -2^16: the count is at most end + 2^16, so the end decides (it may be bounded by a relation to a dimension, which
    # the numeric difference above - often just hi(end) - lo(start) - does not show)
    if si[0] is not None and si[0] >= -65536:
        return (e_ if e_[0] == "n" else ("iv", None, c.st.val_iv(e_)[1])), tnt
    return ("iv", None, d), tnt


def mag_sinks(c):
    an, st, path = c.an, c.st, c.path
    for rx, ai, what in MAG_ALLOC:
        if rx.match(path) and ai < len(c.args):
            an.mag_sink(st, c.bi, c.t, c.raw(ai), "%s size %s is not bounded by a constant, a length or a screen dimension" % (what, an.vs(c.num(ai))))
            return
    if path == "<I as std::iter::IntoIterator>::into_iter" or MAG_LOOP_CONSUME.match(path):
        if c.args:
            r = _range_trip(c, 0)
            if r is not None:
                v, tnt = r
                an.mag_sink(st, c.bi, c.t, v, "loop count %s is not bounded by a constant, a length or a screen dimension" % an.vs(v), tainted=tnt)
        return
    callee = c.callee.get("resolved") or path
    if MAG_DIM.match(callee):
        ip = an.interproc
        for i, (v, tix) in enumerate(c.args):
            if tix is None:
                continue
            ty = an.T[tix]
            if ty["k"] == "int":
                an.mag_sink(st, c.bi, c.t, c.raw(i), "dimension argument %s is not bounded by a constant, a length or a screen dimension" % an.vs(c.num(i)),
                            desc=an.describe(c.t) + " #arg%d" % i)
            elif ty["k"] in ("adt", "tuple") and ip is not None:
                op = c.t["args"][i]
                pj = op.get("copy") or op.get("move")
                can = an.canon(st, pj) if pj is not None else None
                if can is None:
                    continue
                for steps, ft in ip._num_leaves(tix):
                    if isinstance(ft, tuple) or an.T[ft]["k"] != "int":
                        continue
                    pl = (can[0], can[1] + steps)
                    sv = st.sym.get(pl)
                    val = sv if (sv is not None and sv[0] in ("n", "iv")) else ("n", ("v", pl[0], pl[1]), 0)
                    an.mag_sink(st, c.bi, c.t, val, "dimension %s = %s is not bounded by a constant, a length or a screen dimension" % (".".join(map(str, steps)), an.vs(val)),
                                desc=an.describe(c.t) + " #arg%d.%s" % (i, ".".join(map(str, steps))))


def do_call(an, st, bi, t):
    if not an.mag:
        return _do_call(an, st, bi, t)
    # C03: taint of the result
    path = t["callee"].get("resolved") or t["callee"].get("path") or ""
    src = False
    if an.mag_calls is not None and an.mag_calls(path, t):
        src = True
    elif an.mag_prop is not None and an.mag_prop.search(path):
        flags = []
        for o in t["args"]:
            tn = False
            if "copy" in o or "move" in o:
                ov, _ = an.eval_op_raw(st, o)
                if an.mag_tainted(st, ov):
                    tn = True
                else:
                    pj = o.get("copy") or o.get("move")
                    cn = an.canon(st, pj)
                    if cn is not None and an.term_tainted(st, ("v", cn[0], cn[1])):
                        tn = True
            flags.append(tn)
        last = path.rsplit("::", 1)[-1]
        if last == "min" and len(flags) == 2:
            # min(x, B) <= B: the magnitude is that of an operand which does not come from the input
            src = all(flags)
        elif last == "clamp" and len(flags) == 3:
            src = flags[1] or flags[2]
        else:
            src = any(flags)
    outs = _do_call(an, st, bi, t)
    if src:
        for _, s2 in outs:
            cn = an.canon(s2, t["dest"])
            if cn is not None:
                tt = ("v", cn[0], cn[1])
                if not an.mag_bounded(s2, ("n", tt, 0), deep=False):
                    s2.taint = s2.taint | {tt}
    return outs


def _do_call(an, st, bi, t):
    c = t["callee"]
    path = c.get("resolved") or c.get("path") or "indirect"
    target = t.get("target")
    ctx = Ctx()
    ctx.an, ctx.st, ctx.bi, ctx.t, ctx.path, ctx.callee = an, st, bi, t, path, c
    ctx.dest = t["dest"]
    ctx.raws = [an.eval_op_raw(st, a) for a in t["args"]]
    ctx.args = []
    for (rv, rt) in ctx.raws:
        v = rv
        if v[0] == "pending":
            v = v[1]
        if v[0] in ("sum", "diff", "rem", "quot"):
            v = v[1]
        if v[0] == "nw":
            v = an.reduce_nw(st, v, rt)
        ctx.args.append((v, rt))
    ctx.dest_tix = an.place_type(t["dest"])
    if an.collect and an.watch is not None and an.watch(path):
        an.res.call_states[bi] = [(v, tix, st.val_iv(v) if v[0] in ("n", "iv") else None) for (v, tix) in ctx.args]
    if an.mag and an.collect:
        mag_sinks(ctx)
    # explicit panics ------------------------------------------------------------
    if PANIC_FN.search(path) or (target is None and not c.get("resolved_local") and "process::exit" not in path and "process::abort" not in path
                                 and re.search(r"panic|unreachable|abort|fail", path)):
        kind = "panic"
        for m in (t.get("exp") or []):
            for nm in ("assert_eq", "assert_ne", "assert", "todo", "unimplemented", "unreachable", "panic", "debug_assert"):
                if nm + "!" in m or m.endswith(nm) or ("`%s`" % nm) in m or m == "macro " + nm:
                    kind = nm
                    break
            if kind != "panic":
                break
        parts = an.panic_guard(bi, parts=True) if an.collect else None
        if parts and len(parts) > 1 and len({l for _, l in parts}) == len(parts):
            # `assert!(a && b)`: one obligation per way into the panic block, so that a caller which establishes one
            # conjunct and not the other is told apart from a caller which establishes neither
            for g, label in parts:
                ctx.oblige("S5", False, None, "explicit %s! reachable unless %s" % (kind, label), ("cond", g), tag=" #" + label)
            return []
        lift = None
        if parts:
            g = parts[0][0] if len(parts) == 1 else ("and",) + tuple(c for c, _ in parts)
            lift = ("cond", g)
        ctx.oblige("S5", False, None, "explicit %s! reachable" % kind, lift)
        return []
    if an.interproc is not None:
        for i, (v, tix) in enumerate(ctx.args):
            if tix is not None and an.T[tix]["k"] == "closure":
                an.interproc.check_closure_call(an, ctx, i)
    local = c.get("resolved_local") if c.get("resolved") else c.get("local")
    val = None
    handled = False
    if not local or lookup(path) is not None:
        h = lookup(path)
        if h is not None:
            val = h(ctx)
            handled = True
    if not handled:
        val = None
        done = False
        if an.interproc is not None:
            r = an.interproc.apply_call(an, ctx)
            if r is not NotImplemented:
                val = r
                done = True
        if not done:
            default_effects(ctx)
    if st.bottom:
        return []
    if target is None:
        return []
    # destination
    if val == "stored":
        return [(target, st)]
    dpl = an.canon(st, ctx.dest)
    if val is None or val == TOP:
        if dpl is not None:
            st.kill((dpl[0], dpl[1]), whole_local=not dpl[1])
        else:
            an.assign(st, ctx.dest, TOP)
        return [(target, st)]
    if val[0] in ("sum", "diff", "rem", "quot"):
        an.assign_typed(st, ctx.dest, val, {"k": "call"})
    else:
        an.assign(st, ctx.dest, val)
    return [(target, st)]


def default_effects(ctx, keep_len=False):
    """unknown callee: every `&mut` argument's pointee is forgotten"""
    for i, (v, tix) in enumerate(ctx.args):
        if tix is None:
            continue
        ty = ctx.an.T[tix]
        if is_mut_ref(ty) or (ty["k"] in ("ref", "ptr") and _interior_mut(ctx.an, ty)):
            pl = ctx.place_of(i)
            if pl is not None:
                ctx.st.kill_under(pl)


def _interior_mut(an, ty):
    s = ty["s"]
    return ("Cell<" in s) or ("Mutex<" in s) or ("Atomic" in s) or ("RwLock<" in s)


# =========================================================================== lengths
@model(r"^std::vec::Vec::<T, A>::len$", r"^core::slice::<impl \[T\]>::len$", r"^core::str::<impl str>::len$",
       r"^std::string::String::len$", r"^std::collections::VecDeque::<T, A>::len$", r"^core::array::<impl \[T; N\]>::len$")
def m_len(c):
    return c.len_of(0)


@model(r"^std::vec::Vec::<T, A>::is_empty$", r"^core::slice::<impl \[T\]>::is_empty$", r"^core::str::<impl str>::is_empty$",
       r"^std::string::String::is_empty$", r"^std::collections::VecDeque::<T, A>::is_empty$")
def m_is_empty(c):
    return ("b", ("cmp", "Eq", c.len_of(0), ("n", None, 0)))


# views of the same storage (length preserved)
@model(r"^<std::vec::Vec<T, A> as std::ops::Deref>::deref$", r"^<std::vec::Vec<T, A> as std::ops::DerefMut>::deref_mut$",
       r"^std::vec::Vec::<T, A>::as_slice$", r"^std::vec::Vec::<T, A>::as_mut_slice$", r"^std::string::String::as_str$",
       r"^<std::string::String as std::ops::Deref>::deref$", r"^std::string::String::as_bytes$", r"^core::str::<impl str>::as_bytes$",
       r"^<std::vec::Vec<T, A> as std::convert::AsRef<\[T\]>>::as_ref$", r"^<std::vec::Vec<T, A> as std::borrow::Borrow<\[T\]>>::borrow$",
       r"^std::string::String::as_mut_str$", r"^core::str::<impl str>::trim")
def m_view(c):
    v = c.args[0][0]
    if "trim" in c.path:
        return ("ref", None, None)
    if v[0] == "ref":
        return v
    if v[0] == "strlit":
        return v
    return ("ref", None, None)


@model(r"^<std::boxed::Box<T(, A)?> as std::ops::Deref(Mut)?>::deref(_mut)?$", r"^<std::sync::Arc<T, A> as std::ops::Deref>::deref$",
       r"^<std::rc::Rc<T, A> as std::ops::Deref>::deref$", r"^<std::sync::MutexGuard<'_, T> as std::ops::Deref(Mut)?>::deref(_mut)?$",
       r"^<once_cell::sync::Lazy<T, F> as std::ops::Deref>::deref$", r"^<std::borrow::Cow<'_, B> as std::ops::Deref>::deref$",
       r"^<std::path::PathBuf as std::ops::Deref>::deref$", r"^<std::ffi::OsString as std::ops::Deref>::deref$")
def m_smart_deref(c):
    pl = c.place_of(0)
    if pl is None:
        return ("ref", None, None)
    return ("ref", pl[0], pl[1] + ("*",))


# =========================================================================== indexing
RANGE_ADTS = {"std::ops::Range": ("start", "end", False), "std::ops::RangeInclusive": ("start", "end", True),
              "std::ops::RangeFrom": ("start", None, False), "std::ops::RangeTo": (None, "end", False),
              "std::ops::RangeToInclusive": (None, "end", True), "std::ops::RangeFull": (None, None, False)}


def range_bounds(c, i):
    """(start value, end-exclusive value or None) of a range argument passed by value"""
    v, tix = c.args[i]
    ty = c.an.T[tix]
    if ty["k"] != "adt" or ty["adt"] not in RANGE_ADTS:
        return None
    sf, ef, incl = RANGE_ADTS[ty["adt"]]
    op = c.t["args"][i]
    pj = op.get("copy") or op.get("move")
    start = ("n", None, 0)
    end = None
    if pj is None:
        return None
    can = c.an.canon(c.st, pj)
    if can is None:
        return ("iv", 0, None), ("iv", 0, None), incl

    def field(nm):
        pl = (can[0], can[1] + (nm,))
        v = c.st.sym.get(pl)
        if v is not None and v[0] in ("n", "iv"):
            return v
        t = ("v", pl[0], pl[1])
        if t in c.st.iv or any(t in k for k in c.st.rel):
            return ("n", t, 0)
        return ("iv", 0, None)
    if sf:
        start = field(sf)
    if ef:
        end = field(ef)
        if incl:
            end = ("n", end[1], end[2] + 1) if end[0] == "n" else ("iv", None if end[1] is None else end[1] + 1, None if end[2] is None else end[2] + 1)
    return start, end, incl


@model(r"^<std::vec::Vec<T, A> as std::ops::Index(Mut)?<I>>::index(_mut)?$", r"^core::slice::index::<impl std::ops::Index(Mut)?<I> for \[T\]>::index(_mut)?$",
       r"^core::array::<impl std::ops::Index(Mut)?<I> for \[T; N\]>::index(_mut)?$",
       r"^<std::collections::VecDeque<T, A> as std::ops::Index(Mut)?<usize>>::index(_mut)?$")
def m_index(c):
    st = c.st
    ln = c.len_of(0)
    pl = c.place_of(0)
    mut = "index_mut" in c.path
    ity = c.an.T[c.args[1][1]]
    if ity["k"] == "int":
        ix = c.num(1)
        stable = pl is not None and ix[0] == "n" and isinstance(pl[0], int)
        if mut and pl is not None and not stable:
            # the element cannot be named: whatever is written through the returned reference is forgotten now
            st.kill(pl, keep_len=True)
        ixm, cons = c.an.index_constraints(st, c.raw(1), ln, -1)
        ok, un = c.an.conj_check(st, cons)
        rule = None
        if ok:
            rule = "D1" if ln[0] == "n" and ln[1] is None else "D3" if ixm[0] == "n" and ixm[1] is not None else "D2"
        c.oblige("S2", ok, rule, "index %s may be >= length %s%s" % (c.an.vs(ixm), c.an.vs(ln), " or negative" if len(cons) > 1 else ""),
                 None if ok else c.an.conj_lift(un), tag=c.an.fail_tag(cons, un))
        c.an.conj_assume(st, cons)
        ix = ixm if (len(cons) > 1) else ix
        if pl is not None and ix[0] == "n" and isinstance(pl[0], int):
            return ("ref", pl[0], pl[1] + (("ix", ix),))
        return ("ref", None, None)
    if mut and pl is not None:
        st.kill(pl, keep_len=True)
    rb = range_bounds(c, 1)
    if rb is None:
        c.oblige("S2", False, None, "slice index of unrecognised kind %s" % ity["s"])
        return ("ref", None, None)
    start, end, incl = rb
    if end is None:
        end = ln
    cons = [(start, end, 0), (end, ln, 0)]
    ok, un = c.an.conj_check(st, cons)
    c.oblige("S2", ok, "D4" if ok else None,
             "range %s..%s may exceed length %s or start > end" % (c.an.vs(start), c.an.vs(end), c.an.vs(ln)), None if ok else c.an.conj_lift(un),
             tag=c.an.fail_tag(cons, un))
    c.an.conj_assume(st, cons)
    # the result is a new slice place rooted at the destination
    d = c.dest_place()
    if d is not None:
        sub = c.an.binop(st, "Sub", end, c.args[1][1], start, c.args[1][1], None)
        sub_iv = st.val_iv(sub[1] if sub[0] == "diff" else sub) if sub[0] in ("n", "iv", "diff") else (0, LEN_MAX)

        def rooted_at_dest(v):
            return v[0] == "n" and v[1] is not None and v[1][1] == d[0]
        st.kill(d, whole_local=not d[1])
        nl = ("len", d[0], d[1] + ("*",))
        st.set_iv(nl, 0, LEN_MAX)
        st.set_iv(nl, sub_iv[0], sub_iv[1])
        me = ("n", nl, 0)
        if sub[0] == "n" and not rooted_at_dest(sub):
            st.add_eq(me, sub)
        elif sub[0] == "diff":
            a, b = sub[2], sub[3]
            if not rooted_at_dest(a) and not rooted_at_dest(b):
                ib = st.val_iv(b)
                if a[0] == "n" and a[1] is not None:
                    if ib[0] is not None:
                        st.add_le(me, a, -ib[0])
                    if ib[1] is not None:
                        st.add_le(a, me, ib[1])
        st.sym[d] = ("ref", d[0], d[1] + ("*",))
        return "stored"
    return ("ref", None, None)


def trust_layers(c, pl):
    """T1/T2 annotations are decided by the rule module; here we only expose the container path"""
    return None


@model(r"^<std::string::String as std::ops::Index(Mut)?<I>>::index(_mut)?$", r"^core::str::traits::<impl std::ops::Index(Mut)?<I> for str>::index(_mut)?$",
       r"^core::str::traits::<impl std::slice::SliceIndex<str> for ")
def m_str_index(c):
    st = c.st
    ln = c.len_of(0)
    rb = range_bounds(c, 1)
    ok = False
    if rb is not None:
        start, end, incl = rb
        if end is None:
            end = ln
        ok = st.prove_le(start, end, 0) and st.prove_le(end, ln, 0)
        st.add_le(start, end, 0)
        st.add_le(end, ln, 0)
        what = "str range %s..%s: bounds %s; char-boundary condition is not decided by the calculus" % (c.an.vs(start), c.an.vs(end), "proved" if ok else "NOT proved")
    else:
        what = "str slice of unrecognised kind"
    c.oblige("S2s", False, None, what)
    return ("ref", None, None)


@model(r"^<std::collections::HashMap<K, V, S, A> as std::ops::Index<&Q>>::index$", r"^<std::collections::BTreeMap<K, V, A> as std::ops::Index<&Q>>::index$")
def m_map_index(c):
    c.oblige("S2", False, None, "map[key] panics when the key is absent")
    return ("ref", None, None)


@model(r"^core::slice::<impl \[T\]>::get(_mut)?$", r"^std::collections::VecDeque::<T, A>::get(_mut)?$")
def m_get(c):
    ln = c.len_of(0)
    if "get_mut" in c.path:
        pl = c.place_of(0)
        if pl is not None:
            c.st.kill(pl, keep_len=True)
    ity = c.an.T[c.args[1][1]]
    if ity["k"] == "int":
        ix = c.num(1)
        return ("opt", "cond", ("cmp", "Lt", ix, ln), None)
    rb = range_bounds(c, 1)
    if rb is not None:
        start, end, incl = rb
        if end is None:
            end = ln
        cond = ("and", ("cmp", "Le", start, end), ("cmp", "Le", end, ln))
        # the payload is a new slice rooted at the destination, end - start long (as for `&s[a..b]`)
        d = c.dest_place()
        st = c.st
        if d is not None and c.args[1][1] is not None:
            sub = c.an.binop(st, "Sub", end, c.args[1][1], start, c.args[1][1], None)
            sub_iv = st.val_iv(sub[1] if sub[0] == "diff" else sub) if sub[0] in ("n", "iv", "diff") else (0, LEN_MAX)
            st.kill(d, whole_local=not d[1])
            steps = d[1] + (("dc", "Some"), "0", "*")
            nl = ("len", d[0], steps)
            st.set_iv(nl, 0, LEN_MAX)
            if sub_iv[0] is not None and sub_iv[0] >= 0:
                st.set_iv(nl, sub_iv[0], sub_iv[1])
            if sub[0] == "n" and not (sub[1] is not None and sub[1][1] == d[0]):
                st.add_eq(("n", nl, 0), sub)
            st.sym[d] = ("opt", "cond", cond, ("ref", d[0], steps))
            return "stored"
        return ("opt", "cond", cond, None)
    return None


@model(r"^core::slice::<impl \[T\]>::(first|last)(_mut)?$", r"^std::collections::VecDeque::<T, A>::(front|back)(_mut)?$",
       r"^core::slice::<impl \[T\]>::split_(first|last)(_mut)?$")
def m_first(c):
    ln = c.len_of(0)
    if "_mut" in c.path:
        pl = c.place_of(0)
        if pl is not None:
            c.st.kill(pl, keep_len=True)
    return ("opt", "cond", ("cmp", "Ge", ln, ("n", None, 1)), None)


@model(r"^core::slice::<impl \[T\]>::(iter_mut|as_mut_ptr|fill|reverse|sort\w*|rotate_\w+)$",
       r"^core::slice::<impl \[T\]>::(chunks_mut|chunks_exact_mut)$")
def m_content_only(c):
    pl = c.place_of(0)
    if pl is not None:
        c.st.kill(pl, keep_len=True)
    if "iter_mut" in c.path:
        return ("iter", "slice", c.len_of(0))
    return None


@model(r"^core::slice::<impl \[T\]>::swap$", r"^std::collections::VecDeque::<T, A>::swap$")
def m_swap(c):
    ln = c.len_of(0)
    a, b = c.num(1), c.num(2)
    _, ca = c.an.index_constraints(c.st, c.raw(1), ln, -1)
    _, cb = c.an.index_constraints(c.st, c.raw(2), ln, -1)
    ok, un = c.an.conj_check(c.st, ca + cb)
    c.oblige("S3", ok, "D4" if ok else None, "swap(%s, %s) on length %s" % (c.an.vs(a), c.an.vs(b), c.an.vs(ln)), None if ok else c.an.conj_lift(un))
    pl = c.place_of(0)
    if pl is not None:
        c.st.kill(pl, keep_len=True)
    c.st.add_le(a, ln, -1)
    c.st.add_le(b, ln, -1)
    return None


@model(r"^core::slice::<impl \[T\]>::copy_from_slice$", r"^core::slice::<impl \[T\]>::clone_from_slice$")
def m_copy_from_slice(c):
    l0, l1 = c.len_of(0), c.len_of(1)
    ok = c.st.prove_le(l0, l1, 0) and c.st.prove_le(l1, l0, 0)
    c.oblige("S3", ok, "D4" if ok else None, "copy_from_slice: lengths %s and %s may differ" % (c.an.vs(l0), c.an.vs(l1)))
    pl = c.place_of(0)
    if pl is not None:
        c.st.kill(pl, keep_len=True)
    return None


@model(r"^core::slice::<impl \[T\]>::split_at(_mut)?$", r"^core::str::<impl str>::split_at(_mut)?$")
def m_split_at(c):
    ln = c.len_of(0)
    m = c.num(1)
    ok = c.st.prove_le(m, ln, 0)
    c.oblige("S3", ok, "D4" if ok else None, "split_at(%s) on length %s" % (c.an.vs(m), c.an.vs(ln)))
    c.st.add_le(m, ln, 0)
    return None


@model(r"^core::slice::<impl \[T\]>::(chunks|chunks_exact|windows|rchunks)$")
def m_chunks(c):
    n = c.num(1)
    i = c.st.val_iv(n)
    ok = i[0] is not None and i[0] >= 1
    c.oblige("S3", ok, "D6" if ok else None, "chunk / window size %s may be zero" % c.an.vs(n))
    return ("iter", "other")


# =========================================================================== Vec / String mutation
def _len_term(c, i=0):
    pl = c.place_of(i)
    if pl is None:
        return None, None
    return ("len", pl[0], pl[1]), pl


@model(r"^std::vec::Vec::<T, A>::push$", r"^std::collections::VecDeque::<T, A>::push_(back|front)$")
def m_push(c):
    t, pl = _len_term(c)
    if t is not None:
        c.st.kill(pl, keep_len=True)
        c.st.set_iv(t, 0, LEN_MAX)
        c.an.shift(c.st, t, 1)
    return None


@model(r"^std::string::String::push$", r"^std::string::String::push_str$", r"^std::vec::Vec::<T, A>::extend_from_slice$",
       r"^<std::vec::Vec<T, A> as std::iter::Extend<(&'a )?T>>::extend$", r"^std::vec::Vec::<T, A>::append$",
       r"^<std::string::String as std::iter::Extend<", r"^std::vec::Vec::<T, A>::extend_from_within$",
       r"^<std::string::String as std::ops::AddAssign<&str>>::add_assign$", r"^<std::string::String as std::fmt::Write>::write_")
def m_grow(c):
    t, pl = _len_term(c)
    if t is not None:
        # appending a container of known length to one whose length is a known constant: the sum is exact
        exact = None
        cur = c.st.iv.get(t)
        if cur is not None and cur[0] is not None and cur[0] == cur[1] and len(c.args) >= 2 \
                and re.search(r"extend_from_slice$|Extend<(&'a )?T>>::extend$|::append$", c.path):
            sl = c.len_of(1)
            if sl[0] == "n" and not (sl[1] is not None and under(term_place(sl[1]), pl)):
                exact = ("n", sl[1], sl[2] + cur[0])
        c.st.kill(pl, keep_len=True)
        if exact is not None:
            c.an.set_term(c.st, t, exact)
        else:
            c.an.grow_unknown(c.st, t)
    if "append" in c.path:
        t2, pl2 = _len_term(c, 1)
        if t2 is not None:
            c.st.kill(pl2, keep_len=True)
            c.an.set_term(c.st, t2, ("n", None, 0))
    return None


@model(r"^std::vec::Vec::<T, A>::pop$", r"^std::string::String::pop$", r"^std::collections::VecDeque::<T, A>::pop_(front|back)$")
def m_pop(c):
    t, pl = _len_term(c)
    if t is None:
        return None
    st = c.st
    st.set_iv(t, 0, LEN_MAX)
    i = st.iv.get(t, FULL)
    c.an._drop_aliases(st, t) if False else None
    if i[0] is not None and i[0] >= 1:
        st.kill(pl, keep_len=True)
        c.an.shift(st, t, -1)
        return ("opt", "some", None)
    was_nonempty = None
    st.kill(pl, keep_len=True)
    c.an.shrink_unknown(st, t)
    st.set_iv(t, max(0, (i[0] or 0) - 1), i[1])
    return None


@model(r"^std::vec::Vec::<T, A>::clear$", r"^std::string::String::clear$", r"^std::collections::VecDeque::<T, A>::clear$")
def m_clear(c):
    t, pl = _len_term(c)
    if t is not None:
        c.st.kill(pl, keep_len=True)
        c.an.set_term(c.st, t, ("n", None, 0))
    return None


@model(r"^std::vec::Vec::<T, A>::truncate$", r"^std::string::String::truncate$")
def m_truncate(c):
    t, pl = _len_term(c)
    n = c.num(1)
    if t is not None:
        st = c.st
        st.kill(pl, keep_len=True)
        c.an.shrink_unknown(st, t)
        st.add_le(("n", t, 0), n, 0)
    if "String" in c.path:
        c.oblige("S2s", False, None, "String::truncate: char-boundary condition is not decided by the calculus")
    return None


@model(r"^std::vec::Vec::<T, A>::resize$", r"^std::vec::Vec::<T, A>::resize_with$", r"^std::collections::VecDeque::<T, A>::resize$")
def m_resize(c):
    t, pl = _len_term(c)
    n = c.num(1)
    raw = c.raw(1)
    if raw[0] == "nw":
        x = ("n", raw[1], raw[2])
        ok, un = c.an.conj_check(c.st, [(("n", None, 0), x, 0)])
        c.oblige("S3", ok, "D4" if ok else None, "resize to a negative value reinterpreted as unsigned (%s): capacity overflow" % c.an.vs(x),
                 None if ok else c.an.conj_lift(un))
        c.an.conj_assume(c.st, [(("n", None, 0), x, 0)])
        n = ("n", raw[1], raw[2] + raw[3])
    if t is not None:
        c.st.kill(pl, keep_len=True)
        c.an.set_term(c.st, t, n)
    return None


@model(r"^std::vec::Vec::<T, A>::insert$", r"^std::collections::VecDeque::<T, A>::insert$")
def m_insert(c):
    ln = c.len_of(0)
    ix = c.num(1)
    ixm, cons = c.an.index_constraints(c.st, c.raw(1), ln, 0)
    ok, un = c.an.conj_check(c.st, cons)
    c.oblige("S3", ok, "D4" if ok else None, "insert at %s may exceed length %s%s" % (c.an.vs(ixm), c.an.vs(ln), " or be negative" if len(cons) > 1 else ""),
             None if ok else c.an.conj_lift(un), tag=c.an.fail_tag(cons, un))
    c.an.conj_assume(c.st, cons)
    t, pl = _len_term(c)
    if t is not None:
        c.st.kill(pl, keep_len=True)
        c.an.shift(c.st, t, 1)
    return None


@model(r"^std::string::String::(insert|insert_str)$")
def m_string_insert(c):
    c.oblige("S2s", False, None, "String::insert: index must be <= len and on a char boundary (not decided by the calculus)")
    t, pl = _len_term(c)
    if t is not None:
        c.st.kill(pl, keep_len=True)
        c.an.grow_unknown(c.st, t)
    return None


@model(r"^std::vec::Vec::<T, A>::(remove|swap_remove)$")
def m_remove(c):
    ln = c.len_of(0)
    ix = c.num(1)
    ixm, cons = c.an.index_constraints(c.st, c.raw(1), ln, -1)
    ok, un = c.an.conj_check(c.st, cons)
    c.oblige("S3", ok, "D4" if ok else None, "remove at %s may be >= length %s%s" % (c.an.vs(ixm), c.an.vs(ln), " or negative" if len(cons) > 1 else ""),
             None if ok else c.an.conj_lift(un), tag=c.an.fail_tag(cons, un))
    c.an.conj_assume(c.st, cons)
    t, pl = _len_term(c)
    if t is not None:
        c.st.kill(pl, keep_len=True)
        c.an.shift(c.st, t, -1)
    return None


@model(r"^std::string::String::remove$")
def m_string_remove(c):
    c.oblige("S2s", False, None, "String::remove: index must be < len and on a char boundary (not decided by the calculus)")
    t, pl = _len_term(c)
    if t is not None:
        c.st.kill(pl, keep_len=True)
        c.an.shrink_unknown(c.st, t)
    return None


@model(r"^std::vec::Vec::<T, A>::(drain|splice)$", r"^std::string::String::(drain|replace_range)$", r"^std::collections::VecDeque::<T, A>::drain$")
def m_drain(c):
    ln = c.len_of(0)
    rb = range_bounds(c, 1)
    ok = False
    what = "drain/splice range of unrecognised kind"
    if rb is not None:
        start, end, incl = rb
        if end is None:
            end = ln
        ok = c.st.prove_le(start, end, 0) and c.st.prove_le(end, ln, 0)
        what = "drain/splice range %s..%s on length %s" % (c.an.vs(start), c.an.vs(end), c.an.vs(ln))
        c.st.add_le(start, end, 0)
        c.st.add_le(end, ln, 0)
    cls = "S2s" if "String" in c.path else "S3"
    c.oblige(cls, ok and cls == "S3", "D4" if ok and cls == "S3" else None, what)
    t, pl = _len_term(c)
    if t is not None:
        c.st.kill_under(pl)
    return ("iter", "other")


@model(r"^std::vec::Vec::<T, A>::split_off$")
def m_split_off(c):
    ln = c.len_of(0)
    at = c.num(1)
    ok = c.st.prove_le(at, ln, 0)
    c.oblige("S3", ok, "D4" if ok else None, "split_off(%s) on length %s" % (c.an.vs(at), c.an.vs(ln)))
    t, pl = _len_term(c)
    if t is not None:
        c.st.kill(pl, keep_len=True)
        c.an.set_term(c.st, t, at)
    return None


@model(r"^std::vec::Vec::<T, A>::(retain|retain_mut|dedup\w*)$", r"^std::string::String::retain$")
def m_shrink(c):
    t, pl = _len_term(c)
    if t is not None:
        c.st.kill(pl, keep_len=True)
        c.an.shrink_unknown(c.st, t)
    return None


def _new_container(c, n):
    d = c.dest_place()
    if d is None:
        return None
    c.st.kill(d, whole_local=not d[1])
    t = ("len", d[0], d[1])
    c.st.set_iv(t, 0, LEN_MAX)
    if n is not None:
        if n[0] == "n":
            c.st.add_eq(("n", t, 0), n)
        i = c.st.val_iv(n)
        c.st.set_iv(t, i[0], i[1])
    return "stored"


@model(r"^std::vec::Vec::<T>::new$", r"^std::string::String::new$", r"^<std::vec::Vec<T> as std::default::Default>::default$",
       r"^<std::string::String as std::default::Default>::default$", r"^std::vec::Vec::<T>::with_capacity$",
       r"^std::string::String::with_capacity$", r"^std::collections::VecDeque::<T>::(new|with_capacity)$")
def m_new(c):
    return _new_container(c, ("n", None, 0))


@model(r"^std::vec::from_elem$")
def m_from_elem(c):
    return _new_container(c, c.num(1))


@model(r"^std::slice::<impl \[T\]>::to_vec$", r"^<std::vec::Vec<T, A> as std::clone::Clone>::clone$", r"^<std::string::String as std::clone::Clone>::clone$",
       r"^std::slice::<impl \[T\]>::into_vec$", r"^std::str::<impl str>::to_owned$", r"^<str as std::string::ToString>::to_string$",
       r"^<std::string::String as std::convert::From<&str>>::from$", r"^<std::vec::Vec<T> as std::convert::From<&\[T\]>>::from$",
       r"^std::string::String::into_bytes$", r"^std::borrow::ToOwned::to_owned$")
def m_to_vec(c):
    return _new_container(c, c.len_of(0))


@model(r"^std::boxed::box_assume_init_into_vec_unsafe$")
def m_vec_literal(c):
    # vec![a, b, c]: Box<MaybeUninit<[T; N]>> -> Vec<T> of length N
    tix = c.args[0][1]
    n = None
    if tix is not None:
        m = re.search(r"\[.*; (\d+)\]", c.an.T[tix]["s"])
        if m:
            n = ("n", None, int(m.group(1)))
    return _new_container(c, n)


# =========================================================================== Option / Result
def _opt_of(c, i=0, by_ref=False):
    """option-like abstract value of argument i (by value, or behind a reference)"""
    v, tix = c.args[i]
    if v[0] == "opt":
        return v, None
    if v[0] == "ref" and v[1] is not None and not isinstance(v[1], str):
        pl = (v[1], v[2])
        w = c.st.sym.get(pl)
        if w is not None and w[0] == "opt":
            return w, pl
        return None, pl
    op = c.t["args"][i]
    pj = op.get("copy") or op.get("move")
    if pj is not None:
        can = c.an.canon(c.st, pj)
        if can is not None:
            pl = (can[0], can[1])
            w = c.st.sym.get(pl)
            if w is not None and w[0] == "opt":
                return w, pl
            return None, pl
    return None, None


@model(r"^std::option::Option::<T>::(unwrap|expect)$", r"^std::result::Result::<T, E>::(unwrap|expect)$")
def m_unwrap(c):
    v, pl = _opt_of(c)
    truth = c.an.opt_truth(c.st, v) if v is not None else None
    ok = truth is True
    lift = None
    c.oblige("S4", ok, "D5" if ok else None, "unwrap/expect on a value that may be None/Err", lift)
    if v is not None:
        c.an.assume_optval(c.st, v, True)
        pay = v[2] if v[1] == "some" else v[3] if v[1] == "cond" else None
        if pay is not None:
            return pay
    return None


@model(r"^std::result::Result::<T, E>::(unwrap_err|expect_err)$")
def m_unwrap_err(c):
    v, pl = _opt_of(c)
    truth = c.an.opt_truth(c.st, v) if v is not None else None
    ok = truth is False
    c.oblige("S4", ok, "D5" if ok else None, "unwrap_err on a value that may be Ok")
    return None


@model(r"^std::option::Option::<T>::(is_some|is_none)$", r"^std::result::Result::<T, E>::(is_ok|is_err)$")
def m_is_some(c):
    v, pl = _opt_of(c, by_ref=True)
    pos = c.path.endswith("is_some") or c.path.endswith("is_ok")
    if pl is not None:
        cond = ("some", pl)
    elif v is not None:
        cond = ("optval", v)
    else:
        return ("b", ("unknown",))
    return ("b", cond if pos else ("not", cond))


@model(r"^std::option::Option::<T>::(as_ref|as_mut|as_deref|as_deref_mut|copied|cloned)$", r"^<std::option::Option<T> as std::clone::Clone>::clone$",
       r"^std::result::Result::<T, E>::(as_ref|as_mut|ok)$")
def m_opt_same(c):
    v, pl = _opt_of(c, by_ref=True)
    if v is not None:
        if v[1] == "some":
            return ("opt", "some", None)
        if v[1] == "cond":
            return ("opt", "cond", v[2], None)
        return v
    return None


@model(r"^std::option::Option::<T>::take$", r"^std::mem::take$")
def m_take(c):
    v, pl = _opt_of(c, by_ref=True)
    if pl is not None:
        c.st.kill_under(pl)
        tix = c.pointee_tix(0)
        if tix is not None and c.an.T[tix]["k"] == "adt" and c.an.T[tix].get("adt") == "std::option::Option":
            c.st.sym[pl] = ("opt", "none")
    return v


@model(r"^std::option::Option::<T>::(replace|insert|get_or_insert\w*)$")
def m_opt_replace(c):
    v, pl = _opt_of(c, by_ref=True)
    if pl is not None:
        c.st.kill_under(pl)
        c.st.sym[pl] = ("opt", "some", None)
    return v if "replace" in c.path else None


@model(r"^<std::result::Result<T, E> as std::ops::Try>::branch$", r"^<std::option::Option<T> as std::ops::Try>::branch$")
def m_branch(c):
    v, pl = _opt_of(c)
    if v is not None:
        return v
    return None


# =========================================================================== min / max / clamp / saturating
@model(r"^std::cmp::(min|max)$", r"^std::cmp::Ord::(min|max)$", r"^core::cmp::impls::<impl std::cmp::Ord for \w+>::(min|max)$",
       r"^std::cmp::impls::<impl std::cmp::Ord for \w+>::(min|max)$")
def m_minmax(c):
    a, b = c.num(0), c.num(1)
    st = c.st
    is_min = c.path.endswith("min")
    ia, ib = st.val_iv(a), st.val_iv(b)
    # decided statically?
    if st.prove_le(a, b, 0):
        return a if is_min else b
    if st.prove_le(b, a, 0):
        return b if is_min else a
    d = c.dest_place()
    if d is None or not c.an.is_num(c.dest_tix):
        return None
    st.kill(d, whole_local=not d[1])
    t = ("v", d[0], d[1])
    me = ("n", t, 0)
    if is_min:
        lo = None if ia[0] is None or ib[0] is None else min(ia[0], ib[0])
        hi = ia[1] if ib[1] is None else ib[1] if ia[1] is None else min(ia[1], ib[1])
        st.set_iv(t, lo, hi)
        st.add_le(me, a, 0)
        st.add_le(me, b, 0)
    else:
        lo = ia[0] if ib[0] is None else ib[0] if ia[0] is None else max(ia[0], ib[0])
        hi = None if ia[1] is None or ib[1] is None else max(ia[1], ib[1])
        st.set_iv(t, lo, hi)
        st.add_le(a, me, 0)
        st.add_le(b, me, 0)
    # bounds shared by both operands carry over:  max(a, b) <= T + c  iff  a <= T + c and b <= T + c   (dually for min)
    cands = set()
    for (x, y) in list(st.rel.keys()):
        for v in (a, b):
            if v[0] == "n" and v[1] is not None:
                if is_min and y == v[1]:
                    cands.add(x)
                if not is_min and x == v[1]:
                    cands.add(y)
    for T in cands:
        if T == t:
            continue
        tv = ("n", T, 0)
        if is_min:
            da = st.bound_diff(T, a[1] if a[0] == "n" else None) if a[0] == "n" else None
            db = st.bound_diff(T, b[1] if b[0] == "n" else None) if b[0] == "n" else None
            if da is not None and db is not None:
                st.add_le(tv, me, max(da - a[2], db - b[2]))
        else:
            da = st.bound_diff(a[1], T) if a[0] == "n" else None
            db = st.bound_diff(b[1], T) if b[0] == "n" else None
            if da is not None and db is not None:
                st.add_le(me, tv, max(da + a[2], db + b[2]))
    return "stored"


@model(r"^std::cmp::Ord::clamp$", r"^(core|std)::cmp::impls::<impl std::cmp::Ord for \w+>::clamp$", r"^core::f(32|64)::<impl f(32|64)>::clamp$",
       r"^std::f(32|64)::<impl f(32|64)>::clamp$")
def m_clamp(c):
    st = c.st
    if "f32" in c.path or "f64" in c.path:
        c.oblige("S7", False, None, "float clamp(min, max) panics when min > max or either is NaN")
        return None
    x, lo, hi = c.num(0), c.num(1), c.num(2)
    ok, un = c.an.conj_check(st, [(lo, hi, 0)])
    c.oblige("S7", ok, "D7" if ok else None, "clamp(min=%s, max=%s) panics when min > max" % (c.an.vs(lo), c.an.vs(hi)), None if ok else c.an.conj_lift(un))
    st.add_le(lo, hi, 0)
    if st.bottom:
        return None
    if st.prove_le(lo, x, 0) and st.prove_le(x, hi, 0):
        return x
    d = c.dest_place()
    if d is None:
        return None
    st.kill(d, whole_local=not d[1])
    t = ("v", d[0], d[1])
    me = ("n", t, 0)
    il, ih = st.val_iv(lo), st.val_iv(hi)
    st.set_iv(t, il[0], ih[1])
    st.add_le(lo, me, 0)
    st.add_le(me, hi, 0)
    return "stored"


@model(r"^core::num::<impl [ui]\w+>::saturating_sub$")
def m_sat_sub(c):
    a, b = c.num(0), c.num(1)
    st = c.st
    r = c.an.ty_range(c.args[0][1]) or FULL
    v = c.an.binop(st, "Sub", a, c.args[0][1], b, c.args[1][1], c.args[0][1])
    # binop clips to the type range by forgetting; saturating keeps the clamp
    ia, ib = st.val_iv(a), st.val_iv(b)
    a_lo_ok = bool(c.an.mag) and c.an.mag_lo_bounded(st, a)
    from .absdom import iv_sub
    i = iv_sub(ia, ib)
    lo = r[0] if (i[0] is None or (r[0] is not None and i[0] < r[0])) else i[0]
    hi = r[1] if (i[1] is None or (r[1] is not None and i[1] > r[1])) else i[1]
    if v[0] == "n" and (i[0] is not None and r[0] is not None and i[0] >= r[0]) and (r[1] is None or (i[1] is not None and i[1] <= r[1])):
        return v
    d = c.dest_place()
    if d is None:
        return ("iv", lo, hi)
    st.kill(d, whole_local=not d[1])
    t = ("v", d[0], d[1])
    st.set_iv(t, lo, hi)
    me = ("n", t, 0)
    if a[0] == "n" and b[0] == "n" and (a[1] is not None or b[1] is not None):
        # magnitude-wise a difference (see Analyzer.mag_parts); an operand that lives in the destination itself
        # (`y = y.saturating_sub(n)`) is remembered by its lower bound before the update
        a_rec, b_rec = a, b
        ok_rec = True
        if a[1] is not None and under(term_place(a[1]), d):
            a_rec = ("n", None, 0) if a_lo_ok else None
        if b[1] is not None and under(term_place(b[1]), d):
            ok_rec = False
        if ok_rec and a_rec is not None:
            st.lin[d] = (a_rec, b_rec, "satsub") if a_rec is a else (a_rec, b_rec, "satsub", "lo")
    # unsigned (or b >= 0): result <= a
    if (r[0] == 0) or (ib[0] is not None and ib[0] >= 0):
        st.add_le(me, a, 0)
    # result >= a - b  when no upper saturation:  a - me <= b
    if b[0] == "n" and b[1] is None and a[0] == "n" and a[1] is not None:
        st.add_le(a, me, b[2])
    return "stored"


@model(r"^core::num::<impl [ui]\w+>::saturating_add$")
def m_sat_add(c):
    a, b = c.num(0), c.num(1)
    st = c.st
    r = c.an.ty_range(c.args[0][1]) or FULL
    from .absdom import iv_add
    i = iv_add(st.val_iv(a), st.val_iv(b))
    lo = r[0] if (i[0] is None or (r[0] is not None and i[0] < r[0])) else i[0]
    hi = r[1] if (i[1] is None or (r[1] is not None and i[1] > r[1])) else i[1]
    return ("iv", lo, hi)


@model(r"^core::num::<impl [ui]\w+>::(saturating_mul|saturating_pow|wrapping_\w+|pow|rotate_\w+|reverse_bits|swap_bytes|to_be|to_le)$")
def m_num_opaque(c):
    r = c.an.ty_range(c.args[0][1]) if c.args[0][1] is not None else None
    return ("iv", r[0], r[1]) if r else None


@model(r"^core::num::<impl i\w+>::abs$", r"^core::num::<impl i\w+>::unsigned_abs$")
def m_abs(c):
    a = c.num(0)
    i = c.st.val_iv(a)
    if i[0] is not None and i[0] >= 0:
        return a
    hi = None
    if i[0] is not None and i[1] is not None:
        hi = max(abs(i[0]), abs(i[1]))
    r = c.an.ty_range(c.args[0][1]) or FULL
    if hi is not None and r[1] is not None and hi > r[1]:
        return ("iv", r[0], r[1])     # abs(MIN) wraps
    return ("iv", 0, hi if hi is not None else r[1])


@model(r"^core::num::<impl [ui]\w+>::(count_ones|count_zeros|leading_zeros|trailing_zeros)$")
def m_count(c):
    return ("iv", 0, 128)


@model(r"^core::num::<impl i\w+>::signum$")
def m_signum(c):
    return ("iv", -1, 1)


@model(r"^core::num::<impl [ui]\w+>::(rem_euclid)$")
def m_rem_euclid(c):
    b = c.num(1)
    ib = c.st.val_iv(b)
    ok = (ib[0] is not None and ib[0] > 0) or (ib[1] is not None and ib[1] < 0)
    c.oblige("S6", ok, "D6" if ok else None, "rem_euclid by %s may be zero" % c.an.vs(b))
    if ib[0] is not None and ib[0] > 0 and ib[1] is not None:
        return ("iv", 0, ib[1] - 1)
    return None


@model(r"^core::num::<impl [ui]\w+>::(checked_sub)$")
def m_checked_sub(c):
    a, b = c.num(0), c.num(1)
    v = c.an.binop(c.st, "Sub", a, c.args[0][1], b, c.args[1][1], c.args[0][1])
    pay = v if v[0] in ("n", "iv") else v[1] if v[0] in ("diff",) else None
    return ("opt", "cond", ("cmp", "Ge", a, b), None)


@model(r"^core::num::<impl [ui]\w+>::(checked_\w+|overflowing_\w+)$")
def m_checked(c):
    return None


# =========================================================================== conversions
@model(r"^<T as std::convert::Into<U>>::into$", r"^std::convert::Into::into$", r"^<T as std::convert::From<T>>::from$",
       r"^(std|core)::convert::num::<impl std::convert::From<\w+> for \w+>::from$", r"^std::char::convert::<impl std::convert::From<u8> for char>::from$",
       r"^core::char::convert::<impl std::convert::From<\w+> for \w+>::from$", r"^<\w+ as std::convert::From<\w+>>::from$")
def m_into(c):
    v, tix = c.args[0]
    if tix is not None and c.dest_tix is not None and c.an.is_num(tix) and c.an.is_num(c.dest_tix):
        return c.an.cast(c.st, c.num(0), tix, c.dest_tix, "int2int")
    default_effects(c)
    return None


@model(r"^<T as std::convert::TryInto<U>>::try_into$", r"^(core|std)::convert::num::<impl std::convert::TryFrom<\w+> for \w+>::try_from$",
       r"^<T as std::convert::TryFrom<U>>::try_from$")
def m_try_into(c):
    v, tix = c.args[0]
    dt = c.an.T[c.dest_tix] if c.dest_tix is not None else None
    if dt is None or dt["k"] != "adt" or not dt["args"]:
        return None
    ok_t = dt["args"][0]
    if tix is not None and c.an.is_num(tix) and c.an.is_num(ok_t):
        x = c.num(0)
        r = c.an.ty_range(ok_t)
        conds = []
        if r[0] is not None:
            conds.append(("cmp", "Ge", x, ("n", None, r[0])))
        if r[1] is not None:
            conds.append(("cmp", "Le", x, ("n", None, r[1])))
        cond = ("and",) + tuple(conds) if conds else ("const", True)
        return ("opt", "cond", cond, x if x[0] == "n" else None)
    # &[T] -> [T; N]  (or &[T; N]) : Ok iff len == N
    okty = c.an.T[ok_t]
    n = None
    if okty["k"] == "array":
        n = okty.get("len")
    elif okty["k"] == "ref" and c.an.T[okty["e"]]["k"] == "array":
        n = c.an.T[okty["e"]].get("len")
    if n is not None and v[0] == "ref":
        ln = c.len_of(0)
        return ("opt", "cond", ("cmp", "Eq", ln, ("n", None, n)), None)
    return None


@model(r"^std::char::methods::<impl char>::from_u32$", r"^core::char::convert::from_u32$")
def m_char_from_u32(c):
    x = c.num(0)
    cond = ("or", ("cmp", "Le", x, ("n", None, 0xD7FF)), ("and", ("cmp", "Ge", x, ("n", None, 0xE000)), ("cmp", "Le", x, ("n", None, 0x10FFFF))))
    return ("opt", "cond", cond, x if x[0] == "n" else None)


@model(r"^std::char::methods::<impl char>::from_digit$")
def m_from_digit(c):
    r = c.num(1)
    i = c.st.val_iv(r)
    ok = i[1] is not None and i[1] <= 36
    c.oblige("S7", ok, "D1" if ok else None, "char::from_digit panics when radix %s > 36" % c.an.vs(r))
    return None


@model(r"^std::char::methods::<impl char>::to_digit$")
def m_to_digit(c):
    r = c.num(1)
    i = c.st.val_iv(r)
    ok = i[0] is not None and i[0] >= 2 and i[1] is not None and i[1] <= 36
    c.oblige("S7", ok, "D1" if ok else None, "char::to_digit panics when radix %s is not in 2..=36" % c.an.vs(r))
    hi = (i[1] - 1) if i[1] is not None else 35
    return ("opt", "cond", ("unknown",), ("iv", 0, hi))


@model(r"^std::char::methods::<impl char>::(to_ascii_uppercase|to_ascii_lowercase)$", r"^core::num::<impl u8>::(to_ascii_uppercase|to_ascii_lowercase)$")
def m_ascii_case(c):
    r = c.an.ty_range(c.args[0][1]) if c.args[0][1] is not None else None
    return ("iv", r[0], r[1]) if r else None


@model(r"^core::num::<impl u8>::is_ascii_digit$", r"^(std|core)::char::methods::<impl char>::is_ascii_digit$")
def m_is_ascii_digit(c):
    x = c.deref_num(0)
    if x is None or x[0] not in ("n", "iv"):
        return ("b", ("unknown",))
    return ("b", ("and", ("cmp", "Le", ("n", None, 48), x), ("cmp", "Le", x, ("n", None, 57))))


# =========================================================================== ranges / contains
@model(r"^std::ops::RangeInclusive::<Idx>::new$")
def m_range_incl_new(c):
    d = c.dest_place()
    if d is None:
        return None
    c.st.kill(d, whole_local=not d[1])
    c.an.store_field(c.st, (d[0], d[1] + ("start",)), c.args[0], c.t["args"][0])
    c.an.store_field(c.st, (d[0], d[1] + ("end",)), c.args[1], c.t["args"][1])
    return "stored"


@model(r"^std::ops::RangeInclusive::<Idx>::contains$", r"^std::ops::Range::<Idx>::contains$")
def m_range_contains(c):
    incl = "Inclusive" in c.path
    v = c.args[0][0]
    pl = c.place_of(0)
    x = c.deref_num(1)
    lo = hi = None
    if v[0] == "ref" and isinstance(v[1], str) and v[1].startswith("promoted:") and not v[2]:
        pr = c.an.promoted_range(v[1][len("promoted:"):])
        if pr is not None:
            lo, hi = ("n", None, pr[0]), ("n", None, pr[1])
    elif pl is not None:
        def field(nm):
            p = (pl[0], pl[1] + (nm,))
            w = c.st.sym.get(p)
            if w is not None and w[0] in ("n", "iv"):
                return w
            t = ("v", p[0], p[1])
            if t in c.st.iv:
                return ("n", t, 0)
            return None
        lo, hi = field("start"), field("end")
    if lo is None or hi is None:
        return ("b", ("unknown",))
    return ("b", ("and", ("cmp", "Le", lo, x), ("cmp", "Le" if incl else "Lt", x, hi)))


# =========================================================================== iterators
@model(r"^<I as std::iter::IntoIterator>::into_iter$")
def m_into_iter_ident(c):
    v, tix = c.args[0]
    op = c.t["args"][0]
    pj = op.get("copy") or op.get("move")
    d = c.dest_place()
    if pj is not None and d is not None:
        src = c.an.canon(c.st, pj)
        if src is not None:
            c.st.kill(d, whole_local=not d[1])
            c.st.copy_facts((src[0], src[1]), d)
            if v[0] in ("iter",):
                c.st.sym[d] = v
            return "stored"
    return v if v[0] == "iter" else None


@model(r"^core::slice::iter::<impl std::iter::IntoIterator for &'a (mut )?\[T\]>::into_iter$", r"^core::slice::<impl \[T\]>::iter$",
       r"^<&'a (mut )?std::vec::Vec<T, A> as std::iter::IntoIterator>::into_iter$",
       r"^std::array::<impl std::iter::IntoIterator for &'a (mut )?\[T; N\]>::into_iter$",
       r"^core::array::<impl std::iter::IntoIterator for &'a (mut )?\[T; N\]>::into_iter$",
       r"^core::str::<impl str>::(chars|bytes|char_indices)$", r"^std::collections::VecDeque::<T, A>::iter$",
       r"^<&'a std::collections::VecDeque<T, A> as std::iter::IntoIterator>::into_iter$")
def m_slice_iter(c):
    if "mut" in c.path:
        pl = c.place_of(0)
        if pl is not None:
            c.st.kill(pl, keep_len=True)
    return ("iter", "slice", c.len_of(0))


@model(r"^std::array::iter::<impl std::iter::IntoIterator for \[T; N\]>::into_iter$", r"^core::array::iter::<impl std::iter::IntoIterator for \[T; N\]>::into_iter$",
       r"^<std::vec::Vec<T, A> as std::iter::IntoIterator>::into_iter$")
def m_owned_iter(c):
    return ("iter", "slice", c.len_of(0))


@model(r"^std::iter::Iterator::enumerate$")
def m_enumerate(c):
    v = c.args[0][0]
    if v[0] == "iter" and v[1] == "slice":
        return ("iter", "enum", v[2])
    return ("iter", "enum", None)


@model(r"^std::iter::Iterator::rev$")
def m_rev(c):
    v, tix = c.args[0]
    d = c.dest_place()
    op = c.t["args"][0]
    pj = op.get("copy") or op.get("move")
    if v[0] == "iter":
        return v
    if pj is not None and d is not None:
        src = c.an.canon(c.st, pj)
        if src is not None:
            c.st.kill(d, whole_local=not d[1])
            c.st.copy_facts((src[0], src[1]), (d[0], d[1] + ("iter",)))
            return "stored"
    return None


@model(r"^std::iter::Iterator::zip$")
def m_zip(c):
    """zip of two slice / array iterators whose lengths are known constants: it yields exactly min(n1, n2) items; kept as ghost
    counter fields start = 0, end = min (as for Take), exact in both directions"""
    d = c.dest_place()
    if d is None or len(c.args) < 2:
        return ("iter", "other")

    def length(i):
        v = c.args[i][0]
        if v[0] == "iter" and v[1] == "slice" and v[2] is not None:
            return v[2]
        try:
            return c.len_of(i)
        except Exception:
            return None
    n1, n2 = length(0), length(1)
    i1 = c.st.val_iv(n1) if n1 is not None and n1[0] in ("n", "iv") else (None, None)
    i2 = c.st.val_iv(n2) if n2 is not None and n2[0] in ("n", "iv") else (None, None)
    if i1[0] is None or i1[0] != i1[1] or i2[0] is None or i2[0] != i2[1]:
        return ("iter", "other")
    # only for iterators that have not been advanced: unnamed temporaries handed over as they were created
    for op in c.t["args"][:2]:
        pj = op.get("move") or op.get("copy")
        if pj is None or pj.get("p") or c.an.b.lname(pj["l"]) or len(c.an.b.defs.get(pj["l"], [])) != 1:
            return ("iter", "other")
    c.st.kill(d, whole_local=not d[1])
    c.st.set_iv(("v", d[0], d[1] + ("start",)), 0, 0)
    c.st.sym[(d[0], d[1] + ("start",))] = ("n", None, 0)
    c.st.sym[(d[0], d[1] + ("end",))] = ("n", None, min(i1[0], i2[0]))
    return "stored"


@model(r"^<std::iter::Zip<A, B> as std::iter::Iterator>::next$")
def m_zip_next(c):
    return _range_next(c, True, False, counter=True, exact=True)


@model(r"^std::iter::Iterator::(skip|zip|map|filter|chain|peekable|flatten|flat_map|copied|cloned|take_while|skip_while|filter_map|inspect|fuse|cycle|scan|map_while)$")
def m_adaptor(c):
    v = c.args[0][0]
    if v[0] == "iter" and v[1] == "slice" and c.path.endswith(("copied", "cloned", "peekable", "fuse", "inspect")):
        return v
    return ("iter", "other")


def _range_next(c, fwd, incl, counter=False, exact=False, inner=False):
    """counter=True: the iterator is not a range but something that counts its own steps in ghost fields `start` (steps taken) and
    `end` (the most it may take) - std::iter::Take: the yielded item is unknown, exhaustion of the inner iterator may end it early"""
    st = c.st
    pl = c.place_of(0)
    d = c.dest_place()
    if pl is None or d is None:
        return None
    if not fwd or inner:
        pl = (pl[0], pl[1] + ("iter",))
    S = ("v", pl[0], pl[1] + ("start",))
    E = ("v", pl[0], pl[1] + ("end",))
    # element type range
    etix = None
    pt = c.pointee_tix(0)
    if counter:
        r = (0, LEN_MAX)
    else:
        if pt is not None:
            ty = c.an.T[pt]
            if ty["k"] == "adt" and ty["args"]:
                etix = ty["args"][0]
                if not fwd:
                    inner = c.an.T[etix]
                    etix = inner["args"][0] if inner["k"] == "adt" and inner["args"] else None
        if etix is None or not c.an.is_num(etix):
            return None
        r = c.an.ty_range(etix)
    for t in (S, E):
        st.set_iv(t, r[0], r[1])
    sv = st.sym.get((pl[0], pl[1] + ("start",)))
    ev = st.sym.get((pl[0], pl[1] + ("end",)))
    s_val = sv if sv is not None and sv[0] == "n" else ("n", S, 0)
    e_val = ev if ev is not None and ev[0] == "n" else ("n", E, 0)
    si, ei = st.val_iv(s_val), st.val_iv(e_val)
    st.kill(d, whole_local=not d[1])
    P = ("v", d[0], d[1] + (("dc", "Some"), "0")) if not counter else ("v", d[0], d[1] + (("dc", "Some"), "#step"))
    pv = ("n", P, 0)
    hi_end = None if ei[1] is None else (ei[1] if incl else ei[1] - 1)
    if fwd:
        # Some(v): v == old start, v < end (<= for inclusive); new start = v + 1
        facts = [(pv, e_val, 0 if incl else -1), (("n", None, si[0]) if si[0] is not None else pv, pv, 0)]
        if si[1] is not None:
            facts.append((pv, ("n", None, si[1] if hi_end is None else max(si[1], hi_end)), 0))
        if hi_end is not None:
            facts.append((pv, ("n", None, hi_end), 0))
        # the iterator's own cursor moves: forget its alias, keep a sound interval.  One state stands for both outcomes:
        # the cursor is the old one (None) or the old one plus 1 (Some); the yielded value is the old cursor exactly.
        start_place = (pl[0], pl[1] + ("start",))
        rel_up = [(y, c0) for (a, y), c0 in st.rel.items() if a == S and y != S]       # S - y <= c0
        rel_lo = [(y, c0) for (y, b), c0 in st.rel.items() if b == S and y != S]       # y - S <= c0
        old_alias = s_val if (s_val[1] is None or s_val[1] != S) else None
        if old_alias is not None and old_alias[1] is not None and under(term_place(old_alias[1]), start_place):
            old_alias = None
        st.kill(start_place)
        # new cursor <= max(old cursor, end) and <= old cursor + 1 (a range built with start > end never moves)
        hi_new = None
        if si[1] is not None:
            hi_new = si[1] + 1 if hi_end is None else min(si[1] + 1, max(si[1], hi_end + 1))
        st.set_iv(S, si[0], hi_new)
        S_val = ("n", S, 0)
        none_facts = [(e_val, S_val, 0)] if not (incl or (counter and not exact)) else []
        facts.append((pv, S_val, -1))
        facts.append((S_val, pv, 1))
        if old_alias is not None:
            # pv == old cursor;  old cursor <= S <= old cursor + 1
            facts.append((pv, old_alias, 0))
            facts.append((old_alias, pv, 0))
            if old_alias[1] is not None:
                st.add_le(S_val, old_alias, 1)
                st.add_le(old_alias, S_val, 0)
            none_facts.append((S_val, old_alias, 0))
        else:
            for y, c0 in rel_up:
                if not under(term_place(y), start_place):
                    facts.append((pv, ("n", y, 0), c0))
                    st.rel[(S, y)] = c0 + 1
                    none_facts.append((S_val, ("n", y, 0), c0))
            for y, c0 in rel_lo:
                if not under(term_place(y), start_place):
                    facts.append((("n", y, 0), pv, c0))
                    st.rel[(y, S)] = c0
        st.sym[d] = ("opt", "cond", ("conj", facts, none_facts), pv if not counter else None)
    else:
        facts = [(s_val, pv, 0), (pv, e_val, 0 if incl else -1)]
        if hi_end is not None:
            facts.append((pv, ("n", None, hi_end), 0))
        if si[0] is not None:
            facts.append((("n", None, si[0]), pv, 0))
        end_place = (pl[0], pl[1] + ("end",))
        # end only decreases: keep its upper bounds
        st.materialise(end_place)
        if end_place in st.sym:
            del st.sym[end_place]
        c.an.shrink_unknown(st, E) if E in st.iv else None
        st.set_iv(E, si[0], ei[1])
        st.sym[d] = ("opt", "cond", ("conj", facts, []), pv)
    return "stored"


@model(r"^std::iter::Iterator::step_by$")
def m_step_by(c):
    """StepBy { iter, step, .. }: the range's facts live on under the field `iter`"""
    n = c.num(1)
    i = c.st.val_iv(n)
    ok = i[0] is not None and i[0] >= 1
    c.oblige("S7", ok, "D6" if ok else None, "step_by(%s) panics when the step is zero" % c.an.vs(n))
    d = c.dest_place()
    op = c.t["args"][0]
    pj = op.get("copy") or op.get("move")
    if d is None or pj is None:
        return ("iter", "other")
    src = c.an.canon(c.st, pj)
    if src is None:
        return ("iter", "other")
    c.st.kill(d, whole_local=not d[1])
    c.st.copy_facts((src[0], src[1]), (d[0], d[1] + ("iter",)))
    return "stored"


@model(r"^<std::iter::StepBy<I> as std::iter::Iterator>::next$")
def m_stepby_next(c):
    """yields a value between the range's (old) start and its end; the cursor only grows"""
    st = c.st
    pl = c.place_of(0)
    d = c.dest_place()
    if pl is None or d is None:
        return None
    pl = (pl[0], pl[1] + ("iter",))
    S = ("v", pl[0], pl[1] + ("start",))
    sv = st.sym.get((pl[0], pl[1] + ("start",)))
    ev = st.sym.get((pl[0], pl[1] + ("end",)))
    if (sv is None and S not in st.iv) or (ev is None and ("v", pl[0], pl[1] + ("end",)) not in st.iv):
        return None
    s_val = sv if sv is not None and sv[0] == "n" else ("n", S, 0)
    e_val = ev if ev is not None and ev[0] == "n" else ("n", ("v", pl[0], pl[1] + ("end",)), 0)
    si = st.val_iv(s_val)
    st.kill(d, whole_local=not d[1])
    P = ("v", d[0], d[1] + (("dc", "Some"), "0"))
    pv = ("n", P, 0)
    facts = [(pv, e_val, -1)]
    if si[0] is not None:
        facts.append((("n", None, si[0]), pv, 0))
    st.kill((pl[0], pl[1] + ("start",)))
    st.set_iv(S, si[0], None)
    st.sym[d] = ("opt", "cond", ("conj", facts, []), pv)
    return "stored"


@model(r"^std::iter::Iterator::take$")
def m_iter_take(c):
    """Take { iter, n }: ghost counter fields start = 0 (steps taken), end = n"""
    d = c.dest_place()
    if d is None or len(c.args) < 2:
        return None
    c.st.kill(d, whole_local=not d[1])
    c.an.store(c.st, (d[0], d[1] + ("start",)), c.args[1][1], ("n", None, 0))
    n = c.args[1][0]
    if n[0] in ("n", "iv"):
        c.an.store(c.st, (d[0], d[1] + ("end",)), c.args[1][1], n)
    return "stored"


@model(r"^<std::iter::Take<I> as std::iter::Iterator>::next$")
def m_take_next(c):
    return _range_next(c, True, False, counter=True)


@model(r"^(std|core)::iter::range::<impl std::iter::Iterator for std::ops::Range<A>>::next$")
def m_range_next(c):
    return _range_next(c, True, False)


@model(r"^(std|core)::iter::range::<impl std::iter::Iterator for std::ops::RangeInclusive<A>>::next$")
def m_range_incl_next(c):
    return _range_next(c, True, True)


@model(r"^<std::iter::Rev<I> as std::iter::Iterator>::next$")
def m_rev_next(c):
    pt = c.pointee_tix(0)
    if pt is not None:
        s = c.an.T[pt]["s"]
        if "Range<" in s and "RangeInclusive" not in s:
            return _range_next(c, False, False)
        if "RangeInclusive<" in s:
            return _range_next(c, False, True)
        if s.startswith("std::iter::Zip<"):
            # the same number of items, from the other end: for the count it is the same walk
            return _range_next(c, True, False, counter=True, exact=True, inner=True)
    return None


@model(r"^<std::iter::Enumerate<I> as std::iter::Iterator>::next$")
def m_enum_next(c):
    st = c.st
    pl = c.place_of(0)
    d = c.dest_place()
    if pl is None or d is None:
        return None
    v = st.sym.get(pl)
    st.kill(d, whole_local=not d[1])
    P = ("v", d[0], d[1] + (("dc", "Some"), "0", "0"))
    pv = ("n", P, 0)
    facts = [(("n", None, 0), pv, 0)]
    if v is not None and v[0] == "iter" and v[1] == "enum" and v[2] is not None:
        facts.append((pv, v[2], -1))
    else:
        facts.append((pv, ("n", None, LEN_MAX), 0))
    st.sym[d] = ("opt", "cond", ("conj", facts, []), None)
    return "stored"


@model(r"^<std::slice::Iter<'a, T> as std::iter::Iterator>::position$", r"^std::iter::Iterator::position$",
       r"^<std::slice::Iter<'a, T> as std::iter::Iterator>::rposition$")
def m_position(c):
    st = c.st
    pl = c.place_of(0)
    d = c.dest_place()
    v = st.sym.get(pl) if pl is not None else None
    if d is None:
        return None
    st.kill(d, whole_local=not d[1])
    P = ("v", d[0], d[1] + (("dc", "Some"), "0"))
    pv = ("n", P, 0)
    facts = [(("n", None, 0), pv, 0)]
    if v is not None and v[0] == "iter" and v[1] == "slice":
        facts.append((pv, v[2], -1))
    else:
        facts.append((pv, ("n", None, LEN_MAX), 0))
    st.sym[d] = ("opt", "cond", ("conj", facts, []), pv)
    return "stored"


@model(r"^core::str::<impl str>::find$", r"^core::str::<impl str>::rfind$")
def m_str_find(c):
    st = c.st
    d = c.dest_place()
    if d is None:
        return None
    ln = c.len_of(0)
    st.kill(d, whole_local=not d[1])
    P = ("v", d[0], d[1] + (("dc", "Some"), "0"))
    pv = ("n", P, 0)
    st.sym[d] = ("opt", "cond", ("conj", [(("n", None, 0), pv, 0), (pv, ln, 0)], []), pv)
    return "stored"


@model(r"^<std::slice::Iter(Mut)?<'a, T> as std::iter::Iterator>::next$", r"^<std::str::Chars<'a> as std::iter::Iterator>::next$",
       r"^<std::vec::IntoIter<T, A> as std::iter::Iterator>::next$", r"^<std::array::IntoIter<T, N> as std::iter::Iterator>::next$",
       r"^<std::str::Bytes<'_> as std::iter::Iterator>::next$", r"^<std::iter::\w+<.*> as std::iter::Iterator>::next$",
       r"^<std::collections::\w+::\w+<.*> as std::iter::Iterator>::next$", r"^<std::str::\w+<.*> as std::iter::Iterator>::next$")
def m_iter_next(c):
    pl = c.place_of(0)
    return None


@model(r"^std::iter::Iterator::(for_each|fold|any|all|count|sum|collect|last|max|min|find|find_map|nth|max_by_key|min_by_key|try_for_each|product|unzip|max_by|min_by|eq|ne|cmp|partition|reduce)$",
       r"^<std::slice::Iter<'a, T> as std::iter::Iterator>::(fold|any|all|for_each|count|find|find_map|nth|last)$")
def m_iter_consume(c):
    # closures passed here are analysed as separate bodies; captured `&mut` state is forgotten here
    for i, (v, tix) in enumerate(c.args):
        if tix is None:
            continue
        ty = c.an.T[tix]
        if ty["k"] == "closure":
            forget_closure_captures(c, i)
    default_effects(c)
    if c.path.endswith("count"):
        return ("iv", 0, LEN_MAX)
    return None


def forget_closure_captures(c, i):
    """a closure that captured `&mut place` may write the place when called (narrowed by its mod summary); contract clauses
    of the closure body that hold before the call hold after it (the closure is run zero or more times)"""
    op = c.t["args"][i]
    pj = op.get("copy") or op.get("move")
    if pj is None:
        return
    can = c.an.canon(c.st, pj)
    if can is None:
        return
    base = (can[0], can[1])
    names = None
    ip = c.an.interproc
    tix = c.args[i][1]
    cdef = None
    if ip is not None and tix is not None and c.an.T[tix]["k"] == "closure":
        cdef = c.an.T[tix]["def"]
        m = ip.mod.get(cdef)
        if m is not None and not m.wild and not m.roots:
            names = m.names
    held = []
    if ip is not None and cdef is not None and ip.entry_assume is not None and cdef in c.an.f.bodies:
        s = ip.summary(cdef)
        cl = getattr(s, "clauses", None) if s is not None else None
        if cl:
            cb = c.an.f.bodies[cdef]
            env_ref = cb.tys(1).startswith("&")

            def inst(v):
                if v[0] != "n" or v[1] is None:
                    return v
                kind, root, steps = v[1]
                if root != 1:
                    return None
                st2 = steps[1:] if env_ref else steps
                if not st2:
                    return None
                cap = c.st.sym.get((base[0], base[1] + (st2[0],)))
                rest = st2[1:]
                if cap is None or cap[0] != "ref" or cap[1] is None or isinstance(cap[1], str) or rest[:1] != ("*",):
                    return None
                pl = (cap[1], cap[2] + rest[1:])
                sv = c.st.sym.get(pl)
                if sv is not None and sv[0] in ("n", "iv") and kind == "v":
                    return ("n", sv[1], sv[2] + v[2]) if sv[0] == "n" else None
                return ("n", (kind, pl[0], pl[1]), v[2])
            for name, cons in cl.items():
                insts = []
                ok = True
                for (a, b, d) in cons:
                    a2, b2 = inst(a), inst(b)
                    if a2 is None or b2 is None:
                        ok = False
                        break
                    # field invariants for dimension terms
                    for v in (a2, b2):
                        if v[0] == "n" and v[1] is not None and v[1][2][-2:] in (("size", "width"), ("size", "height")) and c.an.invariants:
                            c.st.set_iv(v[1], 1, None)
                    if not c.st.prove_le(a2, b2, d):
                        ok = False
                        break
                    insts.append((a2, b2, d))
                if ok:
                    held.append(insts)
    for p, v in list(c.st.sym.items()):
        if p[0] == base[0] and p[1][:len(base[1])] == base[1] and v[0] == "ref" and v[1] is not None and not isinstance(v[1], str):
            if names is None:
                c.st.kill_under((v[1], v[2]))
            elif names:
                c.st.kill_under((v[1], v[2]), names)
    for insts in held:
        for (a2, b2, d) in insts:
            a3 = a2 if (a2[0] != "n" or a2[1] is None) else ("n", a2[1], a2[2])
            c.st.add_le(a2, b2, d)


@model(r"^<(bool|char|u8|u16|u32|u64|usize|i8|i16|i32|i64|isize) as std::default::Default>::default$")
def m_scalar_default(c):
    return ("n", None, 0)


# =========================================================================== misc pure / formatting: no effect on tracked state
@model(r"^core::fmt::", r"^std::fmt::", r"^log::", r"^std::hint::must_use$", r"^anyhow::", r"^<T as std::string::ToString>::to_string$",
       r"^std::clone::impls::<impl std::clone::Clone for ", r"^<\w+ as std::default::Default>::default$", r"^<bool as std::ops::Not>::not$",
       r"^std::cmp::Partial(Eq|Ord)::", r"^(core|std)::cmp::impls::<impl std::cmp::Partial(Eq|Ord)", r"^core::str::traits::<impl std::cmp::PartialEq",
       r"^std::boxed::Box::<T>::new$", r"^<std::boxed::Box<T> as std::default::Default>::default$", r"^std::collections::HashMap::<K, V, S, A>::(get|contains_key|len|is_empty|iter|keys|values)$",
       r"^std::collections::HashMap::<K, V>::new$", r"^core::str::<impl str>::(starts_with|ends_with|contains|eq_ignore_ascii_case|lines|split\w*|parse|to_\w+)$",
       r"^std::str::<impl str>::(to_\w+|replace\w*|repeat)$", r"^core::num::<impl \w+>::(from_[lb]e_bytes|to_[lb]e_bytes|from_ne_bytes|to_ne_bytes|from_str_radix)$",
       r"^std::char::methods::<impl char>::(is_\w+|len_utf8|eq_ignore_ascii_case)$", r"^core::num::<impl u8>::is_\w+$",
       r"^i18n_embed", r"^lazy_static::lazy::Lazy::<T>::get$", r"^std::string::String::from_utf8(_lossy)?$", r"^std::f(32|64)::<impl f(32|64)>::", r"^core::f(32|64)::<impl f(32|64)>::",
       r"^regex::", r"^std::sync::Mutex::<T>::(new|lock)$", r"^std::sync::Arc::<T>::new$", r"^<std::sync::Arc<T, A> as std::clone::Clone>::clone$",
       r"^std::path::", r"^std::ffi::", r"^std::time::", r"^chrono::", r"^<chrono::", r"^std::thread::(sleep|spawn)$", r"^std::thread::JoinHandle::<T>::(is_finished|join)$",
       r"^base64::", r"^std::io::_print$", r"^std::fs::", r"^<std::result::Result<T, F> as std::ops::FromResidual", r"^<std::option::Option<T> as std::ops::FromResidual",
       r"^std::result::Result::<T, E>::(map_err|map|and_then|or_else|unwrap_or\w*|ok_or\w*|is_ok_and|is_err_and)$", r"^std::option::Option::<T>::(map\w*|and_then|or_else|unwrap_or\w*|ok_or\w*|filter|or|xor|zip|is_some_and|is_none_or)$",
       r"^<std::option::Option<T> as std::default::Default>::default$", r"^<std::collections::HashMap<K, V, S, A> as std::clone::Clone>::clone$",
       r"^core::hash::", r"^<.* as std::cmp::PartialEq.*>::(eq|ne)$", r"^std::(vec|array|string|slice)::.*PartialEq", r"^core::tuple::<impl std::cmp::PartialEq",
       r"^std::cmp::impls::<impl std::cmp::(Partial)?Ord for \w+>::(cmp|partial_cmp|lt|le|gt|ge)$", r"^std::cmp::(Ord|PartialOrd)::(cmp|partial_cmp|lt|le|gt|ge)$",
       r"^core::slice::<impl \[T\]>::(contains|starts_with|ends_with|iter|concat|join|binary_search\w*)$", r"^std::slice::<impl \[T\]>::(concat|join|repeat)$",
       r"^core::str::<impl str>::(strip_prefix|strip_suffix|trim\w*|char_indices|as_ptr|is_char_boundary)$")
def m_pure(c):
    # shared-reference arguments cannot be written; `&mut` formatter/string sinks are not tracked places that matter
    for i, (v, tix) in enumerate(c.args):
        if tix is not None and is_mut_ref(c.an.T[tix]):
            pl = c.place_of(i)
            if pl is not None:
                c.st.kill_under(pl)
    if c.dest_tix is not None:
        r = c.an.ty_range(c.dest_tix)
        if r is not None:
            return ("iv", r[0], r[1])
    return None


@model(r"^std::mem::(swap|replace)$")
def m_mem_swap(c):
    for i in (0, 1):
        if i < len(c.args):
            pl = c.place_of(i)
            if pl is not None:
                c.st.kill_under(pl)
    return None

"""R-PANIC (DESIGN §3.2–3.4): every panic-capable construct reachable from a root set is discharged by the
calculus, trusted (T-rules), reviewed-safe, or a listed known finding — otherwise a VIOLATION."""
import json
import os
import re
from collections import Counter, OrderedDict

from analysis import cg as CG
from analysis import facts as F
from analysis.interproc import Interproc
from analysis.report import load_table

ASSUMPTIONS = [
    "arithmetic: a result that may leave its type's range is an unknown value, as in a release build; of the overflow checks only the unsigned subtraction is in scope (class S9u: it must not go below zero - the commonest arithmetic panic of a dev / test build; where it is proven or handed to the callers, a >= b is relied on afterwards, where it stays an open finding nothing is assumed); the other overflow checks (S9) are out of scope and nothing is assumed from them",
    "A1: container lengths are below 2^31 (so `len() as i32` keeps its value)",
    "A2: 64-bit additions/multiplications of offsets and lengths do not wrap",
    "third-party crates (std, regex, png, base64, chrono, icy_sixel, anyhow, ...) panic only through the documented panicking APIs listed in analysis/callmodels.py",
    "safe Rust aliasing rules (a live &mut borrow excludes other access paths)",
]

_SHARED = {}


# field invariants of an attached terminal buffer: assumed at every read, and every store must re-establish them
# (obligation class INV, lifted to callers like any other precondition)
TERMINAL_INVARIANTS = [
    ("terminal_state::TerminalState", ("size", "width"), 1, None),
    ("terminal_state::TerminalState", ("size", "height"), 1, None),
    ("buffers::Buffer", ("is_terminal_buffer",), 1, 1),      # "attached to a terminal buffer" is the properties' own precondition
]


def shared(f, invariants=None):
    """one call graph + interprocedural engine per facts file and invariant set (several root sets reuse the summaries)"""
    key = (f.path, "inv" if invariants else "plain")
    if key not in _SHARED:
        gk = (f.path, "cg")
        if gk not in _SHARED:
            _SHARED[gk] = CG.CallGraph(f)
        g = _SHARED[gk]
        ip = Interproc(f, g)
        ip.s9_unsigned = True      # class S9u: an unsigned subtraction must not go below zero (it panics in a build with overflow checks)
        ip.invariants = list(invariants or [])
        ip.an.invariants = ip.invariants
        _SHARED[key] = (g, ip)
    return _SHARED[key]


# bodies that feed characters to BufferParser::print_char in a loop: between two iterations the cursor is whatever the
# previous print_char left (C09's guarantee applies at each iteration, not only at function entry)
DRIVERS = {"formats::parse_with_parser", "parsers::ansi::Parser::invoke_macro_by_id"}


def buffer_param(b, f):
    for i in range(1, b.argc + 1):
        s = b.tys(i)
        if s in ("&mut buffers::Buffer", "&buffers::Buffer"):
            return i
    return None


def caret_param(b, f):
    for i in range(1, b.argc + 1):
        if b.tys(i) in ("&mut caret::Caret", "&caret::Caret"):
            return i
    return None


def trusted_constraint(b, f, con, dirty=()):
    """T1/T2/T5 at a root: (a, b, c) meaning a - b <= c.  `dirty`: places written since entry on the way to the site --
    T5 speaks about the cursor as it was at entry (C09 establishes it at every exit, not in the middle of a body)"""
    from analysis.interproc import _written_hits
    a, bb, c = con
    bp = buffer_param(b, f)
    cp = caret_param(b, f)
    if cp is None:
        # a loader's driver loop (formats::parse_with_parser, and the Atascii / Seq loaders' own loops): its local caret is
        # created by Caret::default() and only ever written by the text parsers' print_char (C09)
        for l in range(b.argc + 1, len(b.locals)):
            if b.lname(l) and b.tys(l) == "caret::Caret":
                if a[0] == "n" and a[1] is None and bb[0] == "n" and bb[1] is not None and bb[1][0] == "v" \
                        and bb[1][1] == l and bb[1][2] in (("pos", "x"), ("pos", "y")) and a[2] - bb[2] <= c:
                    return "T5"
    # X < len(buf.layers) with X = current_layer parameter (T1) or the constant 0 (T2)
    if bb[0] == "n" and bb[1] is not None and bb[1][0] == "len" and bp is not None and bb[1][1] == bp and bb[1][2] == ("*", "layers") and bb[2] == 0:
        if a[0] == "n" and a[1] is None and a[2] == 0 and c == -1:
            return "T2"
        if a[0] == "n" and a[1] is not None and a[1][0] == "v" and not a[1][2] and 1 <= a[1][1] <= b.argc \
                and (b.lname(a[1][1]) in ("current_layer", "layer") or [i for i in range(1, b.argc + 1) if b.tys(i) == "usize"] == [a[1][1]]) and a[2] == 0 and c == -1:
            return "T1"
    # 0 <= caret.pos.{x,y}  (T5: guaranteed by C09's clamp rule, which checks every cursor store)
    if cp is not None and a[0] == "n" and a[1] is None and bb[0] == "n" and bb[1] is not None and bb[1][0] == "v" \
            and bb[1][1] == cp and bb[1][2] in (("*", "pos", "x"), ("*", "pos", "y")):
        # writes made by callees with a mod summary (3-tuples) are fine: every callee that takes the cursor honours {I} f {I}
        # (C09 checks each of them); direct stores and unknown callees are not
        if a[2] - bb[2] <= c and not any(_written_hits(w, (cp, bb[1][2])) for w in dirty if len(w) == 2):
            return "T5"
    return None


def regex_groups(pattern):
    """for each capturing group index (1-based): True if the group participates in every match
    (neither it nor an enclosing group is optional / repeated-from-zero / inside an alternation)"""
    res = {}
    stack = []          # (group index or None, start position, had alternation)
    alt_levels = [False]
    n = 0
    i = 0
    L = len(pattern)
    closed = []         # (index, optional flag, enclosing indices)
    in_class = False
    while i < L:
        ch = pattern[i]
        if ch == "\\":
            i += 2
            continue
        if in_class:
            if ch == "]":
                in_class = False
            i += 1
            continue
        if ch == "[":
            in_class = True
        elif ch == "(":
            cap = not pattern.startswith("(?", i) or pattern.startswith("(?P<", i) or pattern.startswith("(?<", i) and not pattern.startswith("(?<=", i) and not pattern.startswith("(?<!", i)
            idx = None
            if cap:
                n += 1
                idx = n
            stack.append([idx, [x[0] for x in stack if x[0] is not None]])
            alt_levels.append(False)
        elif ch == ")":
            if not stack:
                return None
            idx, encl = stack.pop()
            had_alt = alt_levels.pop()
            opt = False
            j = i + 1
            if j < L and (pattern[j] in "?*" or pattern.startswith("{0", j)):
                opt = True
            closed.append((idx, opt, encl, had_alt))
        elif ch == "|":
            alt_levels[-1] = True
        i += 1
    if stack:
        return None
    top_alt = alt_levels[0]
    optional_groups = {idx for idx, opt, encl, ha in closed if opt and idx is not None}
    # groups (capturing or not) that are optional make everything inside optional: recompute by nesting
    # (closed records only capture indices of enclosing *capturing* groups; non-capturing optional groups are handled conservatively)
    noncap_optional = any(opt for idx, opt, encl, ha in closed if idx is None)
    for idx, opt, encl, ha in closed:
        if idx is None:
            continue
        always = not opt and not top_alt and not noncap_optional
        for e in encl:
            if e in optional_groups:
                always = False
        # a group inside an alternation of an enclosing group may not participate
        for idx2, opt2, encl2, ha2 in closed:
            if idx2 is not None and idx2 in encl and ha2:
                always = False
        res[idx] = always
    return res


def _regex_literal(body):
    """the string literal passed to the single Regex::new call of a lazy-static initialiser, or None"""
    from analysis.expr import ExprBuilder
    eb = ExprBuilder(body)
    pats = []
    for _, t in body.calls():
        if (t["callee"].get("resolved") or "") == "regex::Regex::new":
            e = eb.operand(t["args"][0])
            while e[0] in ("ref", "deref"):
                e = e[1]
            pats.append(e[1] if e[0] == "str" else None)
    if len(pats) == 1:
        return pats[0]
    return None


def regex_statics_in(f, body):
    """regex lazy statics whose captures / captures_iter / is_match … are used in the body -> {static name: pattern}"""
    out = {}
    for bi, t in body.calls():
        c = t["callee"]
        res = c.get("resolved") or ""
        if res.endswith("as std::ops::Deref>::deref") and res.startswith("<") and "::" in res:
            name = res[1:].split(" as ")[0]
            init = f.bodies.get("<%s as std::ops::Deref>::deref::__static_ref_initialize" % name)
            if init is None:
                continue
            pat = _regex_literal(init)
            if pat is not None:
                out[name] = pat
    return out


def _op_of(cls, desc):
    """operation and failing side of a site: `index_mut #upper`"""
    if cls == "S5":
        return desc
    if " ~" in desc:
        part_ = re.search(r" (#[a-z+0-9!<>= ()&*._-]+)$", desc)
        desc = desc.split(" ~")[0] + ((" " + part_.group(1)) if part_ else "")
    m = re.match(r"^([A-Za-z_][\w:]*)", desc)
    part = re.search(r" (#[a-z+0-9!<>= ()&*._-]+)$", desc)
    return (m.group(1) if m else desc.split("(")[0]) + ((" " + part.group(1)) if part else "")


def _skel_of(desc):
    """skeleton and failing side of a description / key shape: `index(_, (_ + 1)) #upper`"""
    if " ~" not in desc:
        return None
    return desc.split(" ~", 1)[1].split("|in=")[0]


_IDENT = re.compile(r"[A-Za-z_][A-Za-z0-9_]*")


def coarse_desc(cls, desc):
    """what a key keeps of a site's description: its shape - operations, callees, field names, constants, casts and which
    side failed - with the names of locals blanked out.  Renaming a local or hoisting a sub-expression into a `let` (single
    definitions are folded back by the expression builder) does not make a reviewed or known site a new one; a different
    constant, field or callee at the same place does.  Explicit panics keep their message."""
    if cls == "S5":
        return desc

    def sub(m):
        w = m.group(0)
        i, j = m.start(), m.end()
        if i > 0 and body[i - 1].isdigit():
            return w            # the tail of a number literal (0x100)
        if w == "self" or w[0].isupper() or (i > 0 and body[i - 1] == ".") or body[j:j + 1] == "(" or body[max(0, i - 3):i] == "as " \
                or body[j:j + 1] == ":" or body[max(0, i - 1):i] == ":":
            return w
        if w == "as":
            return w
        return "_"
    body = desc
    part = re.search(r" (#[a-z+0-9!<>= ()&*._-]+)$", desc)
    if part:
        body = desc[:part.start()]
    skel = ""
    if " ~" in body:
        body, skel = body.split(" ~", 1)
        skel = " ~" + skel
    out = []
    pos = 0
    for m in _IDENT.finditer(body):
        out.append(body[pos:m.start()])
        out.append(sub(m))
        pos = m.end()
    out.append(body[pos:])
    return "".join(out) + skel + ((" " + part.group(1)) if part else "")


def run_scope(chk, scope, roots, floor_roots, floor_bodies, floor_sinks, reviewed_file, trust_caret=True, extra_known_roots=(), invariants=None):
    f = F.load()
    g, ip = shared(f, invariants)
    chk.assumptions = ASSUMPTIONS
    chk.rules.append("R-PANIC/%s" % scope)
    missing = [r for r in roots if r not in f.bodies]
    chk.floor("R-PANIC", "%s roots" % scope, len(roots) - len(missing), floor_roots)
    reach = g.reachable([r for r in roots if r in f.bodies])
    bodies = [bid for bid in sorted(reach) if f.bodies[bid].kind in ("fn", "method", "closure")]
    chk.floor("R-PANIC", "%s reachable bodies" % scope, len(bodies), floor_bodies)
    rounds = ip.run_scope(bodies)
    chk.cov.setdefault("interprocedural_rounds", {})[scope] = rounds
    rootset = set(roots)
    stats = Counter()
    rules = Counter()
    sites = OrderedDict()     # identity -> record
    n_sinks = 0
    for bid in bodies:
        r = ip.results.get(bid)
        if r is None:
            continue
        b = f.bodies[bid]
        isroot = bid in rootset
        for o in r.obls:
            if o.cls == "S9":
                stats["S9 (out of scope)"] += 1
                continue
            lifted_here = o.trust is not None and o.trust[0] == "origin"
            if not lifted_here:
                n_sinks += 1
                stats[o.cls] += 1
            if o.ok:
                if not lifted_here:
                    rules[o.rule or "?"] += 1
                    chk.obligation(True)
                continue
            exported = (o.rule == "exported")
            final_here = (not exported) or isroot or (b.kind == "closure" and bid not in ip.closure_checked)
            if not final_here:
                continue
            origin = o.trust[1] if lifted_here else bid
            chain = o.trust[2] if lifted_here else [bid]
            # trust rules apply to what remains unproven at a root
            trust = None
            if o.lift is not None or o.raw:
                lf = o.lift
                cons = None
                if o.raw:
                    cons = o.raw
                elif lf[0] == "conj":
                    cons = lf[1]
                elif lf[0] == "lifted" and lf[1].kind == "conj":
                    cons = lf[1].parts[0]
                if cons:
                    ts = [trusted_constraint(b, f, con, o.dirty or ()) for con in cons]
                    # T1/T2 are facts about the arguments of the entry points; T5 is a global invariant of the cursor at body
                    # entry and may discharge a residue wherever it is final (e.g. a closure run in a loop)
                    if all(ts) and (isroot or bid in DRIVERS or set(ts) == {"T5"}):
                        trust = "+".join(sorted(set(ts)))
            ident = (origin, o.cls, o.desc, o.line)
            rec = sites.get(ident)
            if rec is None:
                rec = sites[ident] = {"origin": origin, "cls": o.cls, "desc": o.desc, "file": o.file, "line": o.line, "what": o.what,
                                      "fails": [], "trusted": []}
            (rec["trusted"] if trust else rec["fails"]).append((bid, chain, trust))
            if os.environ.get("PANIC_DEBUG") and os.environ["PANIC_DEBUG"] in o.desc and not trust:
                print("DEBUG final at %s cls=%s raw=%s lift=%s dirty=%s" % (bid, o.cls, o.raw, o.lift and o.lift[0], sorted(o.dirty or (), key=str)[:12]))
    # a sink site is fine if every path that reaches a final verdict is trusted
    reviewed = {}
    try:
        for e in load_table(reviewed_file):
            if chk.prop in e.get("properties", []) or e.get("property") == chk.prop:
                reviewed[e["key"]] = (e.get("count", 1), e["reason"])
    except FileNotFoundError:
        pass
    n_trusted = 0
    import re as _re
    for ident, rec in sites.items():
        # T4: Regex::new(<literal>) in a lazy static initialiser
        if rec["fails"] and rec["cls"] == "S4" and rec["origin"].endswith("::__static_ref_initialize") and rec["desc"].startswith("unwrap(new(&*'"):
            ob = f.bodies[rec["origin"]]
            pats = [_regex_literal(ob)]
            ok = False
            if len(pats) == 1 and pats[0] is not None:
                try:
                    _re.compile(pats[0])
                    ok = regex_groups(pats[0]) is not None
                except _re.error:
                    ok = False
            if ok:
                rec["trusted"].append((rec["origin"], [rec["origin"]], "T4"))
                rec["fails"] = []
        # D5/R-regex: caps.get(k).unwrap() on a capture group that participates in every match
        m = _re.match(r"^unwrap\(get\(&.*, (\d+)\)\)$", rec["desc"].split(" ~")[0]) if rec["fails"] and rec["cls"] == "S4" else None
        if m:
            ob = f.bodies[rec["origin"]]
            statics = regex_statics_in(f, ob)
            if len(statics) == 1:
                pat = next(iter(statics.values()))
                groups = regex_groups(pat)
                k = int(m.group(1))
                if groups is not None and groups.get(k) is True:
                    rec["trusted"].append((rec["origin"], [rec["origin"]], "D5-regex"))
                    rec["fails"] = []
        if not rec["fails"]:
            n_trusted += 1
            rules["trusted:" + rec["trusted"][0][2]] += 1
            chk.obligation(True)
            continue
        chk.obligation(False)
        # one finding per (site, body in which the obligation stops being liftable): a known / reviewed entry covers exactly the
        # call paths that were looked at -- the same site failing through a *new* caller is a new key
        seen_final = set()
        for bid_f, chain, t in rec["fails"]:
            fin = F.short_name(bid_f)
            if fin in seen_final:
                continue
            seen_final.add(fin)
            fine = "%s|%s|%s" % (F.short_name(rec["origin"]), rec["cls"], rec["desc"])
            key = "%s|%s|%s" % (F.short_name(rec["origin"]), rec["cls"], coarse_desc(rec["cls"], rec["desc"]))
            if fin != F.short_name(rec["origin"]):
                key += "|in=" + fin
                fine += "|in=" + fin
            chk.finding(key, detail=fine, moved=(rec["origin"], rec["cls"], _op_of(rec["cls"], rec["desc"])), skel=_skel_of(rec["desc"]), rule="R-PANIC/%s" % rec["cls"],
                        where="%s:%s" % (rec["file"], rec["line"]), fn=F.short_name(rec["origin"]),
                        what=rec["what"], why="not discharged by D1-D8, not trusted (T1,T2,T5), not lifted to a caller that proves it",
                        path=" <- ".join(F.short_name(x) for x in chain[:6]), undischarged_in=fin)
    # a reviewed / known site that has left function f and shows up, as the same kind of operation, in a function f calls is the
    # same site in an extracted helper (see Check.finish)
    by_short = {}
    for bid_ in f.bodies:
        by_short.setdefault(F.short_name(bid_), []).append(bid_)
    prev = getattr(chk, "calls_into", None)

    def calls_into(fn_short, origin_id, _prev=prev):
        if any(origin_id in g.callees(x) for x in by_short.get(fn_short, ())):
            return True
        return bool(_prev and _prev(fn_short, origin_id))
    chk.calls_into = calls_into
    chk.floor("R-PANIC", "%s sinks classified" % scope, n_sinks, floor_sinks)
    chk.cov.setdefault("scopes", OrderedDict())[scope] = OrderedDict(
        roots=len(roots), reachable_bodies=len(bodies), sinks_by_class=dict(sorted(stats.items())),
        discharged_by_rule=dict(sorted(rules.items())), sink_sites_trusted=n_trusted,
        sink_sites_undischarged=sum(1 for r in sites.values() if r["fails"]))
    for ident, rec in list(sites.items())[:3]:
        chk.sample("%s %s:%s %s — %s" % (rec["cls"], rec["file"], rec["line"], rec["desc"][:80], rec["what"][:80]))
    return reviewed


def finish(chk, reviewed, what):
    sc = chk.cov.get("scopes", {})
    tot_b = sum(v["reachable_bodies"] for v in sc.values())
    tot_s = sum(sum(n for k, n in v["sinks_by_class"].items() if not k.startswith("S9")) for v in sc.values())
    return chk.finish(
        "%s Abstract interpretation (intervals + difference constraints + length relations, interprocedural precondition "
        "lifting) over the MIR of %d reachable bodies; %d panic-capable sinks classified." % (what, tot_b, tot_s),
        reviewed=reviewed)

"""C09 — cursor and fixed-grid geometry stay consistent under any stream.

Decided (Hoare-style, modular abstract interpretation: every function that receives the cursor is analysed once with an
arbitrary entry state and once assuming the invariant I at entry; at a call site the callee's conditional postcondition is used
only where I is proven to hold before the call):
  R-COL        at every return of every text-mode print_char:  0 <= cursor.x <= terminal width - 1      (the column clause, exactly)
  R-ROW-LO     …and 0 <= cursor.y                                                                        (necessary part of the row clause)
  R-ROW-FIXED  Viewdata / Mode 7 (fixed 40x24 pages):  cursor.y <= terminal height - 1                  (full row clause for fixed grids)
  R-DIM        every store to TerminalState.size.{width,height} is proven >= 1 (the invariant the clamps rely on)
  R-CLAMP-SHAPE  TerminalState::limit_caret_pos clamps the row to [first_visible_line, first_visible_line + height - 1] and the
               column to [0, max(width-1, 0)] (linear normal form of the clamp arguments with local getters inlined)
  R-ROW-CLAMP  for the scrolling emulations every store to cursor.y in code reachable from print_char is followed on all paths by
               limit_caret_pos, is of a recognised in-range form, or sits in a reviewed wrap/scroll primitive
  R-FIXED-GRID from the Viewdata / Mode 7 entry points no path reaches a buffer/layer/terminal resize, Caret::lf or Buffer::print_char
Not decided: the upper row bound for scrolling terminals beyond the shape of the clamp ("rows currently shown" is a three-term
relation outside the difference-constraint domain)."""
import re

from analysis import cg as CG
from analysis import facts as F
from analysis import roots as R
from analysis.absint import Analyzer
from analysis.expr import ExprBuilder, show
from analysis.interproc import Interproc
from analysis.report import load_table
from rules import panic_common as P

LIMIT = "terminal_state::TerminalState::limit_caret_pos"
CARET_TYS = ("&mut caret::Caret", "&caret::Caret")
BUF_TYS = ("&mut buffers::Buffer", "&buffers::Buffer")
FIXED = ("parsers::viewdata::", "parsers::mode7::")
GROWERS = ("buffers::Buffer::set_size", "buffers::Buffer::set_width", "buffers::Buffer::set_height", "layer::Layer::set_size", "layer::Layer::set_width",
           "layer::Layer::set_height", "terminal_state::TerminalState::set_size", "terminal_state::TerminalState::set_width",
           "terminal_state::TerminalState::set_height", "parsers::<impl caret::Caret>::lf", "parsers::<impl buffers::Buffer>::print_char")


# cursor setters: transparent for R-ROW-CLAMP (value = index of the argument carrying the row / position)
SETTERS = {"caret::Caret::set_position": 1, "caret::Caret::set_position_xy": 2, "caret::Caret::set_y_position": 1, "caret::Caret::set_x_position": None}


def params(b):
    cp = bp = None
    for i in range(1, b.argc + 1):
        s = b.tys(i)
        if s in CARET_TYS and cp is None:
            cp = i
        if s in BUF_TYS and bp is None:
            bp = i
    return cp, bp


def is_fixed(b):
    return any(b.id.startswith(m) or ("<" + m) in b.id or (" " + m) in b.id for m in FIXED) or any(m in (b.impl_self_s or "") for m in FIXED)


def closure_captures(b):
    """{capture field name: type string} of the reference-typed captures a closure body uses"""
    out = {}
    T = b.f.types
    for bi, k, s in b.stmts():
        if s["k"] != "assign":
            continue
        for pj in _places_of_rvalue(s["rv"]):
            proj = pj.get("p", [])
            if pj["l"] == 1 and proj:
                els = [e for e in proj if e != "*"]
                if els and els[0][0] == "f":
                    out[els[0][2]] = T[els[0][4]]["s"]
    return out


def _places_of_rvalue(rv):
    for key in ("a", "b"):
        o = rv.get(key)
        if isinstance(o, dict):
            pj = o.get("copy") or o.get("move")
            if pj is not None:
                yield pj
    if "p" in rv and isinstance(rv["p"], dict):
        yield rv["p"]
    for o in rv.get("ops", []):
        pj = o.get("copy") or o.get("move")
        if pj is not None:
            yield pj


def clauses(b):
    """contract clauses {name: [(a, b, c)]} [a - b <= c] over this body's parameters"""
    zero = ("n", None, 0)
    if b.kind == "closure":
        caps = closure_captures(b)
        env_ref = b.tys(1).startswith("&")
        pre = ("*",) if env_ref else ()
        ck = [k for k, t in caps.items() if t in CARET_TYS]
        bk = [k for k, t in caps.items() if t in BUF_TYS]
        tk = [k for k, t in caps.items() if t in ("&terminal_state::TerminalState", "&mut terminal_state::TerminalState")]
        if len(ck) != 1:
            return {}
        x = ("n", ("v", 1, pre + (ck[0], "*", "pos", "x")), 0)
        y = ("n", ("v", 1, pre + (ck[0], "*", "pos", "y")), 0)
        out = {"row-lo": [(zero, y, 0)]}
        w = None
        if len(tk) == 1:
            w = ("n", ("v", 1, pre + (tk[0], "*", "size", "width")), 0)
        elif len(bk) == 1:
            w = ("n", ("v", 1, pre + (bk[0], "*", "terminal_state", "size", "width")), 0)
        if w is not None:
            out["col"] = [(zero, x, 0), (x, w, -1)]
        else:
            out["col-lo"] = [(zero, x, 0)]
        return out
    cp, bp = params(b)
    if cp is None or b.id in SETTERS:
        # the plain setters are transparent: the stored value is the caller's obligation (their exit facts say x' = argument)
        return {}
    x = ("n", ("v", cp, ("*", "pos", "x")), 0)
    y = ("n", ("v", cp, ("*", "pos", "y")), 0)
    out = {}
    tp = None
    for i in range(1, b.argc + 1):
        if b.tys(i) in ("&terminal_state::TerminalState", "&mut terminal_state::TerminalState"):
            tp = i
    if bp is not None or tp is not None:
        if tp is not None:
            # methods of TerminalState (limit_caret_pos): `self` *is* buf.terminal_state at every call site
            w = ("n", ("v", tp, ("*", "size", "width")), 0)
            h = ("n", ("v", tp, ("*", "size", "height")), 0)
        else:
            w = ("n", ("v", bp, ("*", "terminal_state", "size", "width")), 0)
            h = ("n", ("v", bp, ("*", "terminal_state", "size", "height")), 0)
        out["col"] = [(zero, x, 0), (x, w, -1)]
        if is_fixed(b):
            out["row-fixed"] = [(zero, y, 0), (y, h, -1)]
        else:
            out["row-lo"] = [(zero, y, 0)]
    else:
        out["col-lo"] = [(zero, x, 0)]
        out["row-lo"] = [(zero, y, 0)]
    return out


RULE_OF = {"col": "R-COL", "col-lo": "R-COL", "row-lo": "R-ROW-LO", "row-fixed": "R-ROW-FIXED"}
TEXT_OF = {"col": "0 <= x <= width-1", "col-lo": "0 <= x", "row-lo": "0 <= y", "row-fixed": "0 <= y <= height-1"}




def engine(f):
    key = (f.path, "c09")
    if key not in P._SHARED:
        gk = (f.path, "cg")
        if gk not in P._SHARED:
            P._SHARED[gk] = CG.CallGraph(f)
        g = P._SHARED[gk]
        ip = Interproc(f, g)
        ip.invariants = list(P.TERMINAL_INVARIANTS)
        ip.an.invariants = ip.invariants
        ip.entry_assume = clauses
        # A3: cursor coordinates are far from the i32 limits (adding / subtracting a small constant does not wrap)
        # limit_caret_pos is the cleaning primitive: it must establish its clauses from any entry state, and callers rely on that
        ip.establishers = {LIMIT: ("col", "row-lo")}
        ip.nowrap = lambda t: t[0] == "v" and t[2][-2:] in (("pos", "x"), ("pos", "y"))
        ip.an.nowrap = ip.nowrap
        P._SHARED[key] = (g, ip)
    return P._SHARED[key]


def last_touch(b, eb, bi, cp):
    """description of the nearest call / store before block bi (walking unique predecessors) that involves the cursor"""
    seen = 0
    x = bi
    while x is not None and seen < 60:
        seen += 1
        t = b.blocks[x]["term"]
        for s in reversed(b.blocks[x]["stmts"]):
            if s["k"] == "assign":
                proj = [el[2] for el in s["p"].get("p", []) if el != "*" and el[0] == "f"]
                if proj[-2:] in (["pos", "x"], ["pos", "y"]) or proj[-1:] == ["pos"]:
                    return "store pos.%s = %s" % (proj[-1], show(eb.rvalue(s["rv"]))[:60])
        ps = b.pred[x]
        if len(ps) != 1:
            return None
        p = ps[0]
        tp = b.blocks[p]["term"]
        if tp["k"] == "call":
            e = show(eb.call_expr(tp))
            if "caret" in e or "pos" in e:
                return "after " + e[:70]
        x = p
    return None


def _field_chain(e):
    names = []
    while e[0] == "field":
        names.append(e[2])
        e = e[1]
    while e[0] in ("deref", "ref"):
        e = e[1]
    return e, list(reversed(names))


def linear_nf(e, f, self_ty, depth=0):
    """linear normal form ({atom: coefficient}, constant) of an i32 expression.  Straight-line getters are inlined; atoms
    are `Type.field.path` (fields of `self`, qualified by the type of the body they occur in) and full callee paths --
    receivers are ignored: within the cursor code there is one Buffer and one TerminalState (buf.terminal_state)."""
    if depth > 12:
        return None
    k = e[0]
    if k == "const":
        return ({}, e[1])
    if k == "cast":
        return linear_nf(e[2], f, self_ty, depth + 1)
    if k == "bin" and e[1] in ("Add", "Sub"):
        a, b = linear_nf(e[2], f, self_ty, depth + 1), linear_nf(e[3], f, self_ty, depth + 1)
        if a is None or b is None:
            return None
        sign = 1 if e[1] == "Add" else -1
        out = dict(a[0])
        for kk, v in b[0].items():
            out[kk] = out.get(kk, 0) + sign * v
        return ({kk: v for kk, v in out.items() if v != 0}, a[1] + sign * b[1])
    if k == "call":
        cb = f.bodies.get(e[1])
        if cb is not None and cb.nblocks <= 6 and not cb.back_edges and all(bl["term"]["k"] in ("call", "assert", "return", "goto") for bl in cb.blocks):
            ceb = ExprBuilder(cb)
            rets = []
            for bi, kk in cb.defs.get(0, []):
                rets.append(ceb.call_expr(cb.blocks[bi]["term"]) if kk == "term" else ceb.rvalue(cb.blocks[bi]["stmts"][kk]["rv"]))
            if len(rets) == 1:
                r = linear_nf(rets[0], f, cb.impl_self_s, depth + 1)
                if r is not None:
                    return r
        nm = e[1].split("::")[-1]
        if nm in ("max", "min"):
            parts = []
            for a in e[2]:
                n = linear_nf(a, f, self_ty, depth + 1)
                parts.append(show(a) if n is None else "%s%+d" % ("+".join("%d*%s" % (v, kk) for kk, v in sorted(n[0].items())), n[1]))
            return ({"%s(%s)" % (nm, ", ".join(sorted(parts))): 1}, 0)
        return ({e[1] + "()": 1}, 0)
    if k == "field":
        root, names = _field_chain(e)
        if root[0] == "var" and root[1] == 1 and self_ty:
            return ({"%s.%s" % (self_ty, ".".join(names)): 1}, 0)
    return ({show(e): 1}, 0)


def run(chk):
    f = F.load()
    g, ip = engine(f)
    chk.rules = ["R-COL", "R-ROW-LO", "R-ROW-FIXED", "R-DIM", "R-ORIGIN", "R-CLAMP-SHAPE", "R-FV-SHAPE", "R-GROW", "R-ROW-CLAMP", "R-FIXED-GRID"]
    chk.assumptions = list(P.ASSUMPTIONS) + [
        "the property's own precondition: the stream does not request a text-area resize between two checks of the invariant "
        "(the invariant is assumed at entry of print_char and proven at every return)",
        "the upper row bound of scrolling terminals is decided only through the shape of limit_caret_pos's clamp",
        "A3: cursor coordinates are far from the i32 limits: adding or subtracting a constant of magnitude <= 65536 to caret.pos.x / caret.pos.y does not wrap"]
    reviewed = {}
    try:
        for e in load_table("reviewed_safe.json"):
            if "C09" in e.get("properties", []):
                reviewed[e["key"]] = (e.get("count", 1), e["reason"])
    except FileNotFoundError:
        pass
    roots = R.txt_roots(f)
    chk.floor("R-COL", "text-mode print_char roots", len(roots), 10)
    reach = g.reachable(roots)
    bodies = [bid for bid in sorted(reach) if f.bodies[bid].kind in ("fn", "method", "closure")]
    # ------------------------------------------------------------------ R-ORIGIN: origin mode (DECOM) cannot be switched on
    # The WithinMargins arms of limit_caret_pos / upper_left_position derive rows from the margins, which no setter validates.
    # They are dead as long as nothing stores OriginMode::WithinMargins: checked here, crate wide, on every run.
    nstore = 0
    origin_ok = True
    for b in f.bodies.values():
        if b.kind not in ("fn", "method", "closure"):
            continue
        ebo = None
        for bi, k, s_ in b.stmts():
            if s_["k"] != "assign":
                continue
            proj = s_["p"].get("p", [])
            direct = bool(proj) and proj[-1] != "*" and proj[-1][0] == "f" and proj[-1][2] == "origin_mode"
            agg = s_["rv"]["k"] == "agg" and (s_["rv"].get("adt") or "").endswith("terminal_state::TerminalState")
            if not (direct or agg):
                continue
            ebo = ebo or ExprBuilder(b)
            if direct:
                val = show(ebo.rvalue(s_["rv"]))
            else:
                adt = f.adts.get("terminal_state::TerminalState")
                names = [x[0] for x in adt["variants"][0]["fields"]] if adt else []
                ops = s_["rv"].get("ops", [])
                val = show(ebo.operand(ops[names.index("origin_mode")])) if "origin_mode" in names and names.index("origin_mode") < len(ops) else "?"
            nstore += 1
            # a copy of an existing origin mode (derived Clone, struct update) introduces no new value
            ok = ("WithinMargins" not in val) and ("UpperLeftCorner" in val or val.endswith(".origin_mode") or val.endswith(".origin_mode)"))
            chk.obligation(ok)
            origin_ok = origin_ok and ok
            if not ok:
                chk.finding("%s|origin-mode-store|%s" % (b.short(), val[:40]), rule="R-ORIGIN", where="%s:%s" % (b.file, s_["line"]), fn=b.short(),
                            what="origin mode can be set to `%s`: the WithinMargins arms of limit_caret_pos / upper_left_position become live, and they place "
                                 "the cursor by margins that no setter validates (CSI 0;0 r stores -1, CSI 1;9999 r a row below the screen)" % val[:60])
    chk.floor("R-ORIGIN", "stores to TerminalState.origin_mode (field stores and struct literals)", nstore, 2)
    # with no store of WithinMargins anywhere, the WithinMargins arm of every `match ..origin_mode` is dead: the analysis does not
    # follow those edges (the arms derive rows from unvalidated margins and would otherwise taint the join after the match)
    if origin_ok:
        ip.infeasible = origin_dead_edges(f, bodies)
    ip.run_scope(bodies)
    # ------------------------------------------------------------------ every body honours its contract {clause} f {clause}
    nret = 0
    ncontract = 0
    for bid in bodies:
        b = f.bodies[bid]
        cl = clauses(b)
        if not cl:
            continue
        cres = ip.clause_results.get(bid)
        if cres is None:
            if bid in roots:
                chk.anchor(False, "R-COL", "contract analysis of %s" % b.short())
            continue
        cp, bp = params(b)
        eb = ExprBuilder(b)
        # edges into the return block(s), through trivial forwarding blocks
        edges = []
        seen = set()
        # an exit block that itself stores to the cursor is judged at its terminator, not on the edges into it
        own = [x for x in b.exits if any(s2["k"] == "assign" and "pos" in str(s2["p"]) for s2 in b.blocks[x]["stmts"])]
        stack = [x for x in b.exits if x not in own]
        while stack:
            x = stack.pop()
            if x in seen:
                continue
            seen.add(x)
            for p in b.pred[x]:
                tp = b.blocks[p]["term"]
                trivial = tp["k"] in ("goto", "drop") and not any(s2["k"] == "assign" and "pos" in str(s2["p"]) for s2 in b.blocks[p]["stmts"])
                if trivial and len(b.succ[p]) == 1:
                    stack.append(p)
                else:
                    edges.append((p, x))
        for name, cons in cl.items():
            res = cres.get(name)
            if res is None:
                continue
            ncontract += 1
            work = [(p, x, res.edge_states.get((p, x))) for (p, x) in edges]
            # a return block without incoming edges (single-block bodies) / reached directly: the state at its terminator
            if not edges or own:
                for bi, rst in res.ret_states:
                    if not edges or bi in own:
                        work.append((bi, bi, rst))
            for (p, x, st) in work:
                if st is None or st.bottom:
                    continue
                nret += 1
                st = st.copy()
                for (a, bb, c) in cons:
                    for v in (a, bb):
                        if v[0] == "n" and v[1] is not None and v[1][2][-2:] in (("size", "width"), ("size", "height")):
                            st.set_iv(v[1], 1, None)       # field invariant of TerminalState.size (R-DIM)
                ok = all(st.prove_le(a, bb, c) for (a, bb, c) in cons)
                chk.obligation(ok)
                if not ok:
                    lt = last_touch(b, eb, p, cp)
                    if lt is None:
                        tp = b.blocks[p]["term"]
                        lt = ("after " + show(eb.call_expr(tp))[:60]) if tp["k"] == "call" else "return path"
                    chk.finding("%s|%s|%s" % (b.short(), name, lt), rule=RULE_OF[name], where="%s:%s" % (b.file, b.blocks[p]["term"].get("line")), fn=b.short(),
                                what="given `%s` at entry, `%s` is not re-established on this return path (callees are assumed to honour the same contract)" % (TEXT_OF[name], TEXT_OF[name]))
    chk.floor("R-COL", "return paths checked against a contract clause", nret, 300)
    chk.cov["contracts_checked"] = ncontract
    # ------------------------------------------------------------------ R-DIM
    ninv = 0
    for bid in bodies:
        res = ip.results.get(bid)
        if res is None:
            continue
        b = f.bodies[bid]
        for o in res.obls:
            if o.cls != "INV" or (o.trust and o.trust[0] == "origin" and o.rule == "exported"):
                continue
            if o.trust and o.trust[0] == "origin":
                if o.ok or o.rule == "exported":
                    continue
            else:
                ninv += 1
                if o.ok or o.rule == "exported":
                    chk.obligation(True)
                    continue
            chk.obligation(False)
            origin = o.trust[1] if (o.trust and o.trust[0] == "origin") else bid
            chk.finding("%s|INV|%s" % (F.short_name(origin), o.desc), rule="R-DIM", where="%s:%s" % (o.file, o.line), fn=F.short_name(origin),
                        what=o.what + " (undischarged in %s)" % b.short())
    chk.floor("R-DIM", "stores to TerminalState.size in scope", ninv, 2)
    # ------------------------------------------------------------------ R-CLAMP-SHAPE
    lb = f.method("terminal_state::TerminalState", "limit_caret_pos")
    if chk.anchor(lb is not None, "R-CLAMP-SHAPE", "anchor missing: TerminalState::limit_caret_pos"):
        eb = ExprBuilder(lb)

        def inline(e):
            # one-level inlining of trivial local getters: `fn get_x(&self) -> i32 { self.a.b }` / sums of getters
            cid = e[1]
            cb = f.bodies.get(cid)
            if cb is None or cb.nblocks > 6 or cb.back_edges:
                return None
            ceb = ExprBuilder(cb)
            rets = []
            for bi, k in cb.defs.get(0, []):
                rets.append(ceb.call_expr(cb.blocks[bi]["term"]) if k == "term" else ceb.rvalue(cb.blocks[bi]["stmts"][k]["rv"]))
            if len(rets) != 1:
                return None
            r = rets[0]

            def subst(x):
                if not isinstance(x, tuple):
                    return x
                if x[0] == "var" and isinstance(x[1], int) and 1 <= x[1] <= cb.argc and x[1] - 1 < len(e[2]):
                    return e[2][x[1] - 1]
                return tuple(subst(y) if isinstance(y, tuple) else ([subst(z) for z in y] if isinstance(y, list) else y) for y in x)
            return subst(r)
        clamps = []
        for bi, t in lb.calls():
            if (t["callee"].get("resolved") or "").endswith("::clamp"):
                args = [eb.operand(a) for a in t["args"]]
                tgt = None
                for s in lb.blocks[t["target"]]["stmts"] if t.get("target") is not None else []:
                    if s["k"] == "assign":
                        proj = [el[2] for el in s["p"].get("p", []) if el != "*" and el[0] == "f"]
                        if proj[-2:-1] == ["pos"]:
                            tgt = proj[-1]
                    if tgt:
                        break
                if tgt is None:
                    # `let n = clamp(..); caret.pos.y = n;`
                    d = t["dest"]["l"]
                    for bi2, k2, s2 in lb.stmts():
                        if s2["k"] == "assign" and s2["rv"]["k"] == "use" and (s2["rv"]["a"].get("copy") or s2["rv"]["a"].get("move") or {}).get("l") == d:
                            proj = [el[2] for el in s2["p"].get("p", []) if el != "*" and el[0] == "f"]
                            if proj[-2:-1] == ["pos"]:
                                tgt = proj[-1]
                clamps.append((bi, t, args, tgt))
        chk.floor("R-CLAMP-SHAPE", "clamp calls in limit_caret_pos", len(clamps), 2)
        FV, FE, LE = "buffers::Buffer::get_first_visible_line()", "buffers::Buffer::get_first_editable_line()", "buffers::Buffer::get_last_editable_line()"
        HEIGHTS = ("terminal_state::TerminalState.size.height",)
        WIDTHS = ("terminal_state::TerminalState.size.width",)
        for bi, t, args, tgt in clamps:
            lo = linear_nf(args[1], f, lb.impl_self_s)
            hi = linear_nf(args[2], f, lb.impl_self_s)
            sx = show(args[0])
            if tgt == "x":
                ok = lo == ({}, 0) and hi is not None and hi[1] == 0 and any(hi[0] == {"max(+0, 1*%s-1)" % w: 1} for w in WIDTHS)
                want = "[0, max(width-1, 0)]"
            elif tgt == "y":
                ok_ul = lo == ({FV: 1}, 0) and hi is not None and hi[1] == -1 and any(hi[0] == {FV: 1, h: 1} for h in HEIGHTS)
                # origin mode: [first editable line, max(last editable line - 1, first editable line)] -- the region lies inside the screen
                # iff the margins do (see the row clauses of set_top_and_bottom_margins / change_scrolling_region)
                ok_wm = lo == ({FE: 1}, 0) and hi is not None and hi[1] == 0 and len(hi[0]) == 1 and re.fullmatch(
                    r"max\(1\*%s\+0, 1\*%s(-1|\+0)\)" % (re.escape(FE), re.escape(LE)), list(hi[0])[0]) is not None
                ok = ok_ul or ok_wm
                want = "[first_visible_line, first_visible_line + height - 1] (or the editable region in origin mode)"
            else:
                ok = False
                want = "a clamp whose result is stored into caret.pos.x / caret.pos.y"
            chk.obligation(ok)
            if not ok:
                chk.finding("limit_caret_pos|clamp|%s|%s" % (tgt, show(args[2])[:60]), rule="R-CLAMP-SHAPE", where="%s:%s" % (lb.file, t["line"]), fn="limit_caret_pos",
                            what="the %s clamp is not %s: clamp(%s, %s, %s)" % (tgt, want, sx, show(args[1])[:50], show(args[2])[:70]))
        chk.sample("limit_caret_pos clamps: " + "; ".join("%s in [%s, %s]" % (tg, show(a[1])[:30], show(a[2])[:50]) for _, _, a, tg in clamps))
    # ------------------------------------------------------------------ R-FV-SHAPE: first visible row = max(0, buffer height - terminal height)
    fvb = f.bodies.get("buffers::Buffer::get_first_visible_line")
    if chk.anchor(fvb is not None, "R-FV-SHAPE", "anchor missing: Buffer::get_first_visible_line"):
        feb = ExprBuilder(fvb)
        BH, TH = "buffers::Buffer.size.height", "terminal_state::TerminalState.size.height"
        nret_fv = 0
        for bi, k in fvb.defs.get(0, []):
            e = feb.call_expr(fvb.blocks[bi]["term"]) if k == "term" else feb.rvalue(fvb.blocks[bi]["stmts"][k]["rv"])
            nret_fv += 1
            ok = False
            if e == ("const", 0):
                # the arm for buffers that are not terminal buffers (outside the property) -- it must be guarded by the flag
                sw = [x for x in range(fvb.nblocks) if fvb.blocks[x]["term"]["k"] == "switch"]
                ok = len(sw) == 1 and "is_terminal_buffer" in show(feb.operand(fvb.blocks[sw[0]]["term"]["discr"]))
            elif e[0] == "call" and e[1].split("::")[-1] == "max" and len(e[2]) == 2 and ("const", 0) in e[2]:
                x = [a for a in e[2] if a != ("const", 0)]
                if len(x) == 1:
                    x = x[0]
                    if x[0] == "call" and x[1].endswith("saturating_sub") and len(x[2]) == 2:
                        ok = linear_nf(x[2][0], f, fvb.impl_self_s) == ({BH: 1}, 0) and linear_nf(x[2][1], f, fvb.impl_self_s) == ({TH: 1}, 0)
                    else:
                        ok = linear_nf(x, f, fvb.impl_self_s) == ({BH: 1, TH: -1}, 0)
            chk.obligation(ok)
            if not ok:
                chk.finding("get_first_visible_line|returns|%s" % show(e)[:70], rule="R-FV-SHAPE", where="%s:%s" % (fvb.file, fvb.line), fn=fvb.short(),
                            what="the first visible row is not max(0, buffer height - terminal height): returns %s" % show(e)[:100])
        chk.floor("R-FV-SHAPE", "return expressions of get_first_visible_line", nret_fv, 2)
    # ------------------------------------------------------------------ R-GROW: moving below the last buffer row grows the scrollback
    # (the row clamp of limit_caret_pos is relative to the *buffer* height, so a row may only pass it after set_height)
    ngrow = 0
    for gid in ("parsers::<impl caret::Caret>::lf", "parsers::<impl buffers::Buffer>::print_char"):
        gb = f.bodies.get(gid)
        if not chk.anchor(gb is not None, "R-GROW", "anchor missing: %s" % gid):
            continue
        geb = ExprBuilder(gb)
        calls = [(bi, t) for bi, t in gb.calls() if (t["callee"].get("resolved") or "") == "buffers::Buffer::set_height"]
        if not chk.anchor(len(calls) == 1, "R-GROW", "%s: exactly one Buffer::set_height call expected, found %d" % (gb.short(), len(calls))):
            continue
        cbi, ct = calls[0]
        ngrow += 1
        Y = "caret::Caret.pos.y" if gb.impl_self_s == "caret::Caret" else None

        def ynf(e, gb=gb):
            """linear form over the cursor row: {'Y': 1} + c"""
            n = linear_nf(e, f, gb.impl_self_s)
            if n is None:
                return None
            out = {}
            for kk, v in n[0].items():
                out["Y" if kk.endswith("pos.y") else kk] = v
            return (out, n[1])
        arg = ynf(geb.operand(ct["args"][1]))
        ok_arg = arg is not None and arg[0] == {"Y": 1} and arg[1] >= 1
        # control dependences of the call block: S such that the call block post-dominates one successor of S but not S itself
        deps = []
        work = [cbi]
        while work:
            x0 = work.pop()
            for sb in range(gb.nblocks):
                t = gb.blocks[sb]["term"]
                if t["k"] != "switch" or len(gb.succ[sb]) < 2 or sb in deps:
                    continue
                if any(gb.postdominates(x0, x) for x in gb.succ[sb]) and not gb.postdominates(x0, sb):
                    deps.append(sb)
                    work.append(sb)         # transitive: what decides whether the guard itself is evaluated
        bad = []
        guard_ok = False
        BHG = "buffers::Buffer.size.height"
        for sb in deps:
            d = geb.operand(gb.blocks[sb]["term"]["discr"])
            txt = show(d)
            if "is_terminal_buffer" in txt and "(" not in txt.replace("(*", "").replace(")", ""):
                continue
            if d[0] == "bin" and d[1] in ("Gt", "Ge", "Lt", "Le"):
                l, r = ynf(d[2]), ynf(d[3])
                if l is not None and r is not None:
                    if d[1] in ("Lt", "Le"):
                        l, r = r, l
                    # l > r  /  l >= r   with  l = Y + a,  r = BH + b :  must be implied by  Y + 1 > BH
                    if l[0] == {"Y": 1} and r[0] == {BHG: 1}:
                        k = l[1] - r[1]
                        if (d[1] in ("Gt", "Lt") and k >= 1) or (d[1] in ("Ge", "Le") and k >= 0):
                            guard_ok = True
                            continue
            bad.append((sb, txt))
        ok = ok_arg and guard_ok and not bad
        chk.obligation(ok)
        if not ok:
            why = []
            if not ok_arg:
                why.append("set_height argument is not row + k (k >= 1)")
            if not guard_ok:
                why.append("no guard implied by `row + 1 > buffer height`")
            for sb, txt in bad:
                why.append("growth also depends on `%s`" % txt[:60])
            chk.finding("%s|grow|%s" % (gb.short(), "; ".join(why)[:120]), rule="R-GROW", where="%s:%s" % (gb.file, ct["line"]), fn=gb.short(),
                        what="the scrollback does not grow whenever the row passes the last buffer row: " + "; ".join(why))
    chk.floor("R-GROW", "growth sites (Caret::lf, Buffer::print_char)", ngrow, 2)
    # ------------------------------------------------------------------ R-ROW-CLAMP (scrolling emulations)
    scroll_roots = [r for r in roots if not any(m in r for m in FIXED)]
    sreach = g.reachable(scroll_roots)
    # cleaning summaries: a body "ends clean" if every path from any y-store to its returns passes a call that ends clean
    ends_clean = {LIMIT}
    REVIEWED_PRIMS = {
        "parsers::<impl caret::Caret>::lf": "line feed grows the scrollback (set_height) or scrolls so that the new row is the last visible row",
        "parsers::<impl buffers::Buffer>::print_char": "auto-wrap goes through Caret::lf; the row itself is not changed otherwise",
        "parsers::<impl caret::Caret>::check_scrolling_on_caret_up": "scrolls the region down until the row is back at the top margin",
        "parsers::<impl caret::Caret>::check_scrolling_on_caret_down": "scrolls the region up until the row is back at the bottom margin",
        "parsers::<impl buffers::Buffer>::clear_screen": "resets the cursor to the origin after resizing the buffer to the terminal size",
    }
    nstores = 0
    for bid in sorted(sreach):
        b = f.bodies[bid]
        if b.kind not in ("fn", "method", "closure") or bid == LIMIT:
            continue
        eb = ExprBuilder(b)
        if bid in SETTERS:
            continue            # transparent: their call sites are the stores
        stores = []
        for bi, t in b.calls():
            r = t["callee"].get("resolved") or ""
            if r in SETTERS and SETTERS[r] is not None:
                stores.append((bi, t["line"], show(eb.operand(t["args"][SETTERS[r]])), True))
        for bi, k, s in b.stmts():
            if s["k"] != "assign":
                continue
            proj = s["p"].get("p", [])
            fields = [el[2] for el in proj if el != "*" and el[0] == "f"]
            whole_pos = fields[-1:] == ["pos"]
            whole_caret = (not fields) and proj == ["*"] and b.tys(s["p"]["l"]) in CARET_TYS
            if not (fields[-2:] == ["pos", "y"] or whole_pos or whole_caret):
                continue
            # only cursors (Caret.pos), not arbitrary Position-typed fields
            owner_ok = whole_caret or any(el != "*" and el[0] == "f" and el[2] == "pos" and el[3] == "caret::Caret" for el in proj)
            if not owner_ok:
                continue
            stores.append((bi, s["line"], show(eb.rvalue(s["rv"])), False))
        if bid.endswith("::clear_screen"):
            for bi, t in b.calls():
                r = t["callee"].get("resolved") or ""
                if r in SETTERS or r not in f.bodies:
                    continue
                for a in t["args"]:
                    pj = a.get("move") or a.get("copy")
                    if pj is not None and not pj.get("p") and b.tys(pj["l"]) == "&mut caret::Caret":
                        stores.append((bi, t["line"], "%s(..)" % r.split("::")[-1], True))
        for bi, line, val, via_call in stores:
            nstores += 1
            key = "%s|store-y|%s" % (b.short(), val[:70])
            if bid in REVIEWED_PRIMS:
                if bid.endswith("::clear_screen"):
                    # the reviewed argument ("the cursor is reset to the origin; the buffer is resized afterwards") holds only for a
                    # constant origin: a row taken from the geometry (first visible line, Caret::home) before the resize is stale after it
                    const0 = val in ("default()", "Position{0, 0}", "new(0, 0)", "0") or re.fullmatch(r"(<[^>]*>::)?default\(\)", val) is not None
                    later = b.reachable_from(bi) | {bi}
                    resized = any(cb in later and any(x in g.reachable([cr]) or cr == x for x in GROWERS[:9])
                                  for cb, ct in b.calls() for cr in [ct["callee"].get("resolved") or ""] if cr in f.bodies)
                    okp = const0 or not resized
                    chk.obligation(okp)
                    if not okp:
                        chk.finding("%s|stale-row" % b.short(), detail=key, rule="R-ROW-CLAMP", where="%s:%s" % (b.file, line), fn=b.short(),
                                    what="the cursor is set to `%s`, which depends on the geometry, and the buffer is resized afterwards: the row is "
                                         "relative to a scrollback that no longer exists" % val[:80])
                    continue
                chk.obligation(True)
                continue
            # safe forms
            safe = False
            if re.search(r"upper_left_position\(|get_first_visible_line\(|get_first_editable_line\(", val) and not re.search(r"[-+] ", val.replace("get_first_visible_line(&*buf) +", "")):
                safe = "upper_left_position(" in val or val.strip("()").startswith("get_first_")
            # followed by limit_caret_pos (or a callee that ends clean) on every path to a return?
            # (the two check_scrolling helpers only scroll when the row has left the *editable* region: they bring it back to the margin,
            # which is on the screen only if the margin is - not a clamp to the visible rows, so they do not count here; seed C09/14)
            cleaners = {cb for cb, t in b.calls() if (t["callee"].get("resolved") or "") in ends_clean
                        or ((t["callee"].get("resolved") or "") in REVIEWED_PRIMS and "check_scrolling_on_caret" not in (t["callee"].get("resolved") or ""))}
            if not safe:
                if via_call:
                    # the store happens in the terminator of block bi: start from its successors
                    starts = [x for x in b.succ[bi]]
                    reach_ret = set()
                    for x in starts:
                        if x in cleaners:
                            continue
                        reach_ret |= b.reachable_from(x, avoid=cleaners)
                        reach_ret.add(x)
                    dirty_exit = any(x in reach_ret for x in b.exits)
                else:
                    reach_ret = b.reachable_from(bi, avoid=cleaners)
                    # the store's own block is the start: paths that hit a return without a cleaner
                    dirty_exit = any(x in reach_ret for x in b.exits) and not (bi in cleaners)
                    if bi in cleaners:
                        # cleaner call is the terminator of the same block, i.e. after the store
                        dirty_exit = False
                safe = not dirty_exit
            chk.obligation(bool(safe))
            if not safe:
                chk.finding(key, rule="R-ROW-CLAMP", where="%s:%s" % (b.file, line), fn=b.short(),
                            what="cursor row set to `%s` and a return is reachable without limit_caret_pos (or a reviewed wrap/scroll primitive)" % val[:80])
    chk.floor("R-ROW-CLAMP", "stores to the cursor row / position in scrolling scope", nstores, 20)
    # ------------------------------------------------------------------ R-FIXED-GRID
    for m in ("viewdata", "mode7"):
        rr = R.parser_methods(f, m)
        if not chk.anchor(len(rr) == 1, "R-FIXED-GRID", "anchor missing: %s print_char" % m):
            continue
        fr = g.reachable(rr)
        hit = [x for x in GROWERS if x in fr]
        chk.obligation(not hit)
        for x in hit:
            chk.finding("%s|reaches|%s" % (m, F.short_name(x)), rule="R-FIXED-GRID", where="src/parsers/%s/mod.rs" % m, fn="%s::print_char" % m,
                        what="the fixed-grid emulation can reach %s (resize / scrollback growth): %s" % (F.short_name(x), " <- ".join(F.short_name(y) for y in reversed(g.path_to(fr, x)[-4:]))))
    ansi = R.parser_methods(f, "ansi")
    if ansi:
        ar = g.reachable(ansi)
        chk.anchor(all(x in ar for x in GROWERS if "lf" in x or "print_char" in x), "R-FIXED-GRID", "positive control: the ANSI entry point reaches Caret::lf and Buffer::print_char")
    return chk.finish("Cursor invariant proven modularly ({I} f {I}) over %d bodies reachable from the 10 entry points; %d return paths of the entry "
                      "points checked; limit_caret_pos clamp shapes; %d cursor-row stores classified; fixed-grid reachability." % (len(bodies), nret, nstores),
                      reviewed=reviewed)


def origin_dead_edges(f, bodies):
    """{body id: {(block, successor)}}: switch edges taken only when a TerminalState.origin_mode is OriginMode::WithinMargins"""
    adt = None
    for k, v in f.adts.items():
        if k.endswith("OriginMode") and v.get("kind") == "enum":
            adt = v
    if adt is None:
        return {}
    names = [v["name"] for v in adt["variants"]]
    if "WithinMargins" not in names:
        return {}
    wm = names.index("WithinMargins")
    out = {}
    for bid in bodies:
        b = f.bodies[bid]
        for bi, blk in enumerate(b.blocks):
            t = blk["term"]
            if t["k"] != "switch":
                continue
            pj = t["discr"].get("move") or t["discr"].get("copy")
            if pj is None or pj.get("p"):
                continue
            ds = b.defs.get(pj["l"], [])
            if len(ds) != 1 or ds[0][1] == "term":
                continue
            rv = b.blocks[ds[0][0]]["stmts"][ds[0][1]]["rv"]
            if rv["k"] != "discr":
                continue
            proj = rv["p"].get("p") or []
            if not proj or proj[-1] == "*" or proj[-1][0] != "f" or proj[-1][2] != "origin_mode":
                continue
            listed = {v: tg for v, tg in t["targets"]}
            dead = None
            if wm in listed:
                dead = listed[wm]
            elif len(listed) == len(names) - 1 and t.get("otherwise") is not None:
                dead = t["otherwise"]
            if dead is not None and sum(1 for tg in list(listed.values()) + [t.get("otherwise")] if tg == dead) == 1:
                out.setdefault(bid, set()).add((bi, dead))
    return out

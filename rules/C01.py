"""C01 — no byte stream can crash a text-mode terminal emulation (R-PANIC over root set TXT)."""
from analysis import facts as F
from analysis import roots as R
from rules import panic_common as P


def run(chk):
    f = F.load()
    roots = R.txt_roots(f)
    reviewed = P.run_scope(chk, "TXT", roots, floor_roots=10, floor_bodies=200, floor_sinks=150, reviewed_file="reviewed_safe.json",
                           invariants=P.TERMINAL_INVARIANTS)
    return P.finish(chk, reviewed, "No undischarged panic origin is reachable from any of the 10 text-mode print_char entry points.")

"""C03 — work per input is bounded by screen size, not by numbers in the input (rule R-MAG + R-RECURSION + R-PROGRESS).

R-MAG is a magnitude-taint rule in the Ashcraft/Engler sense, built on the abstract interpreter:
  sinks   : trip counts of Range loops (`for _ in a..b`, `(a..b).for_each`), eager allocation sizes (Vec::resize /
            with_capacity / vec![x; n] / str::repeat / reserve) and the arguments of the dimension setters and constructors
            (Buffer/Layer/TerminalState set_size/set_width/set_height, Layer::new, Buffer::new/create, Line::create);
  bounded : the abstract state proves  value <= 2^16,  or  value <= (a container length | a size.width/height field) + c;
            an unbounded value that is a clean function of the parameters is lifted to the callers and re-checked there
            (so `erase_charcter(n)` clamping n, or a caller clamping before the call, both count);
  verdict : a sink whose value is unbounded at its final site AND provably derives (local flow-insensitive taint) from a
            *magnitude source* -- a number decoded from the input with >= 32 bits -- is a violation.  Unbounded values of
            unknown provenance are counted as `undecided` and never alarmed on (positive evidence only).
R-RECURSION: every call-graph cycle reachable from the entry points is reviewed or a finding.
R-PROGRESS : a `while !slice.is_empty() { slice = &slice[k..] }` loop must advance by k >= 1.
Decides: "no number taken from the input drives a loop, an allocation, a dimension or unbounded recursion without being
clamped to a screen- or length-derived bound".  Not decided: the polynomial itself, constant factors, `while` loops whose
bound is a comparison against a tainted value, sleeps."""
import re
from analysis import facts as F
from analysis import roots as R
from analysis.cg import CallGraph
from analysis.interproc import Interproc
from analysis.absint import Analyzer
from analysis.expr import ExprBuilder, show
from analysis.report import load_table
from rules import panic_common as P

# ---- magnitude sources (confirmed by reading; see DESIGN §4 C03)
M_FIELDS = {"parsed_numbers"}                      # ansi::Parser / SixelParser / igs::Parser: numbers parsed from the stream (i32, saturating)
M_VARIANTS = {"RepeatNumber"}                      # HexMacroState::RepeatNumber(n)
M_CALLS = re.compile(r"::from_(le|be|ne)_bytes$|^formats::tundra::to_u32$|^core::str::<impl str>::parse$|::from_str_radix$"
                     r"|parse_next_number$|::read_u32$|::read_i32$|::read_u64$")
M_WIDE = re.compile(r"<impl (u32|i32|u64|i64|usize|isize|u128|i128)>")
PROPAGATE = re.compile(r"::(unwrap|expect|unwrap_or\w*|first|last|get|get_mut|index|index_mut|deref|deref_mut|clone|cloned|copied|into|try_into|from|try_from|abs|min|max|clamp"
                       r"|saturating_\w+|wrapping_\w+|checked_\w+|overflowing_\w+|pow|as_\w+|next|nth|branch|from_residual|from_output|ok|map|iter|into_iter|to_owned|borrow|as_ref|as_mut)$")
REVIEWED_CYCLES = {
    "parsers::ansi::sound::<impl parsers::ansi::Parser>::parse_ansi_music":
        "parse_ansi_music re-enters itself at most once per character: the recursive call is made after the state was reset to MusicState::Default for the same character",
}


def taint(f, b):
    """locals of body b that may hold a magnitude-source value (flow-insensitive, intra-procedural)"""
    t = set()
    T = f.types

    def place_tainted(pj):
        if pj["l"] in t:
            return True
        for el in pj.get("p", ()):
            if el == "*":
                continue
            if el[0] == "f" and el[2] in M_FIELDS:
                return True
            if el[0] == "dc" and el[1] in M_VARIANTS:
                return True
            if el[0] == "i" and el[1] in t:
                pass        # a tainted index does not taint the element
        return False

    def op_tainted(o):
        pj = o.get("copy") or o.get("move")
        return pj is not None and place_tainted(pj)
    changed = True
    while changed:
        changed = False
        for bi, k, s in b.stmts():
            if s["k"] != "assign":
                continue
            d = s["p"]["l"]
            if d in t:
                continue
            rv = s["rv"]
            srcs = []
            for key in ("a", "b"):
                if isinstance(rv.get(key), dict):
                    srcs.append(rv[key])
            srcs += rv.get("ops", [])
            hit = any(op_tainted(o) for o in srcs)
            if not hit and isinstance(rv.get("p"), dict):
                hit = place_tainted(rv["p"])
            if hit:
                t.add(d)
                changed = True
        for bi, term in b.calls():
            d = term["dest"]["l"]
            if d in t:
                continue
            path = term["callee"].get("resolved") or term["callee"].get("path") or ""
            hit = False
            if M_CALLS.search(path):
                if "from_" in path and "_bytes" in path:
                    hit = bool(M_WIDE.search(path))
                elif path.endswith("::parse"):
                    ta = term["callee"].get("targs") or []
                    hit = not ta or any(str(x) in ("u32", "i32", "u64", "i64", "usize", "isize") for x in ta) or True
                else:
                    hit = True
            elif PROPAGATE.search(path):
                hit = any(op_tainted(o) for o in term["args"])
            if hit:
                t.add(d)
                changed = True
    return t


def value_tainted(f, b, tl, v, term):
    """is the (unbounded) sink value M-derived at this site?  v: abstract value; term: the call terminator of the site"""
    if v is not None and v[0] in ("pending",):
        v = v[1]
    if v is not None and v[0] in ("sum", "diff", "rem", "quot"):
        v = v[1]
    if v is not None and v[0] in ("n", "nw") and v[1] is not None:
        kind, root, steps = v[1]
        if isinstance(root, int) and root in tl:
            return True
        for s in steps:
            if s in M_FIELDS:
                return True
            if isinstance(s, tuple) and s[0] == "dc" and s[1] in M_VARIANTS:
                return True
        if isinstance(root, int):
            return False
    # no usable term: look at the operands of the call itself
    if term is not None and term.get("k") == "call":
        for o in term["args"]:
            pj = o.get("copy") or o.get("move")
            if pj is None:
                continue
            if pj["l"] in tl:
                return True
            for el in pj.get("p", ()):
                if el != "*" and el[0] == "f" and el[2] in M_FIELDS:
                    return True
    return False


def run(chk):
    f = F.load()
    g = CallGraph(f)
    ip = Interproc(f, g)
    ip.mag = True

    def is_source(path, t):
        if not M_CALLS.search(path):
            return False
        if "_bytes" in path and "from_" in path:
            return bool(M_WIDE.search(path))
        return True
    # C09 keeps the cursor inside the buffer: non-negative coordinates may be assumed wherever they are read
    ip.invariants = [("caret::Caret", ("pos", "x"), 0, None), ("caret::Caret", ("pos", "y"), 0, None)] + list(P.TERMINAL_INVARIANTS[:2])
    ip.mag_cfg = {"fields": frozenset(M_FIELDS), "variants": frozenset(M_VARIANTS), "calls": is_source, "prop": PROPAGATE,
                  "soft": {("caret::Caret", ("pos", "x")), ("caret::Caret", ("pos", "y"))}}
    chk.rules = ["R-MAG", "R-RECURSION", "R-PROGRESS"]
    chk.assumptions = list(P.ASSUMPTIONS) + [
        "a value is `bounded` when the abstract state proves it <= 65536 or <= (container length | size.width | size.height) + c",
        "magnitude sources: Parser.parsed_numbers (ansi, sixel, igs), HexMacroState::RepeatNumber, {u32,i32,u64,usize}::from_*_bytes, tundra::to_u32, str::parse, from_str_radix",
        "the cursor position and the dimension fields are bounded by C09 / by this rule's own dimension-sink clause (assume-guarantee)"]
    txt = R.txt_roots(f)
    direct, loaders = R.load_roots(f)
    gfx = R.gfx_roots(f)
    roots = sorted(set(txt) | set(direct) | set(loaders) | set(gfx))
    roots = [r for r in roots if r in f.bodies]
    chk.floor("R-MAG", "entry points (text parsers, loaders, RIP/IGS)", len(roots), 30)
    ip.mag_cfg["roots"] = frozenset(roots)
    reach = g.reachable(roots)
    bodies = [bid for bid in sorted(reach) if f.bodies[bid].kind in ("fn", "method", "closure")]
    chk.floor("R-MAG", "reachable bodies", len(bodies), 600)
    ip.run_scope(bodies)
    rootset = set(roots)
    reviewed = {}
    try:
        for e in load_table("reviewed_safe.json"):
            if "C03" in e.get("properties", []):
                reviewed[e["key"]] = (e.get("count", 1), e["reason"])
    except FileNotFoundError:
        pass
    nsinks = 0
    nbounded = 0
    undecided = 0
    tcache = {}
    seen = set()
    by_kind = {}
    for bid in bodies:
        r = ip.results.get(bid)
        if r is None:
            continue
        b = f.bodies[bid]
        for o in r.obls:
            if o.cls != "MAG":
                continue
            lifted_here = o.trust is not None and o.trust[0] == "origin"
            if not lifted_here:
                nsinks += 1
                kind = "loop" if ("into_iter(" in o.desc or "for_each(" in o.desc or "fold(" in o.desc) else "dimension" if "#arg" in o.desc else "allocation"
                by_kind[kind] = by_kind.get(kind, 0) + 1
            if o.ok:
                if not lifted_here:
                    nbounded += 1
                    chk.obligation(True)
                continue
            exported = (o.rule == "exported")
            final_here = (not exported) or bid in rootset or (b.kind == "closure" and bid not in ip.closure_checked)
            if not final_here:
                continue
            origin = o.trust[1] if lifted_here else bid
            ident = (origin, o.desc, bid, o.block)
            if ident in seen:
                continue
            seen.add(ident)
            tainted = bool(o.raw and o.raw[0] in ("mag", "maglo") and len(o.raw) > 2 and o.raw[2])
            if tainted:
                chk.obligation(False)
                ob = f.bodies[origin]
                via = "" if origin == bid else " (value supplied by %s)" % b.short()
                skind = "loop" if ("into_iter(" in o.desc or "for_each(" in o.desc or "fold(" in o.desc or o.desc.startswith("loop(")) else "dimension" if "#arg" in o.desc else "allocation"
                # the key names the function, the kind of sink and where the number comes from - not the expression (a renamed local or
                # an extracted helper does not make a known unbounded loop a new one); the sinks of one kind are counted
                # keyed by the function that lets the number through unclamped and the kind of sink; the function the sink stands in
                # is in the detail (the same loop moved into a helper is the same finding)
                chk.finding("%s|MAG|%s" % (b.short(), skind), detail="%s|MAG|%s|from %s" % (ob.short(), o.desc, b.short()),
                            rule="R-MAG", where="%s:%s" % (o.file, o.line), fn=ob.short(),
                            what=o.what + via + ": it derives from a number decoded from the input")
            else:
                undecided += 1
    chk.floor("R-MAG", "magnitude sinks (loops, allocations, dimensions)", nsinks, 200)
    chk.cov["sinks_by_kind"] = by_kind
    chk.cov["sinks_bounded_locally"] = nbounded
    chk.cov["unbounded_of_unknown_provenance (not alarmed)"] = undecided
    # ------------------------------------------------------------------ R-RECURSION
    cyc = g.sccs(reach)
    ncyc = 0
    for comp in cyc:
        comp = sorted(c for c in comp if c in f.bodies)
        if not comp:
            continue
        ncyc += 1
        key = "cycle|" + " <-> ".join(F.short_name(c) for c in comp[:4])
        if len(comp) == 1 and comp[0] in REVIEWED_CYCLES:
            chk.obligation(True)
            chk.sample("recursion %s: %s" % (F.short_name(comp[0]), REVIEWED_CYCLES[comp[0]]))
            continue
        chk.obligation(False)
        chk.finding(key, rule="R-RECURSION", where=f.bodies[comp[0]].file, fn=F.short_name(comp[0]),
                    what="call-graph cycle reachable from an entry point without a reviewed depth bound: %s" % ", ".join(F.short_name(c) for c in comp[:6]))
    chk.floor("R-RECURSION", "call-graph cycles examined", ncyc, 2)
    # ------------------------------------------------------------------ R-PROGRESS
    counter = [0]
    for bid in bodies:
        b = f.bodies[bid]
        if not b.back_edges:
            continue
        eb = None
        seen_loops = set()
        for (tail, head) in b.back_edges:
            if head in seen_loops:
                continue
            seen_loops.add(head)
            loop = b.natural_loop(head)
            eb = eb or ExprBuilder(b)
            # slices whose length (is_empty / len) is read inside the loop: the loop's exit may depend on them
            tested = set()
            for bi0, t0 in b.calls():
                if bi0 not in loop:
                    continue
                r0 = t0["callee"].get("resolved") or ""
                if not (r0.endswith("<impl [T]>::is_empty") or r0.endswith("<impl [T]>::len")):
                    continue
                x = eb.operand(t0["args"][0])
                while x[0] in ("ref", "deref"):
                    x = x[1]
                if x[0] == "var":
                    tested.add(x[1])
            for sl in sorted(tested):
                _progress_loop(chk, f, ip, b, eb, loop, sl, counter)
    nprog = counter[0]
    chk.floor("R-PROGRESS", "consume-until-empty loops examined", nprog, 1)
    return chk.finish("%d magnitude sinks reachable from %d entry points: %d bounded where they stand, the rest lifted to their callers; "
                      "unbounded sinks fed by a magnitude source are violations, %d unbounded sinks of unknown provenance are reported as undecided; "
                      "%d call-graph cycles and %d consume-until-empty loops examined." % (nsinks, len(roots), nbounded, undecided, ncyc, nprog), reviewed=reviewed)


def _progress_loop(chk, f, ip, b, eb, loop, sl, counter):
    """re-slicing statements inside the loop:  sl = index(sl, RangeFrom{k})  must advance by k >= 1"""
    # re-slicing statements inside the loop:  sl = index(sl, RangeFrom{k})
    for bi, t2 in b.calls():
        if bi not in loop:
            continue
        r2 = t2["callee"].get("resolved") or ""
        if "Index" not in r2 and "index" not in r2:
            continue
        e = eb.call_expr(t2)
        txt = show(e)
        if "RangeFrom{" not in txt:
            continue
        base = eb.operand(t2["args"][0])
        y = base
        while y[0] in ("ref", "deref"):
            y = y[1]
        if y[0] != "var" or y[1] != sl:
            continue
        if not _flows_back(b, loop, t2["dest"]["l"], sl):
            continue            # a sub-slice handed to something else, not the loop's own cursor
        counter[0] += 1
        an = Analyzer(f, interproc=ip)
        an.analyze(b, collect=False)
        st = an.state_before_term(bi)
        ok = False
        k_txt = txt
        if st:
            # value of the RangeFrom's start
            rp = t2["args"][1]
            rpj = rp.get("copy") or rp.get("move")
            if rpj is not None:
                can = an.canon(st, rpj)
                if can is not None:
                    sv = st.sym.get((can[0], can[1] + ("start",)))
                    val = sv if sv is not None else ("n", ("v", can[0], can[1] + ("start",)), 0)
                    if val[0] in ("n", "iv"):
                        lo = st.val_iv(val)[0]
                        ok = lo is not None and lo >= 1
        chk.obligation(ok)
        if not ok:
            chk.finding("%s|progress|%s" % (b.short(), k_txt[:70]), rule="R-PROGRESS", where="%s:%s" % (b.file, t2["line"]), fn=b.short(),
                        what="the loop runs until the slice is empty but advances it by an amount that may be 0: %s" % k_txt[:100])


def _flows_back(b, loop, src, dst):
    """does the value of local `src` reach local `dst` through plain moves / reborrows inside the loop?"""
    reach = {src}
    changed = True
    while changed:
        changed = False
        for bi in loop:
            for st in b.blocks[bi]["stmts"]:
                if st["k"] != "assign" or st["p"].get("p"):
                    continue
                rv = st["rv"]
                if rv["k"] == "use":
                    pj = rv["a"].get("copy") or rv["a"].get("move")
                elif rv["k"] == "ref":
                    pj = rv["p"]
                else:
                    continue
                if pj is None or pj["l"] not in reach or any(x != "*" for x in (pj.get("p") or [])):
                    continue
                if st["p"]["l"] not in reach:
                    reach.add(st["p"]["l"])
                    changed = True
    return dst in reach

"""C16 — palette indices are stable (index clause) and the 6-bit VGA codec treats all channels alike.

  R-APPEND-ONLY  in the call tree of Palette::insert_color / insert_color_rgb the only mutation of Palette.colors is Vec::push.
  R-INSERT-RET   found path: the returned value is the loop index at which exactly the r, g and b channels compared equal
                 (through inline comparisons or through Color's PartialEq, whose compared field set must be {r, g, b});
                 not-found path: len(colors) - 1 evaluated after the push.
  R-6BIT         expansion c<<2 | c>>4 and reduction c>>2 have the same GF(2) normal form for the r, g and b channels
                 (from_63, from_ega_data / as_vec_63, to_ega_data), and to_ega_data writes all 16 palette slots.
Not decided: palette text formats (regex import vs format! export)."""
import re
from analysis import facts as F
from analysis import cg as CG
from analysis import gf2
from analysis.expr import ExprBuilder, show, inline_helper

MUT = ("push", "push_back", "insert", "remove", "swap_remove", "clear", "truncate", "drain", "retain", "resize", "pop", "swap", "sort", "sort_by",
       "dedup", "extend", "append", "splice", "split_off", "reverse", "rotate_left", "rotate_right", "fill", "iter_mut", "index_mut", "get_mut",
       "last_mut", "first_mut", "deref_mut", "as_mut_slice", "take", "replace", "swap")


def strip(e):
    while e[0] in ("ref", "deref"):
        e = e[1]
    return e


def field_chain(e):
    """(base expr, [field names]) of a field projection through refs"""
    names = []
    e = strip(e)
    while e[0] in ("field", "downcast"):
        if e[0] == "field":
            names.append(e[2])
        e = strip(e[1])
    return e, list(reversed(names))


def compared_fields_of_eq(f, b):
    """field names F such that the body compares X.F with Y.F (binary Eq/Ne or a PartialEq::eq/ne call)"""
    eb = ExprBuilder(b)
    out = set()
    other = set()
    for bi, k, s in b.stmts():
        if s["k"] == "assign" and s["rv"]["k"] == "bin" and s["rv"]["op"] in ("Eq", "Ne"):
            x, y = eb.operand(s["rv"]["a"]), eb.operand(s["rv"]["b"])
            bx, fx = field_chain(x)
            by, fy = field_chain(y)
            if fx and fy and fx[-1] == fy[-1]:
                out.add(fx[-1])
            else:
                other.add(show(x) + "==" + show(y))
    for bi, t in b.calls():
        path = t["callee"].get("resolved") or t["callee"].get("path") or ""
        if path.endswith("::eq") or path.endswith("::ne"):
            if len(t["args"]) == 2:
                bx, fx = field_chain(eb.operand(t["args"][0]))
                by, fy = field_chain(eb.operand(t["args"][1]))
                if fx and fy and fx[-1] == fy[-1]:
                    out.add(fx[-1])
    return out


def run(chk):
    f = F.load()
    g = CG.CallGraph(f)
    chk.rules = ["R-APPEND-ONLY", "R-INSERT-RET", "R-6BIT"]
    chk.assumptions = ["Vec::push appends without moving existing elements", "file-format round trips of palettes are not decided by this check"]
    ins = f.method("palette_handling::Palette", "insert_color")
    ins_rgb = f.method("palette_handling::Palette", "insert_color_rgb")
    chk.anchor(ins is not None and ins_rgb is not None, "R-APPEND-ONLY", "anchor missing: Palette::insert_color / insert_color_rgb")
    if ins is None:
        return chk.finish("anchor missing")
    # ------------------------------------------------------------------ R-APPEND-ONLY
    reach = g.reachable([ins.id] + ([ins_rgb.id] if ins_rgb else []))
    nmut = 0
    for rid in reach:
        rb = f.bodies[rid]
        if rb.kind not in ("fn", "method", "closure"):
            continue
        eb = ExprBuilder(rb)
        for bi, t in rb.calls():
            if not t["args"]:
                continue
            e = eb.operand(t["args"][0])
            base, names = field_chain(e)
            if names[-1:] != ["colors"]:
                continue
            path = t["callee"].get("resolved") or t["callee"].get("path") or ""
            nm = path.split("::")[-1]
            if nm in MUT:
                nmut += 1
                ok = nm == "push"
                chk.obligation(ok)
                if not ok:
                    chk.finding("%s|colors-mutation|%s" % (rb.short(), nm), rule="R-APPEND-ONLY", where="%s:%s" % (rb.file, t["line"]), fn=rb.short(),
                                what="Palette.colors is modified by `%s` inside the insert_color call tree: existing indices may change" % nm)
        for bi, k, s in rb.stmts():
            if s["k"] == "assign":
                proj = s["p"].get("p", [])
                fld = [el[2] for el in proj if el != "*" and el[0] == "f"]
                if fld[-1:] == ["colors"] or (fld and "colors" in fld and any(el != "*" and el[0] in ("i", "ci") for el in proj)):
                    chk.obligation(False)
                    chk.finding("%s|colors-assign" % rb.short(), rule="R-APPEND-ONLY", where="%s:%s" % (rb.file, s["line"]), fn=rb.short(),
                                what="Palette.colors (or one of its elements) is assigned inside the insert_color call tree")
    chk.floor("R-APPEND-ONLY", "mutating calls on colors in the insert_color call tree", nmut, 1)
    # ------------------------------------------------------------------ R-INSERT-RET
    b = ins
    eb = ExprBuilder(b)
    key = "palette_handling::Palette::insert_color"
    rets = []
    for bi, k in b.defs.get(0, []):
        e = eb.call_expr(b.blocks[bi]["term"]) if k == "term" else eb.rvalue(b.blocks[bi]["stmts"][k]["rv"])
        rets.append((bi, e))
    pushes = [bi for bi, t in b.calls() if (t["callee"].get("resolved") or "").endswith("Vec::<T, A>::push")]
    chk.anchor(len(rets) == 2 and len(pushes) == 1, "R-INSERT-RET", "insert_color: expected two return values (found / appended) and one push, got %d / %d" % (len(rets), len(pushes)))
    found_ok = appended_ok = False
    for bi, e in rets:
        x = e
        while x[0] == "cast":
            x = x[2]
        # appended: len(colors) - 1 after the push
        if x[0] == "bin" and x[1] == "Sub" and x[3] == ("const", 1) and x[2][0] == "len" and field_chain(x[2][1])[1][-1:] == ["colors"]:
            ok = bool(pushes) and b.dominates(pushes[0], bi)
            # the length must be read after the push: the len() call block is dominated by the push
            lens = [cb for cb, t in b.calls() if (t["callee"].get("resolved") or "").endswith("::len") and b.dominates(cb, bi)]
            ok = ok and any(b.dominates(pushes[0], cb) and cb != pushes[0] for cb in lens)
            appended_ok = ok
            chk.obligation(ok)
            if not ok:
                chk.finding(key + "|appended-index", rule="R-INSERT-RET", where="%s:%s" % (b.file, b.line), fn=key,
                            what="the not-found path does not return len(colors)-1 evaluated after the push")
            continue
        # appended, other form: len(colors) read before the push (the index the new element is about to get)
        if x[0] == "len" and field_chain(x[1])[1][-1:] == ["colors"] and pushes:
            # the very len() call whose result is returned must come before the push
            def len_call_block(l, depth=0):
                ds = b.defs.get(l, [])
                if len(ds) != 1 or depth > 4:
                    return None
                if ds[0][1] == "term":
                    t_ = b.blocks[ds[0][0]]["term"]
                    return ds[0][0] if (t_["callee"].get("resolved") or "").endswith("::len") else None
                rv_ = b.blocks[ds[0][0]]["stmts"][ds[0][1]]["rv"]
                if rv_["k"] in ("use", "cast"):
                    pj_ = rv_["a"].get("move") or rv_["a"].get("copy")
                    if pj_ is not None and not pj_.get("p"):
                        return len_call_block(pj_["l"], depth + 1)
                return None
            cb = None
            for bj, kj in b.defs.get(0, []):
                if bj == bi and kj != "term":
                    rv0 = b.blocks[bj]["stmts"][kj]["rv"]
                    pj0 = (rv0["a"].get("move") or rv0["a"].get("copy")) if rv0["k"] in ("use", "cast") else None
                    if pj0 is not None and not pj0.get("p"):
                        cb = len_call_block(pj0["l"])
            ok = cb is not None and cb != pushes[0] and b.dominates(cb, pushes[0]) and b.dominates(pushes[0], bi)
            appended_ok = ok
            chk.obligation(ok)
            if not ok:
                chk.finding(key + "|appended-index", rule="R-INSERT-RET", where="%s:%s" % (b.file, b.line), fn=key,
                            what="the not-found path returns len(colors) that is not read just before the push")
            continue
        # found, other form: colors.iter().position(|c| <compares r, g, b>)
        if x[0] == "field" and x[2] == "0" and x[1][0] == "downcast" and x[1][1][0] == "call" and x[1][1][1].endswith("::position"):
            pc = x[1][1]
            it = show(pc[2][0]) if pc[2] else ""
            cl = pc[2][1] if len(pc[2]) > 1 else None
            fields = set()
            if cl is not None and cl[0] == "agg" and str(cl[1]).startswith("closure:"):
                cb_ = f.bodies.get(str(cl[1])[len("closure:"):])
                if cb_ is not None:
                    fields = compared_fields_of_eq(f, cb_)
                    # a captured `&color.r` is field k of the closure environment: compare by the captured field's name
                    caps = {str(i): (field_chain(c_)[1] or [None])[-1] for i, c_ in enumerate(cl[2])}
                    ceb = ExprBuilder(cb_)
                    for _, _, s_ in cb_.stmts():
                        if s_["k"] == "assign" and s_["rv"]["k"] == "bin" and s_["rv"]["op"] in ("Eq", "Ne"):
                            names = []
                            for side in ("a", "b"):
                                base_, fl_ = field_chain(ceb.operand(s_["rv"][side]))
                                nm = fl_[-1] if fl_ else None
                                if nm in caps and base_[0] == "var" and base_[1] == 1:
                                    nm = caps[nm]
                                names.append(nm)
                            if names[0] is not None and names[0] == names[1]:
                                fields.add(names[0])
                            else:
                                fields.add("?%s/%s" % (names[0], names[1]))
                    for _, ct in cb_.calls():
                        cp = ct["callee"].get("resolved") or ""
                        if (cp.endswith("::eq") or cp.endswith("::ne")) and cp in f.bodies:
                            fields |= compared_fields_of_eq(f, f.bodies[cp])
            # the iterator walks self.colors from the front
            src_ok = False
            for _, ct in b.calls():
                if (ct["callee"].get("resolved") or "").endswith("<impl [T]>::iter") and re.search(r"\bself\.colors\b", show(eb.operand(ct["args"][0]))):
                    src_ok = True
            ok = fields == {"r", "g", "b"} and src_ok and "rev(" not in it and "skip(" not in it
            found_ok = ok
            chk.obligation(ok)
            if not ok:
                chk.finding(key + "|found-compare|%s" % ",".join(sorted(fields)), rule="R-INSERT-RET", where="%s:%s" % (b.file, b.line), fn=key,
                            what="the found path (position over %s) compares the field set {%s}, expected exactly {r, g, b} over colors.iter()" % (it[:40], ", ".join(sorted(fields))))
            continue
        # found: the loop index
        idx = x
        if idx[0] == "field" and idx[2] == "0" and "next" in show(idx):
            # which fields are compared on the way to this return?
            fields = set()
            doms = [sb for sb, t in b.terms() if t["k"] == "switch" and b.dominates(sb, bi)]
            for sb in doms:
                d = eb.operand(b.blocks[sb]["term"]["discr"])
                if d[0] == "bin" and d[1] in ("Eq", "Ne"):
                    bx, fx = field_chain(d[2])
                    by, fy = field_chain(d[3])
                    if fx and fy and fx[-1] == fy[-1]:
                        fields.add(fx[-1])
                elif d[0] == "call" and (d[1].endswith("::eq") or d[1].endswith("::ne")):
                    if d[1] in f.bodies:
                        fields |= compared_fields_of_eq(f, f.bodies[d[1]])
                    else:
                        fields.add("?" + d[1])
            ok = fields == {"r", "g", "b"}
            found_ok = ok
            chk.obligation(ok)
            if not ok:
                chk.finding(key + "|found-compare|%s" % ",".join(sorted(fields)), rule="R-INSERT-RET", where="%s:%s" % (b.file, b.line), fn=key,
                            what="the found path compares the field set {%s}, expected exactly {r, g, b}" % ", ".join(sorted(fields)))
            # the index must be the element index of the colors vector examined
            continue
        chk.obligation(False)
        chk.finding(key + "|return-shape", rule="R-INSERT-RET", where="%s:%s" % (b.file, b.line), fn=key,
                    what="unrecognised return value %s" % show(e)[:100])
    chk.anchor(found_ok or not rets, "R-INSERT-RET", "found-path return recognised and compares {r,g,b}") if False else None
    if rets and not (found_ok and appended_ok) and not chk.findings:
        chk.obligation(False)
        chk.finding(key + "|paths", rule="R-INSERT-RET", where="%s:%s" % (b.file, b.line), fn=key, what="found / appended return paths not both recognised")
    # Color's PartialEq (used by `==` on colours elsewhere, e.g. position(|c| *c == color)) must compare exactly r,g,b
    eqs = [x for x in f.bodies.values() if x.kind == "method" and x.impl_self_s == "palette_handling::Color" and x.name == "eq"
           and (x.impl_trait or "").endswith("PartialEq")]
    if chk.anchor(len(eqs) == 1, "R-INSERT-RET", "anchor missing: impl PartialEq for Color"):
        cf = compared_fields_of_eq(f, eqs[0])
        ok = cf == {"r", "g", "b"}
        chk.obligation(ok)
        if not ok:
            chk.finding("palette_handling::Color::eq|fields|%s" % ",".join(sorted(cf)), rule="R-INSERT-RET", where="%s:%s" % (eqs[0].file, eqs[0].line),
                        fn="Color::eq", what="Color equality compares {%s}, expected exactly the three channels" % ", ".join(sorted(cf)))
    chk.sample("insert_color returns: " + " | ".join(show(e)[:60] for _, e in rets))
    # ------------------------------------------------------------------ R-6BIT
    def channel_nfs(b, want_fields):
        """normal forms of the three channel expressions of a Color aggregate / of three consecutive pushes"""
        eb = ExprBuilder(b)
        out = []
        for bi, k, s in b.stmts():
            if s["k"] == "assign" and s["rv"]["k"] == "agg" and s["rv"].get("adt") == "palette_handling::Color":
                ops = [eb.operand(o) for o in s["rv"]["ops"]]
                out.append(("agg", s["line"], ops[1:4]))
        for bi, t in b.calls():
            if (t["callee"].get("resolved") or "").endswith("palette_handling::Color::new") and len(t["args"]) == 3:
                out.append(("new", t["line"], [eb.operand(a) for a in t["args"]]))
        return out

    def norm(e):
        srcs = []

        def inp(x):
            x0 = x
            while x0[0] in ("deref", "ref"):
                x0 = x0[1]
            if x0[0] in ("index", "field", "var") and x0[0] != "const":
                if x0[0] == "var" and x0[2] is None:
                    return None
                srcs.append(show(x0))
                return ("c", 8)
            return None
        nz = gf2.Normalizer(lambda v: None, {}, inp)
        nz.inline = lambda ce: inline_helper(f, ce)
        nf = nz.nf(e, 8)
        return nf, srcs, nz.fail
    c = gf2.var_bits("c", 8)
    expand = gf2.or_(gf2.shl(c, 2), gf2.shr(c, 4))
    reduce_ = gf2.shr(c, 2)
    n6 = 0
    for owner, name, kind in (("palette_handling::Palette", "from_63", "expand"), (None, "formats::artworx::from_ega_data", "expand")):
        b = f.method(owner, name) if owner else f.bodies.get(name)
        if not chk.anchor(b is not None, "R-6BIT", "anchor missing: %s" % name):
            continue
        sites = channel_nfs(b, None)
        chk.anchor(len(sites) >= 1, "R-6BIT", "%s: a Color is built from three channel expressions" % name)
        for how, line, ops in sites:
            for ch, e in zip("rgb", ops):
                nf, srcs, fail = norm(e)
                ok = nf == expand and len(set(srcs)) == 1
                n6 += 1
                chk.obligation(ok)
                if not ok:
                    chk.finding("%s|6bit-expand|%s" % (b.short(), ch), rule="R-6BIT", where="%s:%s" % (b.file, line), fn=b.short(),
                                what="channel %s is not expanded as c<<2 | c>>4 of one source byte: %s%s" % (ch, show(e)[:80], (" (" + fail + ")") if fail else ""))
            srcs = [norm(e)[1][:1] for e in ops]
            ok = len({tuple(s) for s in srcs}) == 3
            chk.obligation(ok)
            if not ok:
                chk.finding("%s|6bit-sources" % b.short(), rule="R-6BIT", where="%s:%s" % (b.file, line), fn=b.short(),
                            what="the three channels do not come from three distinct source bytes: %s" % srcs)
    for owner, name in (("palette_handling::Palette", "as_vec_63"), (None, "formats::artworx::to_ega_data")):
        b = f.method(owner, name) if owner else f.bodies.get(name)
        if not chk.anchor(b is not None, "R-6BIT", "anchor missing: %s" % name):
            continue
        eb = ExprBuilder(b)
        pushed = []
        for bi, t in b.calls():
            if (t["callee"].get("resolved") or "").endswith("Vec::<T, A>::push") and len(t["args"]) == 2:
                e = eb.operand(t["args"][1])
                pushed.append((t["line"], e))
        chk.anchor(len(pushed) == 3, "R-6BIT", "%s: three channel pushes (found %d)" % (name, len(pushed)))
        # what the function returns is the vector that receives the three pushes, on every path (no value-dependent shortcut
        # that hands back something else)
        vecs = set()
        for bi, t in b.calls():
            if (t["callee"].get("resolved") or "").endswith("Vec::<T, A>::push") and len(t["args"]) == 2:
                pj = t["args"][0].get("move") or t["args"][0].get("copy")
                ds = b.defs.get(pj["l"], []) if pj is not None else []
                if len(ds) == 1 and ds[0][1] != "term":
                    rv = b.blocks[ds[0][0]]["stmts"][ds[0][1]]["rv"]
                    if rv["k"] == "ref" and not rv["p"].get("p"):
                        vecs.add(rv["p"]["l"])
        rdefs = b.defs.get(0, [])
        other = []
        for bi, k in rdefs:
            if k == "term":
                other.append("call %s" % ((b.blocks[bi]["term"]["callee"].get("resolved") or b.blocks[bi]["term"]["callee"].get("path") or "?").split("::")[-1]))
                continue
            rv = b.blocks[bi]["stmts"][k]["rv"]
            pj = rv["a"].get("move") or rv["a"].get("copy") if rv["k"] == "use" else None
            if pj is None or pj.get("p") or pj["l"] not in vecs:
                other.append(show(eb.rvalue(rv))[:60])
        ok = bool(rdefs) and len(vecs) == 1 and not other
        chk.obligation(ok)
        if not ok:
            chk.finding("%s|6bit-other-return" % b.short(), rule="R-6BIT", where="%s:%s" % (b.file, b.line), fn=b.short(),
                        what="the function can return something else than the vector of reduced channels (%s): on that path the values are not c>>2" % (other or "no single output vector"))
        allsrc = []
        for line, e in pushed:
            nf, srcs, fail = norm(e)
            ok = nf == reduce_ and len(set(srcs)) == 1
            n6 += 1
            allsrc.append(tuple(srcs[:1]))
            chk.obligation(ok)
            if not ok:
                chk.finding("%s|6bit-reduce|%d" % (b.short(), pushed.index((line, e))), rule="R-6BIT", where="%s:%s" % (b.file, line), fn=b.short(),
                            what="channel is not reduced as c>>2 of one source byte: %s%s" % (show(e)[:80], (" (" + fail + ")") if fail else ""))
        ok = len(set(allsrc)) == len(allsrc)
        chk.obligation(ok)
        if not ok:
            chk.finding("%s|6bit-sources" % b.short(), rule="R-6BIT", where="%s:%s" % (b.file, b.line), fn=b.short(),
                        what="the pushed channels do not come from distinct sources: %s" % allsrc)
    # to_ega_data copies all 16 palette slots: loop over a range whose upper bound is 16 (or >= 16) and break only on palette.len()
    tb = f.bodies.get("formats::artworx::to_ega_data")
    if tb is not None:
        eb = ExprBuilder(tb)
        ranges = []
        for bi, k, s in tb.stmts():
            if s["k"] == "assign" and s["rv"]["k"] == "agg" and s["rv"].get("adt") in ("std::ops::Range", "std::ops::RangeInclusive"):
                ops = [eb.operand(o) for o in s["rv"]["ops"]]
                ranges.append((s["rv"]["adt"], ops, s["line"]))
        def sixteen(e):
            """16, or min(palette length, 16) in either order (16 as a literal or as the length of a 16-entry constant table)"""
            if e == ("const", 16):
                return True
            if e[0] == "len":
                x = e[1]
                while x[0] in ("ref", "deref", "cast"):
                    x = x[1] if x[0] != "cast" else x[2]
                if x[0] in ("def", "static"):
                    t_ = f.const_table(x[1])
                    return isinstance(t_, list) and len(t_) == 16
                return False
            if e[0] == "call" and e[1].split("::")[-1] == "min" and len(e[2]) == 2:
                a_, b_ = e[2]
                pal = lambda z: (z[0] == "len" or (z[0] == "call" and z[1].endswith("::len"))) and "palette" in show(z)
                return (pal(a_) and sixteen(b_)) or (pal(b_) and sixteen(a_))
            return False
        ok = any(ops[0] == ("const", 0) and ((adt.endswith("Range") and sixteen(ops[1])) or (adt.endswith("RangeInclusive") and ops[1] == ("const", 15)))
                 for adt, ops, line in ranges)
        if not ok:
            # the 16 slots walked as the entries of the 16-entry offset table itself: TABLE.iter().enumerate()[.take(palette.len())]
            for bi_, t_ in tb.calls():
                if (t_["callee"].get("resolved") or "").endswith("::into_iter") and t_["args"]:
                    src_ = eb.operand(t_["args"][0])
                    if src_[0] == "call" and src_[1].endswith("Iterator::take") and len(src_[2]) == 2:
                        n_ = src_[2][1]
                        if not ((n_[0] == "len" or (n_[0] == "call" and n_[1].endswith("::len"))) and "palette" in show(n_)):
                            continue
                        src_ = src_[2][0]
                    if src_[0] == "call" and src_[1].endswith("Iterator::enumerate") and len(src_[2]) == 1:
                        it_ = src_[2][0]
                        if it_[0] == "call" and it_[1].endswith("<impl [T]>::iter") and sixteen(("len", it_[2][0])):
                            ok = True
        chk.obligation(ok)
        if not ok:
            chk.finding("formats::artworx::to_ega_data|slots", rule="R-6BIT", where="%s:%s" % (tb.file, tb.line), fn="to_ega_data",
                        what="the EGA encoder does not iterate over palette slots 0..16: %s" % [(a.split("::")[-1], [show(o) for o in ops]) for a, ops, l in ranges])
    chk.floor("R-6BIT", "channel expressions normalised", n6, 6)
    return chk.finish("Call tree of insert_color (%d bodies) scanned for mutations of Palette.colors; return-value shapes of insert_color checked "
                      "(found index under exactly the r/g/b comparisons, appended index = len-1 after push); %d channel expressions of the 6-bit "
                      "codecs compared as GF(2) normal forms." % (len(reach), n6))

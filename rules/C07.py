"""C07 — the native IcyDraw format is lossless (structural necessary conditions; cell-exact reproduction is value-level).

  R-LOSSLESS-PATH   in Buffer::to_bytes the branch taken when options.lossles_output is true hands `self` to the format
                    writer and reaches the return without ColorOptimizer::{new,optimize} / flat_clone; IcyDraw::to_bytes
                    itself never reaches them.
  R-CHUNK-VOCAB     every zTXt keyword the writer emits is accepted by the reader; per-cell markers and layer flag constants
                    are pairwise bit-disjoint and used by both sides.
  R-NO-TRUNC        every narrowing integer cast in IcyDraw::to_bytes is proven value-preserving by abstract interpretation
                    (the short cell record is only chosen when all four fields fit a byte).
  R-DEFAULT-SKIP    the PALETTE chunk may only be skipped for a palette that *is* the default: Palette::is_default can return
                    true only when len(colors) == 16 is established.
  R-CHUNK-GUARD     a chunk may be left out only under a reviewed condition: the crate-local boolean predicates on which any
                    add_ztxt_chunk call of the writer is control dependent are exactly Buffer::has_sauce (no SAUCE, no chunk)
                    and Palette::is_default (R-DEFAULT-SKIP); iteration, error propagation and size comparisons are not
                    predicates in this sense.  A new `if font.is_default() { continue }` is a new way of losing a part.
  R-GUARDED-SETTER  while the loader fills a layer, the flag fields that make Layer::{set_offset,set_size,set_char} return early
                    still have their constructor values (file-supplied flags are applied afterwards)."""
import re

from analysis import cg as CG
from analysis import facts as F
from analysis.absint import Analyzer
from analysis.expr import ExprBuilder, show
from analysis.report import load_table
from rules import panic_common as P

WRITER = "<formats::icy_draw::IcyDraw as formats::OutputFormat>::to_bytes"
READER = "<formats::icy_draw::IcyDraw as formats::OutputFormat>::load_buffer"
FORBIDDEN = ("ColorOptimizer::new", "ColorOptimizer::optimize", "Buffer::flat_clone")
WIDTH = {"u8": 8, "u16": 16, "u32": 32, "u64": 64, "usize": 64, "i8": 8, "i16": 16, "i32": 32, "i64": 64, "isize": 64}


def strings_of(e, out, depth=0):
    if depth > 60 or not isinstance(e, (tuple, list)):
        return
    if isinstance(e, tuple) and e and e[0] == "str":
        out.append(e[1])
        return
    for x in e:
        if isinstance(x, (tuple, list)):
            strings_of(x, out, depth + 1)


# ===================================================================================================== R-RECORD-GUARD
def record_guard(chk, rb):
    """R-RECORD-GUARD: a length guard of the reader of the form `if cursor + K > data.len() { return Err }` must not demand more
    bytes than the record it protects has: along the straight-line code from the guard's pass edge to the next branch or join,
    the cursor advances by C bytes (sum of its constant increments); K > C means that a complete record standing at the very
    end of the chunk - the last cell of a completely filled last row - is rejected, i.e. a document the writer produces does not
    load.  (K < C is the crash direction and is C02's business.)  Undecided, and never alarmed on: a region in which the cursor is
    handed to a callee by `&mut`, advanced by a non-constant amount, or not advanced at all."""
    eb = ExprBuilder(rb)
    nguards = ndecided = 0
    for bi, blk in enumerate(rb.blocks):
        t = blk["term"]
        if t["k"] != "switch":
            continue
        e = eb.operand(t["discr"])
        if not (e[0] == "bin" and e[1] == "Gt" and e[2][0] == "bin" and e[2][1] in ("Add", "AddO") and e[3][0] == "len"):
            continue
        a, c = e[2][2], e[2][3]
        if c[0] != "const" or a[0] != "var" or not isinstance(c[1], int):
            continue
        cur, K = a[1], c[1]
        pas = [tg for v, tg in t.get("targets", []) if v == 0]
        if len(pas) != 1 or pas[0] is None:
            continue
        # the failing side must end the function with an error without coming back
        nguards += 1
        x = pas[0]
        C = 0
        decided = True
        seen = set()
        while x is not None and x not in seen:
            seen.add(x)
            if len(rb.pred[x]) > 1 and x != pas[0]:
                break
            bk = rb.blocks[x]
            for st in bk["stmts"]:
                if st["k"] != "assign":
                    continue
                if st["p"]["l"] == cur and not st["p"].get("p"):
                    ev = eb.rvalue(st["rv"])
                    # `o = o + c` (through the checked-add temporary)
                    if ev[0] == "bin" and ev[1] in ("Add", "AddO") and ev[2] == ("var", cur, a[2]) and ev[3][0] == "const" and isinstance(ev[3][1], int):
                        C += ev[3][1]
                    elif ev[0] == "field" and "Add" in str(ev):
                        m = re.search(r"\('const', (\d+)\)", str(ev))
                        if m and str(ev).count("'const'") == 1:
                            C += int(m.group(1))
                        else:
                            decided = False
                    else:
                        decided = False
                elif st["rv"]["k"] in ("ref", "rawptr") and st["rv"]["p"]["l"] == cur and st["rv"].get("mut"):
                    decided = False
            tt = bk["term"]
            if tt["k"] == "call":
                for ar in tt["args"]:
                    pj = ar.get("move") or ar.get("copy")
                    if pj is not None and rb.tys(pj["l"]).startswith("&mut usize"):
                        decided = False
                x = tt.get("target")
            elif tt["k"] in ("goto", "assert", "drop"):
                x = tt.get("target")
            else:
                break
        if not decided or C == 0:
            continue
        ndecided += 1
        ok = K <= C
        chk.obligation(ok)
        if not ok:
            chk.finding("IcyDraw::load_buffer|record-guard|%d>%d" % (K, C), rule="R-RECORD-GUARD", where="%s:%s" % (rb.file, t.get("line")), fn="IcyDraw::load_buffer",
                        what="the loader refuses the data unless %d more bytes are present, but the record read behind this guard has only %d: a complete "
                             "record at the very end of the chunk (last cell of a full last row) is rejected" % (K, C))
    chk.floor("R-RECORD-GUARD", "cursor + K > len guards of the loader", nguards, 1)
    chk.cov["record_guards_decided"] = ndecided      # no floor: reads moved into a `&mut cursor` helper make a guard undecided, not wrong


def run(chk):
    f = F.load()
    g, ip = P.shared(f)
    chk.rules = ["R-LOSSLESS-PATH", "R-CHUNK-VOCAB", "R-STRING-LEN", "R-NO-TRUNC", "R-DEFAULT-SKIP", "R-CHUNK-GUARD", "R-GUARDED-SETTER", "R-RECORD-GUARD"]
    chk.assumptions = ["png / base64 crates transport zTXt chunk text unchanged", "exact reproduction of cell values is not decided (value-level)"]
    reviewed = {}
    try:
        for e in load_table("reviewed_safe.json"):
            if "C07" in e.get("properties", []):
                reviewed[e["key"]] = (e.get("count", 1), e["reason"])
    except FileNotFoundError:
        pass
    # ------------------------------------------------------------------ R-LOSSLESS-PATH
    tb = f.method("buffers::Buffer", "to_bytes")
    if chk.anchor(tb is not None, "R-LOSSLESS-PATH", "anchor missing: Buffer::to_bytes"):
        eb = ExprBuilder(tb)
        sw = None
        for bi, t in tb.terms():
            if t["k"] == "switch":
                d = eb.operand(t["discr"])
                neg = False
                while d[0] == "un" and d[1] == "Not":
                    neg = not neg
                    d = d[2]
                x = d
                while x[0] in ("deref", "ref"):
                    x = x[1]
                if x[0] == "field" and x[2] == "lossles_output":
                    zero = [tg for v, tg in t["targets"] if v == 0]
                    t_true = t["otherwise"] if not neg else (zero[0] if zero else None)
                    sw = (bi, t_true)
        if chk.anchor(sw is not None and sw[1] is not None, "R-LOSSLESS-PATH", "anchor missing: branch on options.lossles_output in Buffer::to_bytes"):
            region = tb.reachable_from(sw[1], avoid=tb.loop_heads())
            bad = []
            fmt_calls = []
            for bi in region:
                t = tb.blocks[bi]["term"]
                if t["k"] == "call":
                    path = t["callee"].get("resolved") or t["callee"].get("path") or ""
                    if any(x in path for x in FORBIDDEN):
                        bad.append((bi, path))
                    if path.endswith("OutputFormat::to_bytes"):
                        a1 = eb.operand(t["args"][1])
                        fmt_calls.append((bi, a1))
            ok = not bad
            chk.obligation(ok)
            if not ok:
                chk.finding("Buffer::to_bytes|lossless-branch-optimises", rule="R-LOSSLESS-PATH", where="%s:%s" % (tb.file, tb.line), fn="Buffer::to_bytes",
                            what="the lossless branch reaches %s" % ", ".join(p for _, p in bad))
            ok = any(a[0] == "var" and a[2] == "self" for _, a in fmt_calls) or any(show(a) in ("self", "&*self", "*self") for _, a in fmt_calls)
            chk.obligation(ok)
            if not ok:
                chk.finding("Buffer::to_bytes|lossless-branch-arg", rule="R-LOSSLESS-PATH", where="%s:%s" % (tb.file, tb.line), fn="Buffer::to_bytes",
                            what="the lossless branch does not hand `self` itself to the format writer: %s" % [show(a) for _, a in fmt_calls])
            # the optimiser must not run before the branch either
            pre = [p for bi, t in tb.calls() if tb.dominates(bi, sw[0]) for p in [t["callee"].get("resolved") or ""] if any(x in p for x in FORBIDDEN)]
            chk.obligation(not pre)
            if pre:
                chk.finding("Buffer::to_bytes|optimiser-before-branch", rule="R-LOSSLESS-PATH", where="%s:%s" % (tb.file, tb.line), fn="Buffer::to_bytes",
                            what="%s runs before the lossless switch is consulted" % pre)
    wb = f.bodies.get(WRITER)
    rb = f.bodies.get(READER)
    if not chk.anchor(wb is not None and rb is not None, "R-CHUNK-VOCAB", "anchor missing: IcyDraw::to_bytes / load_buffer"):
        return chk.finish("anchor missing", reviewed=reviewed)
    wreach = g.reachable([WRITER])
    hits = [r for r in wreach if any(x in r for x in FORBIDDEN)]
    chk.obligation(not hits)
    if hits:
        chk.finding("IcyDraw::to_bytes|reaches-optimiser", rule="R-LOSSLESS-PATH", where="%s:%s" % (wb.file, wb.line), fn="IcyDraw::to_bytes",
                    what="the native writer reaches %s" % hits)
    # ------------------------------------------------------------------ R-CHUNK-VOCAB
    web = ExprBuilder(wb)
    keywords = set()
    for bi, t in wb.calls():
        if (t["callee"].get("resolved") or "").endswith("add_ztxt_chunk"):
            e = web.operand(t["args"][1])
            ss = []
            strings_of(e, ss)
            if not ss:
                # format!("LAYER_{i}") : the format string pieces live in the Arguments construction
                ss2 = []
                strings_of(e, ss2)
            keywords.update(s for s in ss if s)
    # format! pieces: const str operands in the writer that look like chunk prefixes
    for bi, k, s in wb.stmts():
        pass
    allstr = set()
    for bi, t in wb.calls():
        for a in t["args"]:
            c = a.get("const", {})
            if "str" in c:
                allstr.add(c["str"])
    for bi, k, s in wb.stmts():
        if s["k"] == "assign":
            for key in ("a", "b"):
                c = s["rv"].get(key, {}).get("const", {}) if isinstance(s["rv"].get(key), dict) else {}
                if "str" in c:
                    allstr.add(c["str"])
            for o in s["rv"].get("ops", []):
                c = o.get("const", {})
                if "str" in c:
                    allstr.add(c["str"])
    # format!("FONT_{k}") / format!("LAYER_{i}~{chunk}") are lowered to byte-string templates: collect their literal pieces
    def byte_consts(b):
        out = []
        def visit(o):
            c = o.get("const", {}) if isinstance(o, dict) else {}
            if "bytes" in c:
                try:
                    out.append(bytes.fromhex(c["bytes"]))
                except ValueError:
                    pass
        for bi, t in b.calls():
            for a in t["args"]:
                visit(a)
        for bi, k, s2 in b.stmts():
            if s2["k"] == "assign":
                for key in ("a", "b"):
                    visit(s2["rv"].get(key))
                for o in s2["rv"].get("ops", []):
                    visit(o)
        return out
    for raw in byte_consts(wb):
        for m in re.finditer(rb"[A-Z]{3,}_", raw):
            allstr.add(m.group(0).decode())
        if b"~" in raw:
            allstr.add("~")
    prefixes = {s for s in allstr if re.fullmatch(r"[A-Z]+_?", s) or s == "~"}
    keywords |= {s for s in prefixes if s != "~"}
    chk.floor("R-CHUNK-VOCAB", "writer chunk keywords / prefixes", len(keywords), 4)
    # reader vocabulary
    rstr = set()
    for bi, t in rb.calls():
        for a in t["args"]:
            c = a.get("const", {})
            if "str" in c:
                rstr.add(c["str"])
    for bi, k, s in rb.stmts():
        if s["k"] == "assign":
            for key in ("a", "b"):
                v = s["rv"].get(key)
                if isinstance(v, dict) and "str" in v.get("const", {}):
                    rstr.add(v["const"]["str"])
    # keyword match arms compile to str::eq calls against literals; the regex for continuation chunks
    rx = None
    init = f.bodies.get("<formats::icy_draw::LAYER_CONTINUE_REGEX as std::ops::Deref>::deref::__static_ref_initialize")
    if init is not None:
        rx = P._regex_literal(init)
    chk.anchor(rx is not None, "R-CHUNK-VOCAB", "anchor missing: LAYER_CONTINUE_REGEX literal")
    for kw in sorted(keywords):
        ok = kw in rstr or any(r == kw for r in rstr)
        if not ok and rx is not None and kw.endswith("_"):
            ok = kw in rstr
        chk.obligation(ok)
        if not ok:
            chk.finding("IcyDraw|chunk-keyword|%s" % kw, rule="R-CHUNK-VOCAB", where="%s:%s" % (wb.file, wb.line), fn="IcyDraw::to_bytes",
                        what="the writer emits chunk keyword/prefix %r which no reader arm mentions (reader literals: %s)" % (kw, sorted(x for x in rstr if x.isupper() or x.endswith("_"))))
    if rx is not None and "~" in prefixes:
        ok = bool(re.fullmatch(rx, "LAYER_12~3"))
        chk.obligation(ok)
        if not ok:
            chk.finding("IcyDraw|continuation-regex", rule="R-CHUNK-VOCAB", where="%s:%s" % (rb.file, rb.line), fn="IcyDraw::load_buffer",
                        what="the continuation-chunk regex %r does not accept the writer's `LAYER_<n>~<k>` keywords" % rx)
    chk.sample("writer keywords %s ⊆ reader literals" % sorted(keywords))
    # marker constants
    markers = {n: f.const_table("text_attribute::attribute::" + n) for n in ("SHORT_DATA", "INVISIBLE", "INVISIBLE_SHORT")}
    flags = {n: f.const_table("formats::icy_draw::constants::layer::" + n) for n in ("IS_VISIBLE", "POS_LOCK", "EDIT_LOCK", "HAS_ALPHA", "ALPHA_LOCKED")}
    chk.anchor(all(v is not None for v in list(markers.values()) + list(flags.values())), "R-CHUNK-VOCAB", "anchor missing: marker / layer flag constants")
    if all(v is not None for v in flags.values()):
        vals = list(flags.items())
        for i in range(len(vals)):
            for j in range(i + 1, len(vals)):
                ok = vals[i][1] & vals[j][1] == 0 and vals[i][1] != 0 and vals[j][1] != 0
                chk.obligation(ok)
                if not ok:
                    chk.finding("IcyDraw|flag-overlap|%s|%s" % (vals[i][0], vals[j][0]), rule="R-CHUNK-VOCAB", where="src/formats/icy_draw.rs", fn="constants::layer",
                                what="layer flag constants %s=%#x and %s=%#x overlap" % (vals[i][0], vals[i][1], vals[j][0], vals[j][1]))
    if all(v is not None for v in markers.values()):
        m = markers
        ok = m["INVISIBLE_SHORT"] == (m["INVISIBLE"] | m["SHORT_DATA"]) and m["INVISIBLE"] & m["SHORT_DATA"] == 0 and m["SHORT_DATA"] != 0 and m["INVISIBLE"] != 0
        chk.obligation(ok)
        if not ok:
            chk.finding("IcyDraw|marker-bits", rule="R-CHUNK-VOCAB", where="src/text_attribute.rs", fn="attribute", what="SHORT_DATA / INVISIBLE / INVISIBLE_SHORT are not two disjoint bits and their union: %s" % m)
        # no ordinary attribute flag collides with the markers
        for nm in ("BOLD", "FAINT", "ITALIC", "BLINK", "UNDERLINE", "DOUBLE_UNDERLINE", "CONCEAL", "CROSSED_OUT", "DOUBLE_HEIGHT", "OVERLINE"):
            v = f.const_table("text_attribute::attribute::" + nm)
            if v is None:
                continue
            ok = v & (m["INVISIBLE"] | m["SHORT_DATA"]) == 0
            chk.obligation(ok)
            if not ok:
                chk.finding("IcyDraw|marker-collision|%s" % nm, rule="R-CHUNK-VOCAB", where="src/text_attribute.rs", fn="attribute", what="attribute flag %s collides with a record marker bit" % nm)
    # each constant is referenced by both sides
    def refs(b):
        out = set()
        for bi, k, s in b.stmts():
            if s["k"] == "assign":
                for key in ("a", "b"):
                    v = s["rv"].get(key)
                    if isinstance(v, dict) and "def" in v.get("const", {}):
                        out.add(v["const"]["def"])
        for bi, t in b.terms():
            if t["k"] == "switch" and "def" in t["discr"].get("const", {}):
                out.add(t["discr"]["const"]["def"])
        return out
    def side(b0):
        """the body and the helpers of the same file it (transitively) calls: a flag word may be composed in a helper"""
        out, todo = [b0], [b0]
        while todo:
            x = todo.pop()
            for _, t_ in x.calls():
                cb_ = f.bodies.get(t_["callee"].get("resolved") or "")
                if cb_ is not None and cb_.file == b0.file and cb_ not in out and cb_.kind in ("fn", "method", "closure"):
                    out.append(cb_)
                    todo.append(cb_)
            for cid_, cb_ in f.bodies.items():
                if cb_.kind == "closure" and cb_.parent == x.id and cb_ not in out:
                    out.append(cb_)
                    todo.append(cb_)
        return out
    wside, rside = side(wb), side(rb)
    wrefs = set().union(*[refs(x) for x in wside])
    rrefs = set().union(*[refs(x) for x in rside])
    for nm in list(flags) + ["SHORT_DATA"]:
        full = [x for x in (wrefs | rrefs) if x.endswith("::" + nm)]
        ok = any(x.endswith("::" + nm) for x in wrefs) and any(x.endswith("::" + nm) for x in rrefs)
        # constants may be folded to literals by rustc: fall back to value occurrence
        if not ok:
            val = flags.get(nm, markers.get(nm))
            def has_val(b):
                for bi, k, s in b.stmts():
                    if s["k"] == "assign":
                        for key in ("a", "b"):
                            v = s["rv"].get(key)
                            if isinstance(v, dict) and v.get("const", {}).get("val") == val:
                                return True
                return False
            ok = (any(x.endswith("::" + nm) for x in wrefs) or any(has_val(x) for x in wside)) and (any(x.endswith("::" + nm) for x in rrefs) or any(has_val(x) for x in rside))
        chk.obligation(ok)
        if not ok:
            chk.finding("IcyDraw|constant-one-sided|%s" % nm, rule="R-CHUNK-VOCAB", where="src/formats/icy_draw.rs", fn="IcyDraw", what="constant %s is not used by both writer and reader" % nm)
    # ------------------------------------------------------------------ R-STRING-LEN (writer/reader of length-prefixed strings agree on *byte* length)
    ws = f.bodies.get("formats::icy_draw::write_utf8_encoded_string")
    rs = f.bodies.get("formats::icy_draw::read_utf8_encoded_string")
    if chk.anchor(ws is not None and rs is not None, "R-STRING-LEN", "anchor missing: write/read_utf8_encoded_string"):
        e2 = ExprBuilder(ws)
        exts = [show(e2.call_expr(t)) for bi, t in ws.calls() if (t["callee"].get("resolved") or "").endswith("::extend")]
        ok = len(exts) == 2 and "to_le_bytes((len(&*s) as u32))" in exts[0] and exts[1].endswith("as_bytes(&*s))")
        chk.obligation(ok)
        if not ok:
            chk.finding("write_utf8_encoded_string|shape", rule="R-STRING-LEN", where="%s:%s" % (ws.file, ws.line), fn="write_utf8_encoded_string",
                        what="the length prefix is not the byte length of the bytes that follow: %s" % exts)
        e3 = ExprBuilder(rs)
        txt = " ".join(show(e3.call_expr(t)) for bi, t in rs.calls())
        ok = "Range{0, 4}" in txt and "Range{4, (4 + " in txt
        chk.obligation(ok)
        if not ok:
            chk.finding("read_utf8_encoded_string|shape", rule="R-STRING-LEN", where="%s:%s" % (rs.file, rs.line), fn="read_utf8_encoded_string",
                        what="the reader does not take the 4-byte length prefix as the byte count of data[4..4+n]")
    # ------------------------------------------------------------------ R-NO-TRUNC
    an = Analyzer(f, interproc=ip)
    an.cast_log = []
    an.analyze(wb)
    nnarrow = 0
    for line, iv, ft, tt, opnd in an.cast_log:
        fty, tty = f.types[ft], f.types[tt]
        if fty["k"] not in ("int", "char") or tty["k"] != "int":
            continue
        fw = 32 if fty["k"] == "char" else WIDTH.get(fty["n"], 64)
        tw = WIDTH.get(tty["n"], 64)
        fs = fty["k"] == "int" and fty["n"].startswith("i")
        ts = tty["n"].startswith("i")
        if tw > fw or (tw == fw and fs == ts):
            continue
        if tw == fw:
            continue            # same-width sign reinterpretation round-trips (i32 <-> u32 fields)
        nnarrow += 1
        lo, hi = (-(1 << (tw - 1)), (1 << (tw - 1)) - 1) if ts else (0, (1 << tw) - 1)
        ok = iv is not None and iv[0] is not None and iv[1] is not None and lo <= iv[0] and iv[1] <= hi
        chk.obligation(ok)
        if not ok:
            eb2 = ExprBuilder(wb)
            desc = show(eb2.operand(opnd))[:80]
            chk.finding("IcyDraw::to_bytes|trunc|%s as %s|%s" % (fty.get("n", "char"), tty["n"], desc), rule="R-NO-TRUNC", where="%s:%s" % (wb.file, line),
                        fn="IcyDraw::to_bytes", what="narrowing cast of a value with interval %s to %s may lose information" % (iv, tty["n"]))
    chk.floor("R-NO-TRUNC", "narrowing casts in the writer", nnarrow, 5)
    # ------------------------------------------------------------------ R-DEFAULT-SKIP
    isd = f.method("palette_handling::Palette", "is_default")
    if chk.anchor(isd is not None, "R-DEFAULT-SKIP", "anchor missing: Palette::is_default"):
        an2 = Analyzer(f, interproc=ip)
        r2 = an2.analyze(isd)
        n_def = 16
        lt = ("len", 1, ("*", "colors"))
        nret = 0
        for bi, st in r2.ret_states:
            v = st.sym.get((0, ()))
            st = st.copy()
            if v is not None and v[0] == "b":
                an2.assume(st, v[1], True)
            elif v is not None and v[0] == "n" and v[1] is None and v[2] == 0:
                continue
            if st.bottom:
                continue
            nret += 1
            i = st.iv.get(lt, (0, None))
            ok = i[0] == n_def and i[1] == n_def
            chk.obligation(ok)
            if not ok:
                chk.finding("Palette::is_default|len", rule="R-DEFAULT-SKIP", where="%s:%s" % (isd.file, isd.line), fn="Palette::is_default",
                            what="is_default may return true for a palette whose length is %s, not exactly %d: the writer would drop its PALETTE chunk" % (i, n_def))
        chk.floor("R-DEFAULT-SKIP", "return paths of is_default that may yield true", nret, 1)
        # the writer's PALETTE chunk must be control dependent on is_default only
        pal_calls = [bi for bi, t in wb.calls() if (t["callee"].get("resolved") or "").endswith("Palette::is_default")]
        chk.anchor(len(pal_calls) == 1, "R-DEFAULT-SKIP", "the writer consults Palette::is_default once")
    # ------------------------------------------------------------------ R-CHUNK-GUARD
    ALLOWED_SKIP = {"buffers::Buffer::has_sauce": "a buffer without SAUCE data has nothing to put into a SAUCE chunk",
                    "palette_handling::Palette::is_default": "the loader starts from the default palette; exactness of is_default is R-DEFAULT-SKIP"}
    chunk_sites = [(bi, t) for bi, t in wb.calls() if (t["callee"].get("resolved") or "").endswith("add_ztxt_chunk")]
    chk.floor("R-CHUNK-GUARD", "chunk write sites in the writer", len(chunk_sites), 5)
    preds = {}
    for bi, t in chunk_sites:
        for d in wb.control_deps(bi):
            tt = wb.blocks[d]["term"]
            if tt["k"] != "switch":
                continue
            pj = tt["discr"].get("copy") or tt["discr"].get("move")
            if pj is None or pj.get("p"):
                continue
            # the discriminant local is (the negation of) the boolean result of a call
            l = pj["l"]
            for _ in range(3):
                ds = wb.defs.get(l, [])
                if len(ds) != 1:
                    break
                x, k = ds[0]
                if k == "term":
                    ct = wb.blocks[x]["term"]
                    path = ct["callee"].get("resolved") or ct["callee"].get("path") or ""
                    rty = wb.tys(l)
                    if rty == "bool" and not re.match(r"^(std|core|alloc)::|^<(std|core|alloc)::", path):
                        preds.setdefault(path, []).append((bi, ct.get("line")))
                    break
                rv = wb.blocks[x]["stmts"][k]["rv"]
                if rv["k"] == "un" and rv.get("op") == "Not":
                    q = rv["a"].get("copy") or rv["a"].get("move")
                elif rv["k"] == "use":
                    q = rv["a"].get("copy") or rv["a"].get("move")
                else:
                    break
                if q is None or q.get("p"):
                    break
                l = q["l"]
    chk.floor("R-CHUNK-GUARD", "predicates that guard a chunk", len(preds), 2)
    for path, sites in sorted(preds.items()):
        ok = path in ALLOWED_SKIP
        chk.obligation(ok)
        if not ok:
            chk.finding("IcyDraw::to_bytes|chunk-guard|%s" % path, rule="R-CHUNK-GUARD", where="%s:%s" % (wb.file, sites[0][1]), fn="IcyDraw::to_bytes",
                        what="%d chunk write(s) are skipped depending on %s, which is not one of the reviewed skip conditions (%s): the part of the document it leaves out is not in the file" % (
                            len({b_ for b_, _ in sites}), path, ", ".join(sorted(x.split("::")[-1] for x in ALLOWED_SKIP))))
    # ------------------------------------------------------------------ R-GUARDED-SETTER
    an3 = Analyzer(f, interproc=ip)
    an3.analyze(rb, collect=False)
    reb = ExprBuilder(rb)
    setters = {}
    for nm in ("set_offset", "set_size", "set_char"):
        sb = f.method("layer::Layer", nm)
        if sb is None:
            continue
        seb = ExprBuilder(sb)
        guards = set()
        for bi, t in sb.terms():
            if t["k"] == "switch":
                d = seb.operand(t["discr"])
                txt = show(d)
                for m in re.finditer(r"properties\.(\w+)", txt):
                    guards.add(m.group(1))
        setters[sb.id] = (nm, guards)
    chk.floor("R-GUARDED-SETTER", "guarded Layer setters recognised", sum(1 for v in setters.values() if v[1]), 2)
    nsites = 0
    for bi, t in rb.calls():
        res = t["callee"].get("resolved") or ""
        if res not in setters:
            continue
        nm, guards = setters[res]
        if not guards:
            continue
        recv = reb.operand(t["args"][0])
        x = recv
        while x[0] in ("ref", "deref"):
            x = x[1]
        if x[0] != "var" or not any(k == "term" and (rb.blocks[b0]["term"]["callee"].get("resolved") or "").endswith("Layer::new") for b0, k in rb.defs.get(x[1], [])):
            continue            # continuation chunks address an already finished layer: flags legitimately apply there
        # only the layer under construction (declared by Layer::new in this chunk arm)
        defs = rb.defs.get(x[1], [])
        fresh = any(k == "term" and (rb.blocks[b0]["term"]["callee"].get("resolved") or "").endswith("Layer::new") for b0, k in defs)
        if not fresh:
            continue
        nsites += 1
        st = an3.state_before_term(bi)
        if st is None:
            continue
        rv, rt = an3.eval_op(st, t["args"][0])
        if rv[0] != "ref" or rv[1] is None:
            chk.obligation(False)
            chk.finding("IcyDraw::load_buffer|setter-unresolved|%s" % nm, rule="R-GUARDED-SETTER", where="%s:%s" % (rb.file, t["line"]), fn="IcyDraw::load_buffer",
                        what="receiver of Layer::%s cannot be resolved" % nm)
            continue
        for gname in sorted(guards):
            term = ("v", rv[1], rv[2] + ("properties", gname))
            i = st.iv.get(term)
            sv = st.sym.get((rv[1], rv[2] + ("properties", gname)))
            if sv is not None and sv[0] in ("n", "iv", "b"):
                i = st.val_iv(sv) if sv[0] != "b" else i
                if sv[0] == "b":
                    from analysis.absdom import _bool_const
                    bc = _bool_const(sv)
                    i = (bc, bc) if bc is not None else i
            ok = i is not None and i[0] is not None and i[0] == i[1]
            chk.obligation(ok)
            if not ok:
                chk.finding("IcyDraw::load_buffer|guard-not-default|%s|%s" % (nm, gname), rule="R-GUARDED-SETTER", where="%s:%s" % (rb.file, t["line"]),
                            fn="IcyDraw::load_buffer",
                            what="Layer::%s returns early depending on properties.%s, which no longer has its constructor value here (a file-supplied flag can make the loader drop data)" % (nm, gname))
    chk.floor("R-GUARDED-SETTER", "guarded setter calls on the layer under construction", nsites, 2)
    record_guard(chk, rb)
    return chk.finish("Lossless switch of Buffer::to_bytes, chunk vocabulary (%d keywords), marker/flag constants, %d narrowing casts of the writer, "
                      "Palette::is_default exactness and %d guarded-setter call sites of the loader checked." % (len(keywords), nnarrow, nsites), reviewed=reviewed)

"""C14 — sixel images appear in arrival order; polling never blocks, loses or duplicates an image.

Schedule clauses decided structurally (for every completion order of the decode threads):
  R-FIFO      crate-wide, the only operations on Buffer.sixel_threads are push_back (producer) and front / pop_front /
              is_empty / len / clear / new: the queue is consumed strictly in arrival order.
  R-NONBLOCK  in update_sixel_threads every JoinHandle::join is dominated by the `finished` branch of is_finished() on the
              handle returned by front() *in the same loop iteration*; the not-finished branch leaves without popping;
              no other blocking call is reachable.
  R-ONCE      each popped, successfully decoded image is pushed onto layers[0].sixels exactly once, after the shadow-removal
              loop; R-SHADOW: after removing a shadowed image the same index is examined again.
  R-ARRIVAL   the list of images on a layer (`Layer.sixels`) is only ever changed by order-preserving operations (push, remove,
              retain, pop, clear, truncate - never swap_remove / swap / sort / reverse / insert / rotate), crate-wide and on the
              alias `update_sixel_threads` works through; and no code reachable from a text parser's print_char appends to it:
              an image decoded from the stream reaches the screen through the queue only.
Not decided: that the pixel data is width*height*4 bytes (value-level; a known genuine defect of this clause is described in DESIGN §6)."""
from analysis import facts as F
from analysis import cg as CG
from analysis.expr import ExprBuilder, show

ALLOWED_QUEUE_OPS = {"push_back", "front", "pop_front", "is_empty", "len", "clear", "new"}
BLOCKING = ("std::thread::sleep", "JoinHandle::<T>::join", "::recv", "Mutex::<T>::lock", "Condvar::wait", "std::thread::park", "::recv_timeout", "Barrier::wait")


def strip(e):
    while e[0] in ("ref", "deref"):
        e = e[1]
    return e


def field_of(e):
    """name of the field an expression designates (through refs/derefs), or None"""
    e = strip(e)
    if e[0] == "field":
        return e[2]
    return None


def mentions_call(e, suffix, depth=0):
    if depth > 40 or not isinstance(e, tuple):
        return False
    if e and e[0] == "call" and isinstance(e[1], str) and e[1].endswith(suffix):
        return True
    for x in e[1:]:
        if isinstance(x, tuple) and mentions_call(x, suffix, depth + 1):
            return True
        if isinstance(x, list) and any(mentions_call(y, suffix, depth + 1) for y in x):
            return True
    return False


def innermost_loop(b, block):
    best = None
    for h in b.loop_heads():
        L = b.natural_loop(h)
        if block in L and (best is None or len(L) < len(best[1])):
            best = (h, L)
    return best


def run(chk):
    f = F.load()
    chk.rules = ["R-FIFO", "R-NONBLOCK", "R-ONCE", "R-SHADOW", "R-ARRIVAL"]
    chk.assumptions = ["std::collections::VecDeque, std::thread::JoinHandle behave as documented (is_finished does not block; join on a finished thread returns at once)",
                       "the rectangle clause (width x height x 4 bytes) is not decided by this check"]
    # ------------------------------------------------------------------ R-FIFO
    ops = []
    for b in f.bodies.values():
        if b.kind not in ("fn", "method", "closure"):
            continue
        eb = None
        for bi, t in b.calls():
            if not t["args"]:
                continue
            # cheap pre-filter: some argument place mentions the field
            txt = str(t["args"])
            if "sixel_threads" not in txt and not any("sixel_threads" in str(s) for s in b.blocks[bi]["stmts"]):
                continue
            eb = eb or ExprBuilder(b)
            for a in t["args"]:
                if field_of(eb.operand(a)) == "sixel_threads":
                    path = t["callee"].get("resolved") or t["callee"].get("path") or "?"
                    ops.append((b, bi, t, path.split("::")[-1], path))
        # direct assignments of the field other than construction
    names = sorted({o[3] for o in ops})
    chk.floor("R-FIFO", "operations on Buffer.sixel_threads found", len(ops), 3)
    for b, bi, t, nm, path in ops:
        ok = nm in ALLOWED_QUEUE_OPS and ("VecDeque" in path)
        chk.obligation(ok)
        if not ok:
            chk.finding("%s|queue-op|%s" % (b.short(), nm), rule="R-FIFO", where="%s:%s" % (b.file, t["line"]), fn=b.short(),
                        what="operation `%s` on the sixel decode queue is not one of %s" % (path, sorted(ALLOWED_QUEUE_OPS)))
    producers = [o for o in ops if o[3] == "push_back"]
    chk.anchor(len(producers) >= 1, "R-FIFO", "anchor missing: no push_back producer of sixel_threads found")
    chk.sample("queue operations: %s" % ", ".join("%s in %s" % (o[3], o[0].short().split("::")[-1]) for o in ops))
    # ------------------------------------------------------------------ update_sixel_threads
    b = f.method("buffers::Buffer", "update_sixel_threads")
    if not chk.anchor(b is not None, "R-NONBLOCK", "anchor missing: Buffer::update_sixel_threads"):
        return chk.finish("anchor missing")
    eb = ExprBuilder(b)

    def calls(suffix):
        return [(bi, t) for bi, t in b.calls() if (t["callee"].get("resolved") or t["callee"].get("path") or "").endswith(suffix)]
    fronts, finished, pops, joins = calls("::front"), calls("::is_finished"), calls("::pop_front"), calls("JoinHandle::<T>::join")
    chk.anchor(len(fronts) >= 1 and len(finished) >= 1 and len(pops) >= 1 and len(joins) >= 1, "R-NONBLOCK",
               "anchor missing: front / is_finished / pop_front / join calls in update_sixel_threads (%d/%d/%d/%d)" % (len(fronts), len(finished), len(pops), len(joins)))
    key = "buffers::Buffer::update_sixel_threads"
    # is_finished is asked of the handle returned by front()
    for bi, t in finished:
        e = eb.operand(t["args"][0])
        ok = mentions_call(e, "::front")
        chk.obligation(ok)
        if not ok:
            chk.finding(key + "|is_finished-not-on-front", rule="R-NONBLOCK", where="%s:%s" % (b.file, t["line"]), fn=b.short(),
                        what="is_finished() is not called on the handle returned by sixel_threads.front(): %s" % show(e)[:120])
    # branch structure after is_finished
    fin_targets = []
    for qbi, qt in finished:
        dest = qt["dest"]["l"]
        # find the switch whose discriminant derives from this call (possibly through Not)
        found = None
        for sbi, st in b.terms():
            if st["k"] != "switch":
                continue
            d = eb.operand(st["discr"])
            neg = False
            while d[0] == "un" and d[1] == "Not":
                neg = not neg
                d = d[2]
            if d[0] == "call" and d[1].endswith("::is_finished") and b.dominates(qbi, sbi):
                found = (sbi, st, neg)
                break
        if found is None:
            chk.obligation(False)
            chk.finding(key + "|is_finished-unused", rule="R-NONBLOCK", where="%s:%s" % (b.file, qt["line"]), fn=b.short(),
                        what="the result of is_finished() does not decide a branch")
            continue
        sbi, st, neg = found
        zero_t = [tg for v, tg in st["targets"] if v == 0]
        fin_is_true = not neg
        false_target = zero_t[0] if zero_t else None
        true_target = st["otherwise"]
        fin_t = true_target if fin_is_true else false_target
        notfin_t = false_target if fin_is_true else true_target
        fin_targets.append((qbi, fin_t, notfin_t))
    pop_blocks = {bi for bi, _ in pops}
    join_blocks = {bi for bi, _ in joins}
    for jbi, jt in joins:
        ok = False
        for qbi, fin_t, notfin_t in fin_targets:
            lj = innermost_loop(b, jbi)
            lq = innermost_loop(b, qbi)
            same_iter = (lj is None and lq is None) or (lj is not None and lq is not None and lj[0] == lq[0]) or (lj is not None and qbi in lj[1])
            if fin_t is not None and b.dominates(fin_t, jbi) and same_iter:
                # the joined handle is the popped front handle
                e = eb.operand(jt["args"][0])
                if mentions_call(e, "::pop_front"):
                    ok = True
        chk.obligation(ok)
        if not ok:
            chk.finding(key + "|join-not-guarded", rule="R-NONBLOCK", where="%s:%s" % (b.file, jt["line"]), fn=b.short(),
                        what="JoinHandle::join is not dominated by the finished branch of is_finished() on the front handle in the same loop iteration (polling may block on a running decode)")
    for pbi, pt in pops:
        ok = any(fin_t is not None and b.dominates(fin_t, pbi) and ((innermost_loop(b, pbi) or (None,))[0] == (innermost_loop(b, qbi) or (None,))[0])
                 for qbi, fin_t, notfin_t in fin_targets)
        chk.obligation(ok)
        if not ok:
            chk.finding(key + "|pop-not-guarded", rule="R-NONBLOCK", where="%s:%s" % (b.file, pt["line"]), fn=b.short(),
                        what="pop_front is not dominated by the finished branch of is_finished() in the same loop iteration")
    for qbi, fin_t, notfin_t in fin_targets:
        ok = notfin_t is not None
        if ok:
            # from the not-finished branch nothing pops or joins before the function returns (no path back into the loop)
            heads = b.loop_heads()
            reach = b.reachable_from(notfin_t)
            ok = not (reach & pop_blocks) and not (reach & join_blocks)
        chk.obligation(ok)
        if not ok:
            chk.finding(key + "|not-finished-continues", rule="R-NONBLOCK", where="%s:%s" % (b.file, b.line), fn=b.short(),
                        what="the not-finished branch can reach pop_front/join: a running decode would be waited for or skipped")
    # no other blocking call reachable
    g = CG.CallGraph(f)
    reach = g.reachable([b.id])
    nblocking = 0
    for rid in reach:
        rb = f.bodies[rid]
        for bi, t in rb.calls():
            path = t["callee"].get("resolved") or t["callee"].get("path") or ""
            if any(x in path for x in BLOCKING):
                nblocking += 1
                allowed = rid == b.id and bi in join_blocks
                chk.obligation(allowed)
                if not allowed:
                    chk.finding(key + "|blocking|%s|%s" % (rb.short(), path.split("::")[-1]), rule="R-NONBLOCK", where="%s:%s" % (rb.file, t["line"]),
                                fn=rb.short(), what="blocking call `%s` reachable from update_sixel_threads" % path)
    chk.cov["reachable_from_poll"] = len(reach)
    # ------------------------------------------------------------------ R-ONCE / R-SHADOW
    pushes = []
    removes = []          # (body the removal is in, its block, terminator, block in update_sixel_threads at which it happens)

    def is_list(e):
        tgt = strip(e)
        if field_of(e) == "sixels":
            return True
        # a local that holds `&mut layers[0].sixels` (whatever it is called)
        return tgt[0] == "var" and isinstance(tgt[1], int) and _alias_of_field(b, {"copy": {"l": tgt[1]}}, "sixels")
    for bi, t in b.calls():
        path = t["callee"].get("resolved") or ""
        if not t["args"]:
            continue
        hb = f.bodies.get(path)
        if hb is not None and hb.kind in ("fn", "method"):
            # the image list handed to a helper of the crate (`Self::remove_shadowed(vec, ..)`): its operations count as made here
            for ai, a in enumerate(t["args"]):
                if not is_list(eb.operand(a)):
                    continue
                heb = ExprBuilder(hb)
                for hbi, ht in hb.calls():
                    if not ht["args"]:
                        continue
                    x = strip(heb.operand(ht["args"][0]))
                    if not (x[0] == "var" and x[1] == ai + 1):
                        continue
                    hp = ht["callee"].get("resolved") or ""
                    if hp.endswith("Vec::<T, A>::remove") or hp.endswith("::swap_remove"):
                        removes.append((hb, hbi, ht, bi))
                    elif hp.split("::")[-1] in ("push", "insert", "extend", "append", "push_front"):
                        pushes.append((bi, t))
            continue
        if not is_list(eb.operand(t["args"][0])):
            continue
        if path.endswith("Vec::<T, A>::push"):
            pushes.append((bi, t))
        elif path.endswith("Vec::<T, A>::remove") or path.endswith("::swap_remove"):
            removes.append((b, bi, t, bi))
        elif path.split("::")[-1] in ("insert", "extend", "append", "push_front"):
            pushes.append((bi, t))
    ok = len(pushes) == 1
    chk.obligation(ok)
    if not ok:
        chk.finding(key + "|push-count|%d" % len(pushes), rule="R-ONCE", where="%s:%s" % (b.file, b.line), fn=b.short(),
                    what="expected exactly one delivery (Vec::push onto layers[0].sixels) per popped image, found %d" % len(pushes))
    if len(pushes) == 1 and pops:
        pbi = pushes[0][0]
        popbi = pops[0][0]
        lp = innermost_loop(b, pbi)
        lpop = innermost_loop(b, popbi)
        ok = (lp is None and lpop is None) or (lp is not None and lpop is not None and lp[0] == lpop[0])
        chk.obligation(ok)
        if not ok:
            chk.finding(key + "|push-loop", rule="R-ONCE", where="%s:%s" % (b.file, pushes[0][1]["line"]), fn=b.short(),
                        what="the delivery push is not executed once per popped image (it sits in a different loop than pop_front)")
        ok = b.dominates(popbi, pbi) and all(b.dominates(jb, pbi) for jb in join_blocks)
        chk.obligation(ok)
        if not ok:
            chk.finding(key + "|push-not-after-join", rule="R-ONCE", where="%s:%s" % (b.file, pushes[0][1]["line"]), fn=b.short(),
                        what="the delivery push is not dominated by pop_front and join")
        # success path: from the Continue arm of `result?` every path to the loop head passes through the push
        branch_calls = [(bi, t) for bi, t in b.calls() if (t["callee"].get("resolved") or "").endswith("as std::ops::Try>::branch") and any(b.dominates(jb, bi) for jb in join_blocks)]
        ok = False
        if branch_calls and lpop is not None:
            bbi, bt = branch_calls[0]
            nxt = bt.get("target")
            sw = b.blocks[nxt]["term"] if nxt is not None else None
            if sw is not None and sw["k"] == "switch":
                cont = [tg for v, tg in sw["targets"] if v == 0]
                if cont:
                    head = lpop[0]
                    reach_wo_push = b.reachable_from(cont[0], avoid={pbi})
                    ok = head not in reach_wo_push and not (reach_wo_push & set(b.exits))
        chk.obligation(ok)
        if not ok:
            chk.finding(key + "|success-path-skips-push", rule="R-ONCE", where="%s:%s" % (b.file, pushes[0][1]["line"]), fn=b.short(),
                        what="a successfully decoded image can reach the next iteration / return without being pushed (lost image)")
        # shadow removal happens before the push, and re-examines the index after a removal
        for rb_, rbi, rt, at in removes:
            ok = at not in b.reachable_from(pbi, avoid={lpop[0]} if lpop else set())
            chk.obligation(ok)
            if not ok:
                chk.finding(key + "|remove-after-push", rule="R-ONCE", where="%s:%s" % (b.file, rt["line"]), fn=b.short(),
                            what="shadow removal can run after the new image was pushed")
            reb = eb if rb_ is b else ExprBuilder(rb_)
            li = innermost_loop(rb_, rbi)
            idx = reb.operand(rt["args"][1]) if len(rt["args"]) > 1 else None
            idx = strip(idx) if idx else None
            while idx is not None and idx[0] == "cast":
                idx = idx[2]
            ok = False
            if li is not None and idx is not None and idx[0] == "var":
                il = idx[1]
                # blocks on paths remove -> inner loop head
                after = rb_.reachable_from(rt["target"], avoid={li[0]}) & li[1] if rt.get("target") is not None else set()
                writes = [(x, k) for x, k in rb_.defs.get(il, []) if x in after]
                ok = not writes
            chk.obligation(ok)
            if not ok:
                chk.finding(key + "|shadow-skip", rule="R-SHADOW", where="%s:%s" % (b.file, rt["line"]), fn=b.short(),
                            what="after vec.remove(i) the index is advanced before the element that moved into slot i was examined (every second shadowed image survives)")
    # `retain` removes the shadowed images in one order-preserving pass (no index to skip); it counts as the removal site
    retains = [(bi, t) for bi, t in b.calls() if (t["callee"].get("resolved") or "").endswith("Vec::<T, A>::retain") and t["args"] and is_list(eb.operand(t["args"][0]))]
    if len(pushes) == 1:
        for rbi, rt in retains:
            ok = rbi not in b.reachable_from(pushes[0][0], avoid={innermost_loop(b, pops[0][0])[0]} if (pops and innermost_loop(b, pops[0][0])) else set())
            chk.obligation(ok)
            if not ok:
                chk.finding(key + "|remove-after-push", rule="R-ONCE", where="%s:%s" % (b.file, rt["line"]), fn=b.short(),
                            what="shadow removal (retain) can run after the new image was pushed")
    chk.floor("R-ONCE", "shadow-removal sites", len(removes) + len(retains), 1)
    chk.sample("update_sixel_threads: %d front, %d is_finished, %d pop_front, %d join, %d push, %d remove" % (len(fronts), len(finished), len(pops), len(joins), len(pushes), len(removes)))
    arrival_order(chk, f, b)
    # ------------------------------------------------------------------ a decode that panics loses its image
    from rules import panic_common as P
    pf = f.method("sixel_mod::Sixel", "parse_from")
    reviewed = {}
    if chk.anchor(pf is not None, "R-PANIC", "anchor missing: Sixel::parse_from"):
        reviewed = P.run_scope(chk, "SIXEL", [pf.id], floor_roots=1, floor_bodies=8, floor_sinks=15, reviewed_file="reviewed_safe.json")
    chk.assumptions = chk.assumptions + ["std::collections::VecDeque, std::thread::JoinHandle behave as documented (is_finished does not block; join on a finished thread returns at once)",
                                         "the rectangle clause (width x height x 4 bytes) is not decided by this check"]
    return chk.finish("Queue discipline checked crate-wide (%d operations on sixel_threads: %s); branch / dominance structure of "
                      "Buffer::update_sixel_threads checked for non-blocking polling and exactly-once delivery; %d bodies reachable from the poll scanned for blocking calls."
                      " R-PANIC over the decode thread body (Sixel::parse_from): a panicking decode would lose its image."
                      % (len(ops), ", ".join(names), len(reach)), reviewed=reviewed)


# ===================================================================================================== R-ARRIVAL
ORDER_SAFE = {"push", "remove", "retain", "retain_mut", "pop", "clear", "truncate", "len", "is_empty", "iter", "iter_mut", "into_iter", "index", "index_mut",
              "get", "get_mut", "first", "last", "first_mut", "last_mut", "clone", "eq", "ne", "new", "deref", "deref_mut", "as_slice", "as_mut_slice",
              "capacity", "reserve", "with_capacity", "extend", "append", "fmt", "drop"}


def _alias_of_field(b, op, name, depth=0):
    """is the operand a local that holds (a reborrow of) a reference to a place ending in field `name`?"""
    pj = op.get("move") or op.get("copy")
    if pj is None or depth > 4:
        return False
    if any(el != "*" and el[0] == "f" and el[2] == name for el in (pj.get("p") or ())):
        return True
    ds = b.defs.get(pj["l"], [])
    if len(ds) != 1 or ds[0][1] == "term":
        return False
    s = b.blocks[ds[0][0]]["stmts"][ds[0][1]]
    rv = s["rv"]
    if rv["k"] == "ref":
        q = rv["p"]
        if any(el != "*" and el[0] == "f" and el[2] == name for el in (q.get("p") or ())):
            return True
        return _alias_of_field(b, {"copy": {"l": q["l"]}}, name, depth + 1) if all(el == "*" for el in (q.get("p") or ())) else False
    if rv["k"] == "use":
        return _alias_of_field(b, rv["a"], name, depth + 1)
    return False


def arrival_order(chk, f, poll):
    ops = []
    for b in f.bodies.values():
        if b.kind not in ("fn", "method", "closure"):
            continue
        eb = None
        for bi, t in b.calls():
            if not t["args"]:
                continue
            path0 = t["callee"].get("resolved") or t["callee"].get("path") or ""
            if "sixels" not in str(t["args"]) and not any("sixels" in str(s) for s in b.blocks[bi]["stmts"]) and "std::vec::Vec::<T" not in path0:
                continue
            eb = eb or ExprBuilder(b)
            if field_of(eb.operand(t["args"][0])) == "sixels" or _alias_of_field(b, t["args"][0], "sixels"):
                path = t["callee"].get("resolved") or t["callee"].get("path") or "?"
                ops.append((b, t, path.split("::")[-1], path))
    # a crate-local helper that is handed the list: what it does with that parameter are the operations (two levels deep)
    def follow(ops_in, depth=0):
        out = []
        for b_, t_, nm_, path_ in ops_in:
            hb = f.bodies.get(path_)
            if hb is None or hb.kind not in ("fn", "method") or depth > 2:
                out.append((b_, t_, nm_, path_))
                continue
            eb_ = ExprBuilder(b_)
            which = [ai for ai, a in enumerate(t_["args"]) if field_of(eb_.operand(a)) == "sixels" or _alias_of_field(b_, a, "sixels")
                     or (t_.get("_list_arg") == ai)]
            heb = ExprBuilder(hb)
            inner = []
            for hbi, ht in hb.calls():
                for ai2, a2 in enumerate(ht["args"][:1] if (ht["callee"].get("resolved") or "") not in f.bodies else ht["args"]):
                    x = strip(heb.operand(a2))
                    if x[0] == "var" and (x[1] - 1) in which and x[1] <= hb.argc:
                        hp = ht["callee"].get("resolved") or ht["callee"].get("path") or "?"
                        ht2 = dict(ht)
                        ht2["_list_arg"] = ai2
                        inner.append((hb, ht2, hp.split("::")[-1], hp))
            out += follow(inner, depth + 1) if inner else []
        return out
    ops = follow(ops)
    chk.floor("R-ARRIVAL", "operations on the image list", len(ops), 8)
    for b, t, nm, path in ops:
        ok = nm in ORDER_SAFE
        chk.obligation(ok)
        if not ok:
            chk.finding("%s|image-list-op|%s" % (b.short(), nm), rule="R-ARRIVAL", where="%s:%s" % (b.file, t.get("line")), fn=b.short(),
                        what="`%s` on the layer's image list does not keep the remaining images in arrival order (allowed: push, remove, retain, pop, clear, truncate and read-only access)" % path)
    # who may append: nothing reachable from a text parser
    from analysis import roots as R
    g = CG.CallGraph(f)
    reach = set(g.reachable([r for r in R.txt_roots(f) if r in f.bodies]))
    chk.floor("R-ARRIVAL", "bodies reachable from the text parsers", len(reach), 200)
    for b, t, nm, path in ops:
        if nm in ("push", "extend", "append", "insert") and b.id in reach:
            chk.obligation(False)
            chk.finding("%s|image-list-append" % b.short(), rule="R-ARRIVAL", where="%s:%s" % (b.file, t.get("line")), fn=b.short(),
                        what="code reachable from a text parser's print_char appends to the layer's image list directly: the image overtakes those still waiting in the decode queue")
        elif nm in ("push", "extend", "append", "insert"):
            chk.obligation(True)

"""C02 — no file content can crash a loader (R-PANIC over root set LOAD)."""
from analysis import facts as F
from analysis import roots as R
from rules import panic_common as P


def run(chk):
    f = F.load()
    direct, loaders = R.load_roots(f)
    chk.floor("R-PANIC", "loaders reached through dyn OutputFormat", len(loaders), 14)
    reviewed = P.run_scope(chk, "LOAD", direct + loaders, floor_roots=19, floor_bodies=300, floor_sinks=300, reviewed_file="reviewed_safe.json")
    return P.finish(chk, reviewed, "No undischarged panic origin is reachable from Buffer::from_bytes, the 14 format loaders, SAUCE/font/TDF/palette/clipboard decoders.")

"""C08 — undo restores the document, redo the edit (structural necessary conditions; history equality is not decided).

R-UNDO-SYM  : for each `impl UndoOperation`, the set of document locations (access paths below the `edit_state` parameter,
              computed by the parameter-relative effect analysis in analysis/effects.py, through callees and dyn calls)
              written by `undo` equals the set written by `redo`.  If redo can change a location that undo never writes, no
              history through that operation can be restored.  Editor-side state that the property does not list among what
              must be restored (selection, masks, current layer, caret, dirty flags) is excluded by a named list.
R-UNDO-SELF : a field of the operation record written by only one of undo/redo must be read by the other one
              (capture-then-consume, e.g. `self.from = layer.get_size()` in redo, used by undo); a field that one side
              overwrites and the other never looks at means the record no longer describes the edit after the first round
              trip (two snapshots swapped instead of cloned).
R-UNDO-ORDER: an operation that replays a list of sub-operations (calls UndoOperation::undo / redo on the elements of a
              collection inside a loop) walks the list backwards in undo and forwards in redo.
R-UNDO-GUARD: the lock / visibility flags (`properties.is_locked`, `is_visible`, `is_position_locked`,
              `is_alpha_channel_locked`) read by the guarded mutators of `Layer` reachable from `undo` are the same as those read
              by the ones reachable from `redo`: if only one direction goes through a setter that silently does nothing on a locked or
              hidden layer, the two are not inverse on such a layer (the property quantifies over hidden and locked layers).
R-PUSH      : push_plain_undo clears the redo stack on every path that pushes; begin_typed_atomic_undo clears it
              unconditionally; push_undo_action applies the operation (redo) before recording it; UndoState::undo / redo move
              the popped operation to the other stack on every path after calling it; Drop for AtomicUndoGuard reaches
              end_action."""
from analysis import facts as F
from analysis.cg import CallGraph
from analysis.effects import Effects
from analysis.report import load_table

EDITOR_SIDE = {"selection_opt", "selection_mask", "tool_overlay_mask", "current_layer", "caret", "is_palette_dirty", "is_buffer_dirty",
               "undo_stack", "redo_stack", "outline_style", "mirror_mode", "unicode_converter"}
BOOKKEEPING = {"is_font_table_dirty", "is_terminal_buffer", "overlay_layer", "overlay_layer_index", "sixel_threads"}
TRAIT = "UndoOperation"


def doc_paths(paths):
    out = set()
    for p in paths:
        if not p or p[0] in EDITOR_SIDE:
            continue
        if any(x in BOOKKEEPING for x in p):
            continue
        out.add(p)
    return out


def self_fields(b):
    """(read, written) top-level field names of `self` (param 1) touched directly in body b"""
    rd, wr = set(), set()

    def top(pj):
        proj = pj.get("p", [])
        if pj["l"] != 1 or not proj or proj[0] != "*":
            return None
        for el in proj[1:]:
            if el != "*" and el[0] == "f":
                return el[2]
            if el == "*":
                continue
            break
        return None
    for bi, k, s in b.stmts():
        if s["k"] != "assign":
            continue
        t = top(s["p"])
        if t is not None:
            # a store into a sub-place `self.a.b = ..` writes a
            wr.add(t)
        rv = s["rv"]
        ops = [rv.get("a"), rv.get("b")] + list(rv.get("ops", []))
        for o in ops:
            if isinstance(o, dict):
                pj = o.get("copy") or o.get("move")
                if pj is not None:
                    t2 = top(pj)
                    if t2 is not None:
                        rd.add(t2)
        if isinstance(rv.get("p"), dict):
            t2 = top(rv["p"])
            if t2 is not None:
                rd.add(t2)          # `&self.f` / `&mut self.f`: handed to a callee (counts as a read; writes come from the effect analysis)
    for bi, t in b.calls():
        for o in t["args"]:
            pj = o.get("copy") or o.get("move")
            if pj is not None:
                t2 = top(pj)
                if t2 is not None:
                    rd.add(t2)
    return rd, wr


def find_calls(b, pred):
    return [(bi, t) for bi, t in b.calls() if pred(t["callee"].get("resolved") or t["callee"].get("path") or "", t)]


def place_has_field(b, op, name):
    pj = op.get("copy") or op.get("move")
    if pj is None:
        return False
    seen = 0
    l = pj
    # follow single-def reference temps
    while seen < 24:
        seen += 1
        for el in l.get("p", []):
            if el != "*" and el[0] == "f" and el[2] == name:
                return True
        ds = b.defs.get(l["l"], [])
        if len(ds) != 1 or ds[0][1] == "term":
            if len(ds) == 1 and ds[0][1] == "term":
                t = b.blocks[ds[0][0]]["term"]
                if t["args"]:
                    pj2 = t["args"][0].get("copy") or t["args"][0].get("move")
                    if pj2 is not None:
                        l = pj2
                        continue
            return False
        s = b.blocks[ds[0][0]]["stmts"][ds[0][1]]
        rv = s["rv"]
        if rv["k"] in ("ref", "rawptr"):
            l = rv["p"]
            continue
        if rv["k"] in ("use", "cast"):
            pj2 = rv["a"].get("copy") or rv["a"].get("move")
            if pj2 is None:
                return False
            l = pj2
            continue
        return False
    return False


def run(chk):
    f = F.load()
    g = CallGraph(f)
    eff = Effects(f, g)
    chk.rules = ["R-UNDO-SYM", "R-UNDO-SELF", "R-UNDO-ORDER", "R-UNDO-GUARD", "R-EDIT-LOGGED", "R-UNDO-INDEX", "R-PUSH"]
    chk.assumptions = ["write sets are may-sets over access paths (field names; indices dropped): equality of the sets is a necessary condition of restorability, not a proof of it",
                       "editor-side state (selection, masks, current layer, caret, dirty flags) is outside the property's list of what must be restored"]
    reviewed = {}
    try:
        for e in load_table("reviewed_safe.json"):
            if "C08" in e.get("properties", []):
                reviewed[e["key"]] = (e.get("count", 1), e["reason"])
    except FileNotFoundError:
        pass
    impls = {}
    for bid, b in f.bodies.items():
        if b.kind == "method" and b.impl_trait and b.impl_trait.split("::")[-1] == TRAIT and b.name in ("undo", "redo"):
            impls.setdefault(b.impl_self_s, {})[b.name] = bid
    chk.floor("R-UNDO-SYM", "impl UndoOperation with undo and redo", sum(1 for d in impls.values() if len(d) == 2), 40)
    nwrites = 0
    for ty, d in sorted(impls.items()):
        if len(d) != 2:
            chk.anchor(False, "R-UNDO-SYM", "%s implements only %s" % (ty, list(d)))
            continue
        short = ty.split("::")[-1]
        ub, rb = f.bodies[d["undo"]], f.bodies[d["redo"]]
        # which parameter is the EditState?
        ep = None
        for i in range(1, ub.argc + 1):
            if "EditState" in ub.tys(i):
                ep = i
        if not chk.anchor(ep is not None, "R-UNDO-SYM", "%s::undo has no EditState parameter" % short):
            continue
        wu = doc_paths(eff.W[d["undo"]].get(ep, set()))
        wr = doc_paths(eff.W[d["redo"]].get(ep, set()))
        nwrites += len(wu) + len(wr)
        for p in sorted(wu ^ wr):
            side = "undo" if p in wu else "redo"
            other = "redo" if side == "undo" else "undo"
            chk.obligation(False)
            chk.finding("%s|asym|%s|%s-only" % (short, ".".join(p), side), rule="R-UNDO-SYM", where="%s:%s" % (ub.file, (ub if side == "undo" else rb).line), fn="%s::%s" % (short, side),
                        what="%s::%s may write edit_state.%s but %s::%s never does: the two directions do not touch the same part of the document" % (short, side, ".".join(p), short, other))
        chk.obligation(True) if wu == wr else None
        # record fields
        su = {p[0] for p in eff.W[d["undo"]].get(1, set()) if p}
        sr = {p[0] for p in eff.W[d["redo"]].get(1, set()) if p}
        ru, _ = self_fields(ub)
        rr, _ = self_fields(rb)
        for fld in sorted(su ^ sr):
            side = "undo" if fld in su else "redo"
            other_reads = rr if side == "undo" else ru
            ok = fld in other_reads
            chk.obligation(ok)
            if not ok:
                chk.finding("%s|self|%s|%s-only" % (short, fld, side), rule="R-UNDO-SELF", where="%s:%s" % (ub.file, (ub if side == "undo" else rb).line), fn="%s::%s" % (short, side),
                            what="%s::%s overwrites the record field `%s`, which %s neither writes nor reads: after one undo/redo round trip the record no longer describes the edit" % (
                                short, side, fld, "redo" if side == "undo" else "undo"))
        if su == sr:
            chk.obligation(True)
    chk.floor("R-UNDO-SYM", "document write paths compared", nwrites, 60)
    undo_order(chk, f, impls)
    undo_guard(chk, f, g, eff, impls)
    edit_logged(chk, f, g, eff, reviewed)
    undo_index(chk, f, impls)
    # ------------------------------------------------------------------ R-PUSH
    es = "editor::EditState"

    def method(name, trait=None):
        for bid, b in f.bodies.items():
            if b.name == name and b.impl_self_s == es and ((trait is None and not b.impl_trait) or (trait is not None and (b.impl_trait or "").endswith(trait))):
                return b
        return None
    pp = method("push_plain_undo")
    if chk.anchor(pp is not None, "R-PUSH", "anchor missing: EditState::push_plain_undo"):
        clears = find_calls(pp, lambda p, t: p.endswith("Vec::<T, A>::clear") and place_has_field(pp, t["args"][0], "redo_stack"))
        pushes = find_calls(pp, lambda p, t: p.endswith("Vec::<T, A>::push"))
        if chk.anchor(len(clears) >= 1 and len(pushes) >= 1, "R-PUSH", "push_plain_undo: redo_stack.clear() / stack.push(op) calls (%d/%d)" % (len(clears), len(pushes))):
            for pb, pt in pushes:
                ok = any(pp.dominates(cb, pb) or pp.postdominates(cb, pb) for cb, _ in clears)
                chk.obligation(ok)
                if not ok:
                    chk.finding("push_plain_undo|clear-not-on-every-push-path", rule="R-PUSH", where="%s:%s" % (pp.file, pt["line"]), fn="push_plain_undo",
                                what="an operation can be pushed on the undo stack on a path that does not clear the redo stack: a new edit after an undo would keep the abandoned redo history")
    bt = method("begin_typed_atomic_undo")
    if chk.anchor(bt is not None, "R-PUSH", "anchor missing: EditState::begin_typed_atomic_undo"):
        clears = find_calls(bt, lambda p, t: p.endswith("Vec::<T, A>::clear") and place_has_field(bt, t["args"][0], "redo_stack"))
        ok = any(bt.postdominates(cb, 0) for cb, _ in clears)
        chk.obligation(ok)
        if not ok:
            chk.finding("begin_typed_atomic_undo|clear-missing", rule="R-PUSH", where="%s:%s" % (bt.file, bt.line), fn="begin_typed_atomic_undo",
                        what="opening an atomic undo group does not clear the redo stack on every path")
    pa = method("push_undo_action")
    if chk.anchor(pa is not None, "R-PUSH", "anchor missing: EditState::push_undo_action"):
        redos = find_calls(pa, lambda p, t: p.endswith("UndoOperation::redo") or p.endswith("::redo"))
        plain = find_calls(pa, lambda p, t: p.endswith("push_plain_undo"))
        ok = bool(redos) and bool(plain) and all(any(pa.dominates(rb_, pb) for rb_, _ in redos) for pb, _ in plain)
        chk.obligation(ok)
        if not ok:
            chk.finding("push_undo_action|record-before-apply", rule="R-PUSH", where="%s:%s" % (pa.file, pa.line), fn="push_undo_action",
                        what="push_undo_action must apply the operation (op.redo) before recording it with push_plain_undo")
    for name, opname, dest in (("undo", "undo", "redo_stack"), ("redo", "redo", "undo_stack")):
        ub = method(name, "UndoState")
        if not chk.anchor(ub is not None, "R-PUSH", "anchor missing: <EditState as UndoState>::%s" % name):
            continue
        ops = find_calls(ub, lambda p, t: p.endswith("UndoOperation::" + opname))
        pushes = find_calls(ub, lambda p, t: p.endswith("Vec::<T, A>::push") and place_has_field(ub, t["args"][0], dest))
        if not chk.anchor(len(ops) == 1 and len(pushes) >= 1, "R-PUSH", "UndoState::%s: op.%s() call and %s.push (%d/%d)" % (name, opname, dest, len(ops), len(pushes))):
            continue
        ob = ops[0][0]
        ok = any(ub.postdominates(pb, ob) for pb, _ in pushes)
        chk.obligation(ok)
        if not ok:
            chk.finding("UndoState::%s|op-not-moved" % name, rule="R-PUSH", where="%s:%s" % (ub.file, ops[0][1]["line"]), fn="UndoState::%s" % name,
                        what="after op.%s() the operation is not pushed on %s on every path (e.g. when the operation returns an error): it is lost from the history" % (opname, dest))
    dg = None
    for bid, b in f.bodies.items():
        if b.name == "drop" and (b.impl_self_s or "").endswith("AtomicUndoGuard"):
            dg = b
    if chk.anchor(dg is not None, "R-PUSH", "anchor missing: Drop for AtomicUndoGuard"):
        reach = g.reachable([dg.id])
        ok = any(x.endswith("AtomicUndoGuard::end_action") for x in reach)
        chk.obligation(ok)
        if not ok:
            chk.finding("AtomicUndoGuard::drop|no-end-action", rule="R-PUSH", where="%s:%s" % (dg.file, dg.line), fn="AtomicUndoGuard::drop",
                        what="dropping the guard no longer reaches end_action: the group is never closed")
    chk.cov["effect_analysis_rounds"] = eff.rounds
    return chk.finish("%d undo operations: document write sets of undo and redo compared path by path, record fields checked for "
                      "capture-then-consume; push / clear / move discipline of the two stacks checked by dominance." % len(impls), reviewed=reviewed)


# ===================================================================================================== R-UNDO-ORDER
def _replay_loops(b, which):
    """[(direction, line)] for every loop of b that calls UndoOperation::<which> on something: direction is 'rev' when the
    loop's iterator is a std::iter::Rev, else 'fwd'"""
    out = []
    heads = b.loop_heads()
    for h in sorted(heads):
        loop = b.natural_loop(h)
        calls_in = [(bi, t) for bi, t in b.calls() if bi in loop]
        replay = [t for bi, t in calls_in if (t["callee"].get("path") or "").endswith("%s::%s" % (TRAIT, which))]
        if not replay:
            continue
        nexts = [(t["callee"].get("resolved") or t["callee"].get("path") or "") for bi, t in calls_in]
        nexts = [p for p in nexts if p.endswith("::next")]
        if not nexts:
            out.append(("?", replay[0].get("line")))
            continue
        out.append(("rev" if any("std::iter::Rev<" in p for p in nexts) else "fwd", replay[0].get("line")))
    return out


def undo_order(chk, f, impls):
    n = 0
    for ty, d in sorted(impls.items()):
        if len(d) != 2:
            continue
        short = ty.split("::")[-1]
        ub, rb = f.bodies[d["undo"]], f.bodies[d["redo"]]
        lu, lr = _replay_loops(ub, "undo"), _replay_loops(rb, "redo")
        if not lu and not lr:
            continue
        n += 1
        # decided only for iterator loops ('?' = an index loop or the like: direction not visible to this rule, no alarm)
        ok = not any(x[0] == "fwd" for x in lu) and not any(x[0] == "rev" for x in lr)
        chk.obligation(ok)
        if not ok:
            chk.finding("%s|order|undo=%s|redo=%s" % (short, ",".join(x[0] for x in lu) or "-", ",".join(x[0] for x in lr) or "-"), rule="R-UNDO-ORDER",
                        where="%s:%s" % (ub.file, (lr or lu)[0][1]), fn=short,
                        what="%s replays its sub-operations %s in undo and %s in redo: a group must be undone last-to-first and redone first-to-last" % (
                            short, "/".join(x[0] for x in lu) or "not at all", "/".join(x[0] for x in lr) or "not at all"))
    chk.floor("R-UNDO-ORDER", "composite operations (replay loops)", n, 1)


# ===================================================================================================== R-UNDO-GUARD
GUARD_FLAGS = {"is_locked", "is_visible", "is_position_locked", "is_alpha_channel_locked"}


def _guard_flags_read(b):
    """the lock / visibility flags of layer::Properties the body reads"""
    out = set()

    def has(pj):
        for el in (pj.get("p") or ()):
            if el != "*" and el[0] == "f" and el[2] in GUARD_FLAGS and "Properties" in str(el[3]):
                out.add(el[2])
    for bi, k, s in b.stmts():
        if s["k"] != "assign":
            continue
        rv = s["rv"]
        for key in ("a", "b"):
            o = rv.get(key)
            if isinstance(o, dict):
                pj = o.get("copy") or o.get("move")
                if pj is not None:
                    has(pj)
        if rv["k"] in ("ref", "discr", "len") and isinstance(rv.get("p"), dict):
            has(rv["p"])
    for bi, blk in enumerate(b.blocks):
        t = blk["term"]
        if t["k"] == "switch":
            pj = t["discr"].get("copy") or t["discr"].get("move")
            if pj is not None:
                has(pj)
    return out


def undo_guard(chk, f, g, eff, impls):
    guarded = {}
    for bid, b in f.bodies.items():
        if b.kind != "method" or b.impl_trait or not (b.impl_self_s or "").endswith("layer::Layer"):
            continue
        if b.argc < 1 or not b.tys(1).startswith("&mut "):
            continue
        fl = _guard_flags_read(b)
        if fl and eff.W.get(bid, {}).get(1):
            guarded[bid] = fl
    chk.floor("R-UNDO-GUARD", "guarded Layer mutators", len(guarded), 4)
    n = 0
    for ty, d in sorted(impls.items()):
        if len(d) != 2:
            continue
        short = ty.split("::")[-1]
        gu = set(g.reachable([d["undo"]])) & set(guarded)
        gr = set(g.reachable([d["redo"]])) & set(guarded)
        fu = set().union(*[guarded[x] for x in gu]) if gu else set()
        fr = set().union(*[guarded[x] for x in gr]) if gr else set()
        n += 1
        # what matters is under which flags a direction silently does nothing, not through which setter
        ok = fu == fr
        chk.obligation(ok)
        if not ok:
            ub = f.bodies[d["undo"]]
            for fl in sorted(fu ^ fr):
                side = "undo" if fl in fu else "redo"
                via = sorted(f.bodies[x].name for x in (gu if side == "undo" else gr) if fl in guarded[x])
                chk.finding("%s|guard|%s|%s-only" % (short, fl, side), rule="R-UNDO-GUARD", where="%s:%s" % (ub.file, f.bodies[d[side]].line), fn="%s::%s" % (short, side),
                            what="%s::%s goes through Layer::%s, which does nothing depending on properties.%s, and %s::%s has no such dependence: on such a layer the two directions are not inverse" % (
                                short, side, "/".join(via), fl, short, "redo" if side == "undo" else "undo"))
    chk.floor("R-UNDO-GUARD", "operations compared", n, 40)


# ===================================================================================================== R-EDIT-LOGGED
LOG_CALLS = ("EditState::push_plain_undo", "EditState::push_undo_action")
ES = "editor::EditState"
# layer fields that are transient editor state, not part of the document the property lists
TRANSIENT = {"preview_offset"}


def _write_sites(b, eff, T):
    """[(block, 'stmt'|'call', line, param, path, callee path)] - the places of body b that (may) write through a reference
    parameter: own stores and calls handing a `&mut` derived from a parameter to something that writes through it"""
    from analysis.effects import PURE_STD
    from analysis.interproc import is_mut_ref
    out = []
    for bi, k, s in b.stmts():
        if s["k"] not in ("assign", "setdiscr"):
            continue
        pj = s["p"]
        if "*" not in pj.get("p", []):
            continue
        pp = eff._place_path(b, pj)
        if pp is None:
            continue
        out.append((bi, "stmt", s.get("line"), pp[0], pp[1], None))
    for bi, t in b.calls():
        c = t["callee"]
        path = c.get("resolved") or c.get("path") or ""
        nm = path.split("::")[-1]
        cands = [x for x in eff.ip.callee_ids(b, t) if x in eff.W]
        for ai, a in enumerate(t["args"]):
            pj = a.get("copy") or a.get("move")
            if pj is None:
                continue
            aty = eff.ip.an_place_type(b, pj)
            if aty is None or not is_mut_ref(T[aty]):
                continue
            rp = eff._ref_path(b, a)
            if rp is None:
                continue
            if cands:
                for cid in cands:
                    for p in eff.W[cid].get(ai + 1, ()):
                        out.append((bi, "call", t["line"], rp[0], (rp[1] + p)[:6], path))
            elif nm not in PURE_STD:
                out.append((bi, "call", t["line"], rp[0], rp[1], path))
    return out


def edit_logged(chk, f, g, eff, reviewed):
    """R-EDIT-LOGGED: in every public method of EditState, a place that changes the document directly (a store, a std mutator, a
    mutator of Buffer / Layer or a non-public helper applied to something reached from `self` - not a call of another public
    EditState method, which is checked on its own, and not the replay of an UndoOperation) is followed, on every path to a return
    that does not come from a `?` / an explicit `Err(..)`, by a *recording call*: push_plain_undo, push_undo_action, or an
    EditState method that itself reaches one of them on every such path.  An edit that reports success and is not recorded cannot
    be undone."""
    T = f.types
    es_ids = {bid for bid, b in f.bodies.items() if b.impl_self_s == ES and b.kind == "method"}
    info = {}
    for bid in es_ids:
        b = f.bodies[bid]
        errs, rets, calls = set(), set(), {}
        for bi, blk in enumerate(b.blocks):
            t = blk["term"]
            if t["k"] == "call":
                p = t["callee"].get("resolved") or t["callee"].get("path") or ""
                if p.endswith("::from_residual"):
                    errs.add(bi)
                calls[bi] = (p, set(eff.ip.callee_ids(b, t)))
            elif t["k"] == "return":
                rets.add(bi)
            for s in blk["stmts"]:
                if s["k"] == "assign" and s["p"]["l"] == 0 and not s["p"].get("p") and s["rv"]["k"] == "agg" and s["rv"].get("variant") == "Err":
                    errs.add(bi)
        info[bid] = (errs, rets, calls)
    # recording methods: least fix-point from the two primitives
    must_log = {bid for bid in es_ids if f.bodies[bid].name in ("push_plain_undo", "push_undo_action") and not f.bodies[bid].impl_trait}
    chk.anchor(len(must_log) == 2, "R-EDIT-LOGGED", "anchors: EditState::push_plain_undo and EditState::push_undo_action (%d)" % len(must_log))

    def log_blocks(bid):
        return {bi for bi, (p, cids) in info[bid][2].items() if cids and cids <= must_log}
    changed = True
    while changed:
        changed = False
        for bid in sorted(es_ids - must_log):
            b = f.bodies[bid]
            errs, rets, _ = info[bid]
            lb = log_blocks(bid)
            if not lb:
                continue
            if not (b.reachable_from(0, avoid=lb | errs) & rets):
                must_log.add(bid)
                changed = True
    nmeth = nsites = nlog = 0
    for bid in sorted(es_ids):
        b = f.bodies[bid]
        if b.impl_trait or b.name in ("push_plain_undo", "push_undo_action") or b.vis != "pub":
            continue
        if b.argc < 1 or not b.tys(1).startswith("&mut "):
            continue
        errs, rets, calls = info[bid]
        logs = log_blocks(bid)
        nlog += len(logs)
        seen = set()
        direct = []
        for bi, kind, line, par, path, callee in _write_sites(b, eff, T):
            if par != 1 or not doc_paths({path}) or any(x in TRANSIENT for x in path):
                continue
            if callee is not None:
                if bi in logs or callee.endswith((TRAIT + "::undo", TRAIT + "::redo")):
                    continue
                cids = calls.get(bi, ("", set()))[1]
                if cids and all(x in es_ids and f.bodies[x].vis == "pub" and not f.bodies[x].impl_trait for x in cids):
                    continue        # another public EditState method: checked where it stands
            if (bi, callee) in seen:
                continue
            seen.add((bi, callee))
            direct.append((bi, kind, line, path, callee))
        if not direct:
            continue
        nmeth += 1
        for bi, kind, line, path, callee in direct:
            nsites += 1
            if kind == "stmt" and bi in logs:
                chk.obligation(True)
                continue
            starts = b.succ[bi] if kind == "call" else [bi]
            reach = set()
            for s0 in starts:
                reach |= b.reachable_from(s0, avoid=logs | errs)
            ok = not (reach & rets)
            chk.obligation(ok)
            if not ok:
                op = (callee or "store").split("::")[-1]
                chk.finding("%s|unlogged|%s" % (b.name, op), rule="R-EDIT-LOGGED", where="%s:%s" % (b.file, line), fn="EditState::%s" % b.name,
                            what="EditState::%s changes the document directly (%s on self.%s) and can then return without an error and without push_plain_undo / "
                                 "push_undo_action: the edit reports success but is not in the undo history" % (b.name, op, ".".join(path)))
    chk.cov["recording_methods"] = sorted(f.bodies[x].name for x in must_log)
    chk.floor("R-EDIT-LOGGED", "EditState methods that edit the document directly", nmeth, 10)
    chk.floor("R-EDIT-LOGGED", "direct edit sites", nsites, 25)
    chk.floor("R-EDIT-LOGGED", "recording calls in those methods", nlog, 10)


# ===================================================================================================== R-UNDO-INDEX
FILTERING = ("Iterator::flatten", "Iterator::filter", "Iterator::filter_map", "Iterator::skip_while", "Iterator::take_while", "Iterator::skip",
             "Iterator::step_by", "Iterator::flat_map")


def undo_index(chk, f, impls):
    """R-UNDO-INDEX: the operation records keep one entry per row / element of the document (`Vec<Option<..>>`, filled by one
    push per row in redo); undo and redo recover the row from the entry's position.  `enumerate()` applied *after* an adaptor that
    drops entries (flatten, filter, filter_map, skip, ...) counts the kept entries instead, so every row behind the first dropped
    entry is restored into the wrong place.  Expected count on a correct tree: zero; the rule is exercised on every thorough run by
    the replay of seeds C08/11 and C08/14."""
    n = 0
    for ty, d in sorted(impls.items()):
        for which in ("undo", "redo"):
            if which not in d:
                continue
            b = f.bodies[d[which]]
            eb = None
            for bi, t in b.calls():
                p = t["callee"].get("resolved") or t["callee"].get("path") or ""
                if not p.endswith("Iterator::enumerate"):
                    continue
                n += 1
                from analysis.expr import ExprBuilder, show
                eb = eb or ExprBuilder(b)
                txt = show(eb.operand(t["args"][0]))
                e = eb.operand(t["args"][0])
                bad = None

                def walk(x, depth=0):
                    nonlocal bad
                    if depth > 12 or not isinstance(x, tuple):
                        return
                    if x and x[0] == "call" and isinstance(x[1], str) and x[1].endswith(FILTERING):
                        bad = x[1].split("::")[-1]
                    for y in x[1:]:
                        if isinstance(y, tuple):
                            walk(y, depth + 1)
                        elif isinstance(y, list):
                            for z in y:
                                walk(z, depth + 1)
                walk(e)
                chk.obligation(bad is None)
                if bad is not None:
                    short = ty.split("::")[-1]
                    chk.finding("%s::%s|enumerate-after-%s" % (short, which, bad), rule="R-UNDO-INDEX", where="%s:%s" % (b.file, t["line"]), fn="%s::%s" % (short, which),
                                what="%s::%s numbers the entries of its record after `%s()` has dropped some of them (`%s`): the number is no longer the row "
                                     "the entry was taken from" % (short, which, bad, txt[:80]))
    chk.cov["undo_enumerate_sites"] = n

"""C10 — stored text is always valid Unicode.

R-UNCHECKED (who-may-call, whole crate): no call to an unchecked `char` / `str` / `String` constructor, and no
transmute into a text type, unless the argument's interval (abstract interpretation) lies inside the scalar-value
range.  With those excluded every `char` and `String` is built by safe code and validity follows from the type
system (trusted base: rustc + std)."""
import re

from analysis import facts as F
from analysis.expr import ExprBuilder, show
from rules import panic_common as P

LEVEL = "proof"
UNCHECKED = re.compile(r"(char::methods::<impl char>::from_u32_unchecked|char::convert::from_u32_unchecked|"
                       r"(str|string)::.*from_utf8_unchecked(_mut)?|String::from_raw_parts|str::<impl str>::as_bytes_mut|"
                       r"String::as_mut_vec|string::String::as_mut_vec|str::from_raw_parts|"
                       r"char::methods::<impl char>::from_digit_unchecked|slice::from_raw_parts(_mut)?$)")
TEXT_TY = re.compile(r"\bchar\b|\bstr\b|String")


def scalar_ok(iv):
    if iv is None or iv[0] is None or iv[1] is None:
        return False
    lo, hi = iv
    return (0 <= lo and hi <= 0xD7FF) or (0xE000 <= lo and hi <= 0x10FFFF)


def run(chk):
    f = F.load()
    g, ip = P.shared(f)
    chk.rules = ["R-UNCHECKED"]
    chk.trusted_base = ["rustc type checker / borrow checker (safe code cannot build an invalid char or str)", "std's checked constructors",
                        "mirfacts serialiser", "interval domain of analysis/absint.py for the argument-range exemption"]
    chk.assumptions = ["all non-test bodies of the crate under default features are analysed (cfg(test) code is not compiled by `cargo check --lib`)",
                       "dependencies are not analysed"]
    ip.watch = lambda path: bool(UNCHECKED.search(path))
    bodies = [b for b in f.bodies.values() if b.kind in ("fn", "method", "closure")]
    n_calls = 0
    n_bodies = 0
    sites = 0
    for b in bodies:
        n_bodies += 1
        hits = []
        for bi, t in b.calls():
            path = t["callee"].get("resolved") or t["callee"].get("path") or ""
            n_calls += 1
            if UNCHECKED.search(path) and not (t.get("exp") and any("format_args" in m or "derive" in m for m in t["exp"])):
                if "slice::from_raw_parts" in path:
                    continue
                hits.append((bi, t, path))
        # transmutes into text types
        for bi, k, s in b.stmts():
            if s["k"] == "assign" and s["rv"]["k"] == "cast" and s["rv"]["ck"] == "transmute":
                to = f.types[s["rv"]["ty"]]["s"]
                if TEXT_TY.search(to) and not s.get("exp"):
                    sites += 1
                    chk.obligation(False)
                    chk.finding("%s|transmute|%s" % (b.short(), to), rule="R-UNCHECKED", where="%s:%s" % (b.file, s["line"]), fn=b.short(),
                                what="transmute into a text type `%s`" % to)
        if not hits:
            continue
        # (re-)analyse with the watch predicate so that argument intervals are recorded
        ip.sum.pop(b.id, None)
        ip.results.pop(b.id, None)
        ip.summary(b.id)
        res = ip.results[b.id]
        eb = ExprBuilder(b)
        for bi, t, path in hits:
            sites += 1
            args = res.call_states.get(bi)
            nm = path.split("::")[-1]
            desc = show(eb.call_expr(t))[:140]
            key = "%s|%s|%s" % (b.short(), nm, desc)
            if nm.startswith("from_u32_unchecked") and args:
                iv = args[0][2]
                ok = scalar_ok(iv)
                chk.obligation(ok)
                if ok:
                    chk.sample("%s:%s %s — argument in [%#x, %#x]: always a scalar value" % (b.file, t["line"], desc, iv[0], iv[1]))
                    continue
                chk.finding(key, rule="R-UNCHECKED", where="%s:%s" % (b.file, t["line"]), fn=b.short(),
                            what="char::from_u32_unchecked on a value with interval %s (not within the scalar-value range)" % (iv,))
            else:
                chk.obligation(False)
                chk.finding(key, rule="R-UNCHECKED", where="%s:%s" % (b.file, t["line"]), fn=b.short(),
                            what="unchecked text constructor `%s` (no validity argument available to the analysis)" % nm)
    ip.watch = None
    chk.floor("R-UNCHECKED", "bodies scanned", n_bodies, 1800)
    chk.floor("R-UNCHECKED", "call terminators scanned", n_calls, 12000)
    # positive control: the matcher must recognise the std paths (non-vacuity of a zero-expected rule)
    ctrl = ["std::char::methods::<impl char>::from_u32_unchecked", "std::string::String::from_utf8_unchecked", "core::str::from_utf8_unchecked"]
    chk.anchor(all(UNCHECKED.search(c) for c in ctrl) and not UNCHECKED.search("std::char::methods::<impl char>::from_u32"),
               "R-UNCHECKED", "positive control: matcher recognises the unchecked constructors and not the checked one")
    chk.cov["unchecked_sites_found"] = sites
    chk.cov["bodies_scanned"] = n_bodies
    chk.cov["calls_scanned"] = n_calls
    chk.cov["exhaustive"] = True
    return chk.finish("Every call terminator and transmute of all %d non-test bodies scanned for unchecked text constructors; "
                      "%d sites found, each decided by the interval of its argument." % (n_bodies, sites))

"""C19 — table-driven CRCs equal their bitwise definitions.

R-CRC-TABLE  every entry of the compiled CRC tables equals its defining recurrence (exhaustive over the
             source data: 256 + 16*256 = 4352 obligations).
R-CRC-SHAPE  each routine, reconstructed from MIR and normalised over GF(2) (xor / shift / mask / cast /
             uninterpreted table lookup), is the canonical table method; the loop skeletons (initial value,
             guard, window advance, tail call, iteration order) are checked structurally.
Nothing is executed: tables are data the source states literally (read from the compiler's constant
allocation), routines are compared as symbolic normal forms.
"""
LEVEL = "proof"
from analysis import facts as F
from analysis.expr import ExprBuilder, show
from analysis import gf2

T16 = "crc::CRC16_CCITT_TABLE"
T32 = "crc::CRC32_TABLE"
SLICE_NEXT = "<std::slice::Iter<'a, T> as std::iter::Iterator>::next"
SLICE_INTO_ITER = "core::slice::iter::<impl std::iter::IntoIterator for &'a [T]>::into_iter"


def crc16_entry(i):
    r = i << 8
    for _ in range(8):
        r = ((r << 1) ^ 0x1021) & 0xFFFF if r & 0x8000 else (r << 1) & 0xFFFF
    return r


def crc32_entry(i):
    r = i
    for _ in range(8):
        r = (r >> 1) ^ 0xEDB88320 if r & 1 else r >> 1
    return r


def defs_of(b, eb, name):
    """[(block, expr)] for every definition of the user variable `name`"""
    out = []
    for l, ds in b.defs.items():
        if b.lname(l) == name:
            for bi, k in ds:
                e = eb.call_expr(b.blocks[bi]["term"]) if k == "term" else eb.rvalue(b.blocks[bi]["stmts"][k]["rv"])
                out.append((bi, e))
    return out


def ret_exprs(b, eb):
    out = []
    for bi, k in b.defs.get(0, []):
        e = eb.call_expr(b.blocks[bi]["term"]) if k == "term" else eb.rvalue(b.blocks[bi]["stmts"][k]["rv"])
        out.append(e)
    return out


def run(chk):
    f = F.load()
    chk.rules = ["R-CRC-TABLE", "R-CRC-SHAPE"]
    chk.assumptions = [
        "the textbook derivation of the table / slicing-by-16 method from the bitwise definition (given correct tables and the canonical routine shapes, the routines equal the bitwise CRC)",
        "rustc's constant evaluation of the table literals",
    ]
    # ---------------- R-CRC-TABLE
    t16 = f.const_table(T16)
    t32 = f.const_table(T32)
    if not chk.anchor(isinstance(t16, list) and len(t16) == 256, "R-CRC-TABLE", "anchor missing: %s [u16;256]" % T16):
        t16 = None
    if not chk.anchor(isinstance(t32, list) and len(t32) == 16 and all(len(r) == 256 for r in t32), "R-CRC-TABLE",
                      "anchor missing: %s [[u32;256];16]" % T32):
        t32 = None
    nent = 0
    if t16:
        for i in range(256):
            ok = t16[i] == crc16_entry(i)
            chk.obligation(ok)
            nent += 1
            if not ok:
                chk.finding("crc::CRC16_CCITT_TABLE|entry|%d" % i, rule="R-CRC-TABLE", where="src/crc.rs",
                            what="CRC16_CCITT_TABLE[%d] = %#06x, recurrence (poly 0x1021 MSB-first) gives %#06x" % (i, t16[i], crc16_entry(i)))
        chk.sample("CRC16_CCITT_TABLE[1] = %#06x == rem(1<<8, 0x1021)" % t16[1])
    if t32:
        for i in range(256):
            ok = t32[0][i] == crc32_entry(i)
            chk.obligation(ok)
            nent += 1
            if not ok:
                chk.finding("crc::CRC32_TABLE|entry|0|%d" % i, rule="R-CRC-TABLE", where="src/crc.rs",
                            what="CRC32_TABLE[0][%d] = %#010x, recurrence (poly 0xEDB88320 LSB-first) gives %#010x" % (i, t32[0][i], crc32_entry(i)))
        for k in range(1, 16):
            for i in range(256):
                p = t32[k - 1][i]
                exp = (p >> 8) ^ crc32_entry(p & 0xFF)
                ok = t32[k][i] == exp
                chk.obligation(ok)
                nent += 1
                if not ok:
                    chk.finding("crc::CRC32_TABLE|entry|%d|%d" % (k, i), rule="R-CRC-TABLE", where="src/crc.rs",
                                what="CRC32_TABLE[%d][%d] = %#010x, slicing recurrence gives %#010x" % (k, i, t32[k][i], exp))
        chk.sample("CRC32_TABLE[7][13] = %#010x == (T[6][13]>>8) ^ T0[T[6][13]&0xFF]" % t32[7][13])
    chk.floor("R-CRC-TABLE", "table entries compared", nent, 4352)

    # ---------------- R-CRC-SHAPE
    tables = {T16: (None, 16), T32: (16, 32)}

    def body(name):
        b = f.bodies.get(name)
        chk.anchor(b is not None, "R-CRC-SHAPE", "anchor missing: fn %s" % name)
        return b

    def widths(b, extra_locals=(), acc_name="crc"):
        """free variables of a routine's expressions may only be its parameters (or the named loop accumulators):
        a shadowing local (`let crc = if crc == 0 {..}`) is a different value and is rejected.
        Variables get canonical names by role, not by their source names: the byte parameter is `b`, the wider integer
        parameter `crc`, a loop accumulator `acc_name`."""
        def vw(e):
            if not (1 <= e[1] <= b.argc or e[1] in extra_locals):
                return None
            ty = b.ty(e[1])
            w = gf2.WIDTH.get(ty.get("n", ""))
            if ty["k"] == "int" and w:
                if e[1] in extra_locals:
                    return (acc_name, w)
                return ("b" if w == 8 else "crc", w)
            return None
        return vw

    def roles(b, loop=None):
        """source names by role: (accumulator local, its name, slice parameter name, integer parameter name, shadowing slice local)"""
        heads = b.loop_heads()
        if loop is None:
            loop = b.natural_loop(next(iter(heads))) if len(heads) == 1 else set()
        accs, sls = [], []
        for l in range(b.argc + 1, len(b.locals)):
            if not b.lname(l) or b.lname(l) == "iter":
                continue
            ds = b.defs.get(l, [])
            if any(bi in loop for bi, _ in ds) and any(bi not in loop for bi, _ in ds):
                if b.ty(l)["k"] == "int":
                    accs.append(l)
                elif b.tys(l) == "&[u8]":
                    sls.append(l)
        slice_p = [b.lname(i) for i in range(1, b.argc + 1) if b.tys(i) == "&[u8]"]
        int_p = [b.lname(i) for i in range(1, b.argc + 1) if b.ty(i)["k"] == "int"]
        return (accs[0] if len(accs) == 1 else None, b.lname(accs[0]) if len(accs) == 1 else "?", slice_p[0] if len(slice_p) == 1 else "?",
                int_p[0] if len(int_p) == 1 else "?", sls)

    def elem_input(iter_names):
        def inp(e):
            # *(<slice::Iter as Iterator>::next(&iter) as Some).0
            x = e
            if x[0] == "deref":
                x = x[1]
            if x[0] == "field" and x[2] == "0" and x[1][0] == "downcast" and x[1][2] == "Some":
                c = x[1][1]
                if c[0] == "call" and c[1] == SLICE_NEXT and c[2] and c[2][0][0] == "ref" and c[2][0][1][0] == "var" \
                        and c[2][0][1][2] in iter_names:
                    return ("elem", 8)
            return None
        return inp

    def mismatch(fn, what, got=None):
        chk.finding("crc::%s|shape|%s" % (fn, what), rule="R-CRC-SHAPE", where="src/crc.rs", fn="crc::" + fn,
                    what="routine is not the canonical table method: %s" % what, got=got)

    def check_nf(fn, label, e, expected, nz):
        got = nz.nf(e, len(expected))
        ok = got is not None and got == expected
        chk.obligation(ok)
        if not ok:
            mismatch(fn, label, got=("unrecognised: %s" % nz.fail) if got is None else show(e)[:400])
        return ok

    # update_crc16(crc, b) = (crc << 8) ^ T16[((crc >> 8) as u8) ^ b]
    b = body("crc::update_crc16")
    if b:
        eb = ExprBuilder(b)
        rets = ret_exprs(b, eb)
        crc = gf2.var_bits("crc", 16)
        bb = gf2.var_bits("b", 8)
        idx = gf2.resize(gf2.xor(gf2.resize(gf2.shr(crc, 8), 8), bb), 64)
        exp = gf2.xor(gf2.shl(crc, 8), gf2.lookup(T16, None, idx, 16))
        chk.anchor(len(rets) == 1 and not b.back_edges, "R-CRC-SHAPE", "update_crc16: single straight-line return value")
        if rets:
            if check_nf("update_crc16", "value", rets[0], exp, gf2.Normalizer(widths(b), tables)):
                chk.sample("update_crc16 = " + show(rets[0]))
    # update_crc32(crc, b) = (crc >> 8) ^ T32[0][b ^ crc as u8]
    b = body("crc::update_crc32")
    crc32v = gf2.var_bits("crc", 32)
    upd32_ok = [False]

    def upd32(bytebits):
        idx = gf2.resize(gf2.xor(gf2.resize(crc32v, 8), bytebits), 64)
        return gf2.xor(gf2.shr(crc32v, 8), gf2.lookup(T32, 0, idx, 32))
    if b:
        eb = ExprBuilder(b)
        rets = ret_exprs(b, eb)
        chk.anchor(len(rets) == 1 and not b.back_edges, "R-CRC-SHAPE", "update_crc32: single straight-line return value")
        if rets:
            if check_nf("update_crc32", "value", rets[0], upd32(gf2.var_bits("b", 8)), gf2.Normalizer(widths(b), tables)):
                chk.sample("update_crc32 = " + show(rets[0]))
                upd32_ok[0] = True

    def fold_loop(fn, b, acc, init_pred, step_pred, src_param, ret_pred):
        """acc has exactly two definitions: init (outside the loop) and step (inside the single loop);
        the loop iterates a forward slice iterator over the parameter `src_param`; exits only when the
        iterator is exhausted."""
        eb = ExprBuilder(b)
        heads = b.loop_heads()
        if not chk.anchor(len(heads) == 1, "R-CRC-SHAPE", "%s: exactly one loop" % fn):
            return
        loop = b.natural_loop(next(iter(heads)))
        ds = defs_of(b, eb, acc)
        inits = [e for bi, e in ds if bi not in loop]
        steps = [e for bi, e in ds if bi in loop]
        ok = len(inits) == 1 and len(steps) == 1
        chk.obligation(ok)
        if not ok:
            mismatch(fn, "accumulator `%s` must have one initial value and one loop update" % acc, got=str(len(ds)))
            return
        ok = init_pred(inits[0])
        chk.obligation(ok)
        if not ok:
            mismatch(fn, "initial value", got=show(inits[0]))
        # iterator: into_iter(param) outside loop, next() exactly once inside, no other iterator adaptor
        its = defs_of(b, eb, "iter")
        ok = len(its) == 1 and its[0][0] not in loop and its[0][1][0] == "call" and its[0][1][1] == SLICE_INTO_ITER \
            and its[0][1][2][0][0] == "var" and its[0][1][2][0][2] == src_param and its[0][1][2][0][1] <= b.argc
        chk.obligation(ok)
        if not ok:
            mismatch(fn, "iteration must be a forward slice iterator over the whole parameter `%s`" % src_param,
                     got=show(its[0][1]) if its else "no iterator")
        nexts = [i for i, t in b.calls() if i in loop and t["callee"].get("resolved") == SLICE_NEXT]
        calls_in_loop = [t["callee"].get("resolved") for i, t in b.calls() if i in loop]
        ok = len(nexts) == 1
        chk.obligation(ok)
        if not ok:
            mismatch(fn, "exactly one Iterator::next per iteration", got=str(calls_in_loop))
        # loop exits: only via the None arm of the switch on next()'s discriminant
        exits = [(x, s) for x in loop for s in b.succ[x] if s not in loop and b.blocks[s]["term"]["k"] != "unreachable"]
        ok = len(exits) == 1 and b.blocks[exits[0][0]]["term"]["k"] == "switch" \
            and show(eb.operand(b.blocks[exits[0][0]]["term"]["discr"])).startswith("discr(next(")
        chk.obligation(ok)
        if not ok:
            mismatch(fn, "loop must run until the iterator is exhausted (single exit on None)", got=str(exits))
        step_pred(steps[0], eb)
        rets = ret_exprs(b, eb)
        ok = len(rets) == 1 and ret_pred(rets[0])
        chk.obligation(ok)
        if not ok:
            mismatch(fn, "return value", got=show(rets[0]) if rets else "none")
        else:
            chk.sample("%s: %s := %s ; returns %s" % (fn, acc, show(steps[0])[:200], show(rets[0])))

    # get_crc16: crc = 0; for b in block { crc = update_crc16(crc, *b) }; crc
    b = body("crc::get_crc16")

    def fold_form(b):
        """`block.iter().fold(0, |crc, &b| update_crc16(crc, b))`: std's fold is the same left-to-right accumulation"""
        eb = ExprBuilder(b)
        rets = ret_exprs(b, eb)
        if b.back_edges or len(rets) != 1:
            return False
        e = rets[0]
        if not (e[0] == "call" and e[1].endswith("as std::iter::Iterator>::fold") and e[1].startswith("<std::slice::Iter<") and len(e[2]) == 3):
            return False
        src, init, cl = e[2]
        if not (src[0] == "call" and src[1] == "core::slice::<impl [T]>::iter" and len(src[2]) == 1):
            return False
        x = src[2][0]
        while x[0] in ("ref", "deref"):
            x = x[1]
        if not (x[0] == "var" and 1 <= x[1] <= b.argc and b.tys(x[1]) == "&[u8]") or init != ("const", 0):
            return False
        if not (cl[0] == "agg" and str(cl[1]).startswith("closure:") and not cl[2]):
            return False
        cb = f.bodies.get(str(cl[1])[len("closure:"):])
        if cb is None or cb.back_edges or cb.argc != 3:
            return False
        ceb = ExprBuilder(cb)
        cr = ret_exprs(cb, ceb)
        if len(cr) != 1:
            return False
        c = cr[0]
        ok = c[0] == "call" and c[1] == "crc::update_crc16" and len(c[2]) == 2 and c[2][0][0] == "var" and c[2][0][1] == 2
        y = c[2][1] if ok else None
        while ok and y[0] in ("deref", "ref"):
            y = y[1]
        return bool(ok and y[0] == "var" and y[1] == 3)
    if b and not b.back_edges and fold_form(b):
        chk.obligation(True, 6)
        chk.sample("get_crc16 = block.iter().fold(0, update_crc16)")
        b = None
    if b:
        R16 = roles(b)

        def step16(e, eb):
            ok = e[0] == "call" and e[1] == "crc::update_crc16" and len(e[2]) == 2 and e[2][0][0] == "var" and e[2][0][1] == R16[0] \
                and elem_input({"iter"})(e[2][1]) is not None
            chk.obligation(ok)
            if not ok:
                mismatch("get_crc16", "loop update must be update_crc16(crc, next byte)", got=show(e))
        fold_loop("get_crc16", b, R16[1], lambda e: e == ("const", 0), step16, R16[2],
                  lambda e: e[0] == "var" and e[1] == R16[0])
    # update_slow: crc = !prev; for byte in buf { crc = T0[(crc as u8) ^ byte] ^ (crc >> 8) }; !crc
    b = f.bodies.get("crc::update_slow")
    slow_inlined = b is None            # then get_crc32 must contain the tail loop itself (checked below)
    if b:
        RS = roles(b)

        def step_slow(e, eb):
            nz = gf2.Normalizer(widths(b, (RS[0],) if RS[0] is not None else ()), tables, elem_input({"iter"}))
            if upd32_ok[0]:
                # the one-byte step may be written as a call of update_crc32, whose own form was just checked
                nz.helpers["crc::update_crc32"] = ((32, 8), lambda c_, b_: gf2.xor(gf2.shr(c_, 8), gf2.lookup(T32, 0, gf2.resize(gf2.xor(gf2.resize(c_, 8), b_), 64), 32)))
            check_nf("update_slow", "loop update", e, upd32(gf2.var_bits("elem", 8)), nz)
        fold_loop("update_slow", b, RS[1],
                  lambda e: e[0] == "un" and e[1] == "Not" and e[2][0] == "var" and 1 <= e[2][1] <= b.argc and e[2][2] == RS[3],
                  step_slow, RS[2],
                  lambda e: e[0] == "un" and e[1] == "Not" and e[2][0] == "var" and e[2][1] == RS[0])
    # get_crc32: slicing by 16
    b = body("crc::get_crc32")
    if b:
        eb = ExprBuilder(b)
        heads = sorted(b.loop_heads())
        tail_loop = set()
        tail_head = None
        if slow_inlined and len(heads) == 2:
            # the byte-wise tail written out after the 16-byte loop instead of a call of update_slow
            h1, h2 = heads
            if b.dominates(h2, h1):
                h1, h2 = h2, h1
            if b.dominates(h1, h2) and h2 not in b.natural_loop(h1):
                heads = [h1]
                tail_head = h2
                tail_loop = b.natural_loop(h2)
        if not slow_inlined or tail_head is not None:
            pass
        else:
            chk.anchor(False, "R-CRC-SHAPE", "anchor missing: fn crc::update_slow (and no byte-wise tail loop in get_crc32)")
        if chk.anchor(len(heads) == 1, "R-CRC-SHAPE", "get_crc32: exactly one loop"):
            head = next(iter(heads))
            loop = b.natural_loop(head)
            R32 = roles(b, loop)
            ACC, BUFP = R32[1], R32[2]
            rds = defs_of(b, eb, ACC)
            inits = [e for bi, e in rds if bi not in loop and bi not in tail_loop]
            steps = [e for bi, e in rds if bi in loop]
            tail_steps = [e for bi, e in rds if bi in tail_loop]
            ok = len(inits) == 1 and inits[0] == ("const", 0xFFFFFFFF)
            chk.obligation(ok)
            if not ok:
                mismatch("get_crc32", "initial value must be 0xFFFF_FFFF", got=str([show(e) for e in inits]))
            # alternative window form: `for chunk in buf.chunks_exact(16)` ... `chunks.remainder()` (std's ChunksExact yields the
            # consecutive 16-byte windows of the whole input in order and keeps what is left, fewer than 16 bytes)
            chunk_form = None
            for cbi, ct in b.calls():
                if (ct["callee"].get("resolved") or "") == "core::slice::<impl [T]>::chunks_exact" and cbi not in loop:
                    a0, a1 = eb.operand(ct["args"][0]), eb.operand(ct["args"][1])
                    while a0[0] in ("ref", "deref"):
                        a0 = a0[1]
                    if a0[0] == "var" and 1 <= a0[1] <= b.argc and a0[2] == BUFP and a1 == ("const", 16):
                        chunk_form = ct["dest"]["l"]
            # buf is shadowed: the loop variable is the local (not the argument) named buf
            bufl = list(R32[4])
            bds = []
            for l_ in bufl:
                for bi_, k_ in b.defs.get(l_, []):
                    bds.append((bi_, eb.call_expr(b.blocks[bi_]["term"]) if k_ == "term" else eb.rvalue(b.blocks[bi_]["stmts"][k_]["rv"])))
            binit = [e for bi, e in bds if bi not in loop]
            bstep = [e for bi, e in bds if bi in loop]
            def chunk_elem(base):
                """the slice yielded by the chunk iterator in this iteration"""
                while base[0] in ("ref", "deref"):
                    base = base[1]
                if base[0] == "field" and base[2] == "0" and base[1][0] == "downcast" and base[1][2] == "Some":
                    c = base[1][1]
                    if c[0] == "call" and c[1].endswith("as std::iter::Iterator>::next") and c[2]:
                        it = c[2][0]
                        while it[0] in ("ref", "deref"):
                            it = it[1]
                        if it[0] == "var":
                            ids = defs_of(b, eb, it[2])
                            if len(ids) == 1 and ids[0][0] not in loop:
                                src = ids[0][1]
                                while src[0] in ("ref", "deref") or (src[0] == "call" and src[1].endswith("IntoIterator>::into_iter")):
                                    src = src[2][0] if src[0] == "call" else src[1]
                                return src[0] == "var" and src[1] == chunk_form
                return False
            if chunk_form is not None and not bufl:
                nexts = [i for i, t in b.calls() if i in loop and (t["callee"].get("resolved") or "").endswith("as std::iter::Iterator>::next")]
                exits_ = [(x, s_) for x in loop for s_ in b.succ[x] if s_ not in loop and b.blocks[s_]["term"]["k"] != "unreachable"]
                ok = len(nexts) == 1 and bool(exits_) and len({x for x, _ in exits_}) == 1 and b.blocks[exits_[0][0]]["term"]["k"] == "switch" \
                    and show(eb.operand(b.blocks[exits_[0][0]]["term"]["discr"])).startswith("discr(next(")
                chk.obligation(ok)
                if not ok:
                    mismatch("get_crc32", "the chunk loop must take one chunk per iteration and run until the iterator is exhausted", got=str(exits_))
                binit = bstep = None
            ok = binit is None or (len(bufl) == 1 and len(binit) == 1 and binit[0][0] == "var" and binit[0][1] <= b.argc and binit[0][2] == BUFP)
            chk.obligation(ok)
            if not ok:
                mismatch("get_crc32", "window must start at the whole input", got=str([show(e) for e in binit]))

            def is_adv(e):
                # &*index(&*buf, RangeFrom{16})
                while e[0] in ("ref", "deref"):
                    e = e[1]
                if e[0] != "call" or "Index" not in e[1] and "index" not in e[1]:
                    return False
                base, rng = e[2][0], e[2][1]
                while base[0] in ("ref", "deref"):
                    base = base[1]
                return base[0] == "var" and base[1] in bufl and rng[0] == "agg" \
                    and rng[1].startswith("adt:std::ops::RangeFrom") and rng[2] == [("const", 16)]
            ok = bstep is None or (len(bstep) == 1 and is_adv(bstep[0]))
            chk.obligation(ok)
            if not ok:
                mismatch("get_crc32", "window must advance by exactly 16 bytes (buf = &buf[16..])", got=str([show(e) for e in bstep]))
            # guard: the only loop exit is the false branch of len(buf) >= 16 at the head
            exits = [(x, s) for x in loop for s in b.succ[x] if s not in loop]
            ok = binit is None
            if len(exits) == 1 and not ok:
                t = b.blocks[exits[0][0]]["term"]
                if t["k"] == "switch":
                    g = eb.operand(t["discr"])
                    stay_on_true = [tg for v, tg in t["targets"] if v == 0] == [exits[0][1]]

                    def lenbuf(e):
                        if e[0] != "len":
                            return False
                        x = e[1]
                        while x[0] in ("ref", "deref"):
                            x = x[1]
                        return x[0] == "var" and x[1] in bufl
                    # any guard that implies len(buf) >= 16 is correct (the tail routine takes whatever remains)
                    if g[0] == "bin" and stay_on_true:
                        def cst(e):
                            return e[1] if e[0] == "const" else None
                        if g[1] == "Ge" and lenbuf(g[2]) and cst(g[3]) is not None and cst(g[3]) >= 16:
                            ok = True
                        if g[1] == "Gt" and lenbuf(g[2]) and cst(g[3]) is not None and cst(g[3]) >= 15:
                            ok = True
                        if g[1] == "Le" and lenbuf(g[3]) and cst(g[2]) is not None and cst(g[2]) >= 16:
                            ok = True
                        if g[1] == "Lt" and lenbuf(g[3]) and cst(g[2]) is not None and cst(g[2]) >= 15:
                            ok = True
            chk.obligation(ok)
            if not ok:
                mismatch("get_crc32", "fast path must run only while at least 16 bytes remain", got=str(exits))
            # the unrolled body
            res = gf2.var_bits("result", 32)
            exp = [frozenset()] * 32
            for k in range(16):
                byte = gf2.var_bits("buf%d" % (15 - k), 8)
                if k >= 12:
                    sh = 8 * (15 - k)
                    byte = gf2.xor(byte, gf2.resize(gf2.shr(res, sh), 8))
                exp = gf2.xor(exp, gf2.lookup(T32, k, gf2.resize(byte, 64), 32))

            def buf_input(e):
                x = e
                if x[0] == "index" and x[2][0] == "const":
                    base = x[1]
                    while base[0] in ("ref", "deref"):
                        base = base[1]
                    if base[0] == "var" and base[1] in bufl:
                        return ("buf%d" % x[2][1], 8)
                    if binit is None and chunk_elem(x[1]):
                        return ("buf%d" % x[2][1], 8)
                return None
            if len(steps) == 1:
                accs = [R32[0]] if R32[0] is not None else []
                nz = gf2.Normalizer(widths(b, accs if len(accs) == 1 else (), acc_name="result"), tables, buf_input)
                if check_nf("get_crc32", "unrolled 16-byte step", steps[0], exp, nz):
                    chk.sample("get_crc32 step = XOR of 16 lookups; slice k indexed by buf[15-k], slices 12..15 also by bytes 3..0 of result")
            else:
                chk.obligation(False)
                mismatch("get_crc32", "exactly one update of `result` in the loop", got=str(len(steps)))
            rets = ret_exprs(b, eb)

            def is_tail(e):
                if e[0] != "call" or e[1] != "crc::update_slow" or len(e[2]) != 2:
                    return False
                a0, a1 = e[2]
                while a1[0] in ("ref", "deref"):
                    a1 = a1[1]
                if binit is None:
                    rest = a1[0] == "call" and a1[1].endswith("ChunksExact::<'a, T>::remainder") and a1[2] and a1[2][0] == ("ref", ("var", chunk_form, b.lname(chunk_form)))
                else:
                    rest = a1[0] == "var" and a1[1] in bufl
                return a0[0] == "un" and a0[1] == "Not" and a0[2][0] == "var" and a0[2][1] == R32[0] and rest
            def inline_tail():
                """for byte in <remaining window> { result = T0[(result as u8) ^ byte] ^ (result >> 8) }; !result"""
                if tail_head is None or len(tail_steps) != 1 or len(rets) != 1:
                    return False
                r = rets[0]
                if not (r[0] == "un" and r[1] == "Not" and r[2][0] == "var" and r[2][1] == R32[0]):
                    return False
                its = [(bi, e) for bi, e in defs_of(b, eb, "iter") if bi not in loop and bi not in tail_loop and b.dominates(head, bi)]
                if len(its) != 1 or its[0][1][0] != "call" or not its[0][1][1].endswith("::into_iter"):
                    return False
                srcw = its[0][1][2][0]
                while srcw[0] in ("ref", "deref"):
                    srcw = srcw[1]
                if binit is None:
                    rest = srcw[0] == "call" and srcw[1].endswith("ChunksExact::<'a, T>::remainder")
                else:
                    rest = srcw[0] == "var" and srcw[1] in bufl
                nexts = [i for i, t in b.calls() if i in tail_loop and t["callee"].get("resolved") == SLICE_NEXT]
                exits_t = [(x, s_) for x in tail_loop for s_ in b.succ[x] if s_ not in tail_loop and b.blocks[s_]["term"]["k"] != "unreachable"]
                shape = rest and len(nexts) == 1 and len(exits_t) == 1 and b.blocks[exits_t[0][0]]["term"]["k"] == "switch" \
                    and show(eb.operand(b.blocks[exits_t[0][0]]["term"]["discr"])).startswith("discr(next(")
                if not shape:
                    return False
                nzt = gf2.Normalizer(widths(b, (R32[0],), acc_name="crc"), tables, elem_input({"iter"}))
                if upd32_ok[0]:
                    nzt.helpers["crc::update_crc32"] = ((32, 8), lambda c_, b_: gf2.xor(gf2.shr(c_, 8), gf2.lookup(T32, 0, gf2.resize(gf2.xor(gf2.resize(c_, 8), b_), 64), 32)))
                got = nzt.nf(tail_steps[0], 32)
                return got is not None and got == upd32(gf2.var_bits("elem", 8))
            ok = (len(rets) == 1 and is_tail(rets[0])) if not slow_inlined else inline_tail()
            chk.obligation(ok, 1 if not slow_inlined else 8)
            if not ok:
                mismatch("get_crc32", "tail must be update_slow(!result, remaining bytes)" if not slow_inlined else
                         "the byte-wise tail must fold the remaining bytes through T0[(result as u8) ^ byte] ^ (result >> 8) and return !result", got=str([show(e) for e in rets]))
    chk.cov["exhaustive"] = True
    chk.cov["table_entries_checked"] = nent
    chk.cov["routines_checked"] = ["update_crc16", "get_crc16", "update_crc32", "update_slow", "get_crc32"]
    return chk.finish(
        "All %d CRC table entries compared with their defining recurrences (exhaustive); the five routines reconstructed "
        "from MIR and compared, as GF(2) normal forms with uninterpreted table lookups, with the canonical table method; "
        "loop skeletons (initial value, guard len>=16, advance 16, forward full iteration, tail call, final inversion) checked structurally." % nent)

"""C12 — colour-optimised saving never changes the rendered picture (structural necessary conditions; pixel equality of
the two renderings is value level and not decided).

R-OPT-ARM  : in ColorOptimizer::optimize the rewritten cell's attribute starts as a copy of the cell's own attribute and is
             modified only by `set_foreground` inside the Whitespace arm of the glyph-shape switch and by `set_background`
             inside the Block arm (the Mixed arm modifies nothing); the character is replaced only inside the Whitespace arm.
             The two setters write exactly the one colour field (effect analysis).  A blank cell shows no foreground, a solid
             cell no background: any other write changes visible pixels.
R-SHAPE    : get_shape classifies a glyph as Whitespace only on the `ones == 0` path and as Block only when `ones` equals
             width x height *of the font the glyph belongs to* (fields of its BitFont parameter), and generate_shape_map passes
             the font whose glyph table it is iterating.
R-FLATTEN  : the flattening step (Buffer::flat_clone, non-deep path) composites every row 0..height and column 0..width of the
             document through Buffer::get_char and stores it at the same position."""
from analysis import facts as F
from analysis.cg import CallGraph
from analysis.effects import Effects
from analysis.expr import ExprBuilder, show, inline_helper
from rules.C09 import linear_nf

OPT = "formats::color_optimization::ColorOptimizer::optimize"
SHAPE = "formats::color_optimization::get_shape"
GEN = "formats::color_optimization::generate_shape_map"
FLAT = "buffers::Buffer::flat_clone"
SHAPE_ADT = "formats::color_optimization::GlyphShape"


def _subtrees(e, depth=0):
    out = []
    if depth > 60 or not isinstance(e, (tuple, list)):
        return out
    if isinstance(e, tuple):
        out.append(e)
    for x in e:
        if isinstance(x, (tuple, list)):
            out += _subtrees(x, depth + 1)
    return out


def strip(e):
    while isinstance(e, tuple) and e and e[0] in ("ref", "deref", "cast"):
        e = e[2] if e[0] == "cast" else e[1]
    return e


def run(chk):
    f = F.load()
    g = CallGraph(f)
    eff = Effects(f, g)
    chk.rules = ["R-OPT-ARM", "R-SHAPE", "R-FLATTEN"]
    ob, sb, gb, fb = (f.bodies.get(x) for x in (OPT, SHAPE, GEN, FLAT))
    adt = f.adts.get(SHAPE_ADT)
    ok_anchor = all([chk.anchor(ob is not None, "R-OPT-ARM", "anchor missing: ColorOptimizer::optimize"),
                     chk.anchor(sb is not None, "R-SHAPE", "anchor missing: get_shape"),
                     chk.anchor(gb is not None, "R-SHAPE", "anchor missing: generate_shape_map"),
                     chk.anchor(fb is not None, "R-FLATTEN", "anchor missing: Buffer::flat_clone"),
                     chk.anchor(adt is not None and sorted(v["name"] for v in adt["variants"]) == ["Block", "Mixed", "Whitespace"], "R-OPT-ARM", "GlyphShape has the variants Whitespace / Block / Mixed")])
    if not ok_anchor:
        return chk.finish("anchors missing")
    discr = {v["name"]: v["discr"] for v in adt["variants"]}
    nw = 0
    # ------------------------------------------------------------------ R-OPT-ARM
    def shape_switch(body, ebx):
        for bi in range(body.nblocks):
            t = body.blocks[bi]["term"]
            if t["k"] == "switch" and len([x for x in t.get("targets", []) if x[0] in discr.values()]) >= 3:
                if "discr(" in show(ebx.operand(t["discr"])):
                    return (bi, t)
        return None
    # the body that rewrites one cell: optimize itself, or a helper it calls for every cell
    wb, eb = ob, ExprBuilder(ob)
    sw = shape_switch(wb, eb)
    if sw is None:
        for _, t in ob.calls():
            cid = t["callee"].get("resolved") or ""
            cb_ = f.bodies.get(cid)
            if cb_ is not None and cb_.kind in ("fn", "method"):
                e2 = ExprBuilder(cb_)
                sw2 = shape_switch(cb_, e2)
                if sw2 is not None:
                    wb, eb, sw = cb_, e2, sw2
                    break
    # the rewritten cell: (a) the (ch, attribute) locals of the AttributedChar aggregate handed to Layer::set_char, or
    # (b) the AttributedChar the helper returns (its .ch / .attribute fields)
    attr_l, ch_l, cell_l = [], [], []
    for bi, t in wb.calls():
        if not (t["callee"].get("resolved") or "").endswith("Layer::set_char") or len(t["args"]) < 3:
            continue
        pj = t["args"][2].get("copy") or t["args"][2].get("move")
        if pj is None or pj.get("p"):
            continue
        for bj, kj in wb.defs.get(pj["l"], []):
            if kj == "term":
                continue
            rv = wb.blocks[bj]["stmts"][kj]["rv"]
            if rv["k"] == "agg" and (rv.get("adt") or "").endswith("AttributedChar"):
                for o in rv["ops"]:
                    e = eb.operand(o)
                    while e[0] in ("ref", "deref"):
                        e = e[1]
                    if e[0] == "var" and isinstance(e[1], int):
                        ty = wb.tys(e[1])
                        if ty == "char" and e[1] not in ch_l:
                            ch_l.append(e[1])
                        elif ty.endswith("TextAttribute") and e[1] not in attr_l:
                            attr_l.append(e[1])
    if wb is not ob and not attr_l:
        # (c) the helper builds the cell from its own `ch` / `attribute` locals and returns the aggregate
        for bi, k in wb.defs.get(0, []):
            if k == "term":
                continue
            rv = wb.blocks[bi]["stmts"][k]["rv"]
            if rv["k"] == "agg" and (rv.get("adt") or "").endswith("AttributedChar"):
                for o in rv["ops"]:
                    e = eb.operand(o)
                    while e[0] in ("ref", "deref"):
                        e = e[1]
                    if e[0] == "var" and isinstance(e[1], int):
                        ty = wb.tys(e[1])
                        if ty == "char" and e[1] not in ch_l:
                            ch_l.append(e[1])
                        elif ty.endswith("TextAttribute") and e[1] not in attr_l:
                            attr_l.append(e[1])
    if wb is not ob and not attr_l:
        for bi, k in wb.defs.get(0, []):
            if k == "term":
                continue
            rv = wb.blocks[bi]["stmts"][k]["rv"]
            pj = (rv["a"].get("move") or rv["a"].get("copy")) if rv["k"] == "use" else None
            if pj is not None and not pj.get("p") and wb.tys(pj["l"]).endswith("AttributedChar") and pj["l"] not in cell_l:
                cell_l.append(pj["l"])
    form_a = len(attr_l) == 1 and len(ch_l) == 1
    form_b = len(cell_l) == 1 and not attr_l
    if chk.anchor((form_a or form_b) and sw is not None, "R-OPT-ARM", "optimize: the rewritten cell (`ch` / `attribute`, or the cell a per-cell helper returns) and the switch on the glyph shape found"):
        al, cl = (attr_l[0], ch_l[0]) if form_a else (None, None)
        cell = cell_l[0] if form_b else None
        arm = {}
        for val, tgt in sw[1]["targets"]:
            for nm, dv in discr.items():
                if dv == val:
                    arm[nm] = tgt

        def in_arm(bi, nm):
            return arm.get(nm) is not None and (bi == arm[nm] or wb.dominates(arm[nm], bi))
        # the shape is looked up for the cell's own font page and its own character: shape_map[cell.get_font_page()][cell.ch]
        gets = []

        def walk_gets(e, depth=0):
            if depth > 60 or not isinstance(e, (tuple, list)):
                return
            if isinstance(e, tuple) and e and e[0] == "call" and isinstance(e[1], str) and e[1].endswith("HashMap::<K, V, S, A>::get") and len(e[2]) == 2:
                gets.append(e)
            for x in e:
                if isinstance(x, (tuple, list)):
                    walk_gets(x, depth + 1)
        def inline_calls(e, depth=0):
            """calls of small crate-local helpers replaced by what they return (`self.lookup_shape(&cell).1`)"""
            if depth > 40 or not isinstance(e, (tuple, list)):
                return e
            if isinstance(e, tuple) and e and e[0] == "call" and isinstance(e[1], str) and e[1] in f.bodies:
                r = inline_helper(f, e)
                if r is not None:
                    return inline_calls(r, depth + 1)
            if isinstance(e, tuple):
                out = tuple(inline_calls(x, depth + 1) if isinstance(x, (tuple, list)) else x for x in e)
                if out and out[0] == "field" and isinstance(out[1], tuple) and out[1][:2] == ("agg", "tuple") and str(out[2]).isdigit() and int(out[2]) < len(out[1][2]):
                    return out[1][2][int(out[2])]
                return out
            return [inline_calls(x, depth + 1) if isinstance(x, (tuple, list)) else x for x in e]
        walk_gets(inline_calls(eb.operand(sw[1]["discr"])))
        outer = [g_ for g_ in gets if "shape_map" not in show(g_[2][0]).split("get(")[0] and any(h_ is not g_ and h_ in _subtrees(g_[2][0]) for h_ in gets)]
        inner = [g_ for g_ in gets if show(strip(g_[2][0])).endswith(".shape_map")]
        okk = len(inner) == 1 and len(outer) == 1
        why_k = "the lookup `shape_map.get(page).get(ch)` was not found in the switch on the glyph shape"
        if okk:
            k1, k2 = strip(inner[0][2][1]), strip(outer[0][2][1])
            c1 = strip(k1[2][0]) if (k1[0] == "call" and k1[1].endswith("AttributedChar::get_font_page") and len(k1[2]) == 1) else None
            if c1 is None and k1[0] == "field" and k1[2] == "font_page" and strip(k1[1])[0] == "field" and strip(k1[1])[2] == "attribute":
                c1 = strip(strip(k1[1])[1])         # the getter read as the field it returns
            c2 = strip(k2[1]) if (k2[0] == "field" and k2[2] == "ch") else None
            okk = c1 is not None and c2 is not None and c1 == c2
            why_k = "the shape table is chosen by `%s` and indexed by `%s`: not the font page and the character of one and the same cell" % (show(k1)[:60], show(k2)[:60])
        chk.obligation(okk)
        if not okk:
            chk.finding("optimize|shape-key", rule="R-OPT-ARM", where="%s:%s" % (wb.file, sw[1].get("line")), fn=wb.short(), what=why_k)

        def target(s):
            """'attr' / 'ch' / None: which part of the rewritten cell an assignment writes"""
            l, proj = s["p"]["l"], s["p"].get("p") or []
            if form_a and not proj:
                return "attr" if l == al else "ch" if l == cl else None
            if form_b and l == cell:
                names = [el[2] for el in proj if el != "*" and el[0] == "f"]
                if not proj:
                    return "cell"
                return "attr" if names[:1] == ["attribute"] else "ch" if names == ["ch"] else "cell"
            return None
        nw = 0
        # direct assignments to `attribute` / `ch`
        for bi, k, s in wb.stmts():
            if s["k"] != "assign":
                continue
            tg = target(s)
            if tg == "cell":
                nw += 1
                chk.obligation(False)
                chk.finding("optimize|cell-assigned", rule="R-OPT-ARM", where="%s:%s" % (wb.file, s["line"]), fn=wb.short(),
                            what="the rewritten cell is overwritten as a whole (or in a field other than ch / attribute colours)")
            if tg == "attr":
                nw += 1
                v = show(eb.rvalue(s["rv"]))
                ok = v.endswith(".attribute") and not (s["p"].get("p") and len(s["p"]["p"]) > 1)          # a copy of the `attribute` field of the cell just read
                chk.obligation(ok)
                if not ok:
                    chk.finding("optimize|attribute-assigned|%s" % v[:50], rule="R-OPT-ARM", where="%s:%s" % (wb.file, s["line"]), fn="ColorOptimizer::optimize",
                                what="the rewritten cell's attribute is assigned `%s`: it may only start as the cell's own attribute and have its foreground (blank glyph) "
                                     "or background (solid glyph) replaced" % v[:80])
            if tg == "ch":
                nw += 1
                v = eb.rvalue(s["rv"])
                if v == ("const", 32):
                    ok = in_arm(bi, "Whitespace")
                else:
                    txt = show(v)
                    ok = txt.endswith(".ch")
                chk.obligation(ok)
                if not ok:
                    chk.finding("optimize|ch-assigned|%s" % show(v)[:40], rule="R-OPT-ARM", where="%s:%s" % (wb.file, s["line"]), fn="ColorOptimizer::optimize",
                                what="the character of the rewritten cell is replaced outside the Whitespace arm (or by something other than a blank)")

        def is_attr_ref(e):
            x = strip(e)
            if form_a:
                return x[:2] == ("var", al)
            return x[0] == "field" and x[2] == "attribute" and strip(x[1])[:2] == ("var", cell)

        def touches_cell(e):
            x = strip(e)
            while x[0] == "field":
                x = strip(x[1])
            return form_b and x[:2] == ("var", cell)
        # mutation through `&mut attribute`
        for bi, t in wb.calls():
            for i, a in enumerate(t["args"]):
                e = eb.operand(a)
                ety = eb_type(wb, a, f)
                if e[0] != "ref" or ety is None or not f.types[ety]["s"].startswith("&mut"):
                    continue
                if is_attr_ref(e):
                    nw += 1
                    callee = t["callee"].get("resolved") or ""
                    if callee.endswith("TextAttribute::set_foreground"):
                        ok = in_arm(bi, "Whitespace")
                        want = "Whitespace"
                    elif callee.endswith("TextAttribute::set_background"):
                        ok = in_arm(bi, "Block")
                        want = "Block"
                    else:
                        ok = False
                        want = None
                    chk.obligation(ok)
                    if not ok:
                        chk.finding("optimize|attribute-mutated|%s" % callee.split("::")[-1], rule="R-OPT-ARM", where="%s:%s" % (wb.file, t["line"]), fn="ColorOptimizer::optimize",
                                    what="`%s` modifies the rewritten cell's attribute %s" % (callee.split("::")[-1], ("outside the %s arm" % want) if want else
                                                                                            "(only set_foreground in the Whitespace arm and set_background in the Block arm may)"))
                elif touches_cell(e):
                    nw += 1
                    chk.obligation(False)
                    chk.finding("optimize|cell-mutated|%s" % (t["callee"].get("resolved") or "").split("::")[-1], rule="R-OPT-ARM", where="%s:%s" % (wb.file, t["line"]), fn=wb.short(),
                                what="the rewritten cell is handed out mutably to `%s`" % (t["callee"].get("resolved") or "?").split("::")[-1])
        if wb is not ob:
            # the helper is given the cell just read and its result is what is stored, at the same position
            hc = [(bi, t) for bi, t in ob.calls() if (t["callee"].get("resolved") or "") == wb.id]
            oeb = ExprBuilder(ob)
            okh = len(hc) == 1
            if okh:
                pi = [i for i in range(1, wb.argc + 1) if wb.tys(i).endswith("AttributedChar")]
                okh = len(pi) == 1 and (not form_b or pi[0] == cell) and "get_char(" in show(oeb.operand(hc[0][1]["args"][pi[0] - 1]))
                sc = [(bi, t) for bi, t in ob.calls() if (t["callee"].get("resolved") or "").endswith("Layer::set_char")]
                okh = okh and len(sc) == 1 and show(oeb.operand(sc[0][1]["args"][2])).startswith(wb.id.split("::")[-1] + "(")
            chk.obligation(okh)
            if not okh:
                chk.finding("optimize|helper-wiring", rule="R-OPT-ARM", where="%s:%s" % (ob.file, ob.line), fn="ColorOptimizer::optimize",
                            what="the per-cell helper is not applied to the cell just read (get_char) with its result stored by set_char")
        chk.floor("R-OPT-ARM", "writes to the rewritten cell's attribute / character", nw, 3)
        # the setters write exactly one field
        for nm, fld in (("set_foreground", "foreground_color"), ("set_background", "background_color")):
            sid = "text_attribute::TextAttribute::" + nm
            w = eff.W.get(sid, {}).get(1)
            ok = w == {(fld,)}
            chk.obligation(ok)
            if not ok:
                chk.finding("TextAttribute::%s|writes|%s" % (nm, sorted(w or [])), rule="R-OPT-ARM", where="src/text_attribute.rs", fn="TextAttribute::" + nm,
                            what="%s writes %s (expected exactly %s)" % (nm, sorted(w or []), fld))
        # what is stored and carried over is that attribute
        stores = [(bi, t) for bi, t in ob.calls() if (t["callee"].get("resolved") or "").endswith("Layer::set_char")]
        ok = len(stores) == 1
        chk.obligation(ok)
        if not ok:
            chk.finding("optimize|store", rule="R-OPT-ARM", where="%s:%s" % (ob.file, ob.line), fn="ColorOptimizer::optimize", what="the rewritten cell is not stored by exactly one Layer::set_char of (ch, attribute)")
    # ------------------------------------------------------------------ R-SHAPE
    seb = ExprBuilder(sb)
    fontp = [i for i in range(1, sb.argc + 1) if sb.tys(i) == "&fonts::BitFont"]
    ok = len(fontp) == 1
    chk.obligation(ok)
    if not ok:
        chk.finding("get_shape|no-font-param", rule="R-SHAPE", where="%s:%s" % (sb.file, sb.line), fn="get_shape",
                    what="get_shape does not take the glyph's own BitFont: the solid-block test needs width x height of the font the glyph belongs to")
    rets = {}
    for bi, k, s in sb.stmts():
        if s["k"] == "assign" and s["p"]["l"] == 0 and s["rv"]["k"] == "agg":
            vn = s["rv"].get("variant")
            rets[bi] = vn if isinstance(vn, str) else show(seb.rvalue(s["rv"]))
    conds = {}
    for bi in range(sb.nblocks):
        t = sb.blocks[bi]["term"]
        if t["k"] == "switch":
            conds[bi] = (seb.operand(t["discr"]), t["targets"], t.get("otherwise"))

    def guard_of(ret_block):
        """(cond expr, truth) of the nearest dominating two-way switch"""
        best = None
        for bi, (c, targets, oth) in conds.items():
            for val, tgt in targets:
                if tgt is not None and (tgt == ret_block or sb.dominates(tgt, ret_block)) and not (oth is not None and sb.dominates(oth, ret_block) and oth != tgt):
                    best = (bi, c, val) if best is None or sb.dominates(best[0], bi) else best
            if oth is not None and (oth == ret_block or sb.dominates(oth, ret_block)):
                if not any(tgt is not None and (tgt == ret_block or sb.dominates(tgt, ret_block)) for _, tgt in targets):
                    best = (bi, c, "else") if best is None or sb.dominates(best[0], bi) else best
        return best
    # closures of get_shape that count bits (`.map(|row| row.count_ones())`)
    bitcount_closures = {cid for cid, cb_ in f.bodies.items() if cb_.kind == "closure" and cb_.parent == SHAPE
                         and any((t_["callee"].get("resolved") or t_["callee"].get("path") or "").endswith("::count_ones") for _, t_ in cb_.calls())}

    def is_bitcount(e, depth=0):
        """the number of set pixels of the glyph: a local accumulated from count_ones() of the rows, or the sum of a map of them"""
        e = strip(e)
        if depth > 3:
            return False
        if e[0] == "var" and isinstance(e[1], int):
            for bi_, k_ in sb.defs.get(e[1], []):
                d_ = seb.call_expr(sb.blocks[bi_]["term"]) if k_ == "term" else seb.rvalue(sb.blocks[bi_]["stmts"][k_]["rv"])
                txt_ = show(d_)
                if "count_ones(" in txt_ or (d_ != e and d_[0] != "var" and is_bitcount(d_, depth + 1)):
                    return True
            return False
        txt = show(e)
        if "count_ones(" in txt:
            return True
        return "sum(" in txt and "glyph.data" in txt and any(("{closure#%s}" % c.rsplit("#", 1)[-1].rstrip("}")) in txt for c in bitcount_closures)
    nshape = 0
    for rb_, nm in rets.items():
        nm = str(nm)
        gd = guard_of(rb_)
        if "Whitespace" in nm:
            nshape += 1
            ok = gd is not None and gd[1][0] == "bin" and gd[1][1] == "Eq" and ("const", 0) in (gd[1][2], gd[1][3]) \
                and any(is_bitcount(x) for x in (gd[1][2], gd[1][3])) and gd[2] in (1, "else")
            # `match count { 0 => Whitespace, .. }`: the switch is on the count itself
            ok = ok or (gd is not None and gd[2] == 0 and is_bitcount(gd[1]))
            chk.obligation(ok)
            if not ok:
                chk.finding("get_shape|whitespace-guard", rule="R-SHAPE", where="%s:%s" % (sb.file, sb.line), fn="get_shape",
                            what="GlyphShape::Whitespace is returned on a path not guarded by `ones == 0` (guard: %s)" % (show(gd[1]) if gd else None))
        elif "Block" in nm:
            nshape += 1
            ok = False
            if gd is not None and gd[1][0] == "bin" and gd[1][1] == "Eq" and fontp:
                sides = [gd[1][2], gd[1][3]]
                prod = [x for x in sides if strip(x)[0] == "bin" and strip(x)[1] in ("Mul", "MulO")]
                if len(prod) == 1 and any(is_bitcount(x) for x in sides if x is not prod[0]):
                    p = strip(prod[0])
                    fs = sorted(show(strip(p[2])) + "|" + show(strip(p[3])) if False else [show(strip(p[2])), show(strip(p[3]))])
                    fname = sb.lname(fontp[0])
                    want = sorted(["*%s.size.height" % fname, "*%s.size.width" % fname])
                    ok = [x.replace("(", "").replace(")", "") for x in fs] == want
            chk.obligation(ok)
            if not ok:
                chk.finding("get_shape|block-guard|%s" % (show(gd[1])[:60] if gd else None), rule="R-SHAPE", where="%s:%s" % (sb.file, sb.line), fn="get_shape",
                            what="GlyphShape::Block must be returned exactly when `ones == font.size.width * font.size.height` for the glyph's own font (guard: %s)" % (show(gd[1]) if gd else None))
    chk.floor("R-SHAPE", "classified return values of get_shape", nshape, 2)
    # generate_shape_map itself or the closures nested in it (an iterator chain instead of the two loops)
    fam = [gb] + [cb_ for cid_, cb_ in sorted(f.bodies.items()) if cb_.kind == "closure" and cid_.startswith(GEN + "::{closure")]
    calls = [(cb_, bi, t) for cb_ in fam for bi, t in cb_.calls() if (t["callee"].get("resolved") or "") == SHAPE]
    if chk.anchor(len(calls) == 1, "R-SHAPE", "generate_shape_map calls get_shape once"):
        cb_, _, t = calls[0]
        ceb = ExprBuilder(cb_)
        a0 = strip(ceb.operand(t["args"][0]))
        home = cb_
        # a captured variable is the expression it was captured from, in the enclosing body
        for _ in range(4):
            if home.kind == "closure" and a0[0] == "field" and strip(a0[1])[:2] == ("var", 1) and a0[2].isdigit():
                par = f.bodies.get(home.parent) if home.parent != GEN else gb
                # the enclosing body is the one that builds this closure
                built = None
                for pb_ in fam:
                    peb = ExprBuilder(pb_)
                    for _, _, st_ in pb_.stmts():
                        if st_["k"] == "assign" and st_["rv"]["k"] == "agg" and st_["rv"].get("ak") == "closure" and st_["rv"].get("def") == home.id:
                            built = (pb_, peb, st_["rv"]["ops"])
                if built is None or int(a0[2]) >= len(built[2]):
                    break
                home = built[0]
                a0 = strip(built[1].operand(built[2][int(a0[2])]))
            else:
                break
        heb = ExprBuilder(home)
        # the glyph iteration source in that body: into_iter(&(*font).glyphs) / (*font).glyphs.iter()
        src = None
        for bi, t2 in home.calls():
            r2 = t2["callee"].get("resolved") or ""
            if (r2.endswith("::into_iter") or r2.endswith("::iter")) and t2["args"]:
                e = heb.operand(t2["args"][0])
                if show(e).endswith(".glyphs"):
                    x = strip(e)
                    if x[0] == "field":
                        src = strip(x[1])
        ok = src is not None and a0 == src
        chk.obligation(ok)
        if not ok:
            chk.finding("generate_shape_map|font-arg|%s" % show(a0)[:50], rule="R-SHAPE", where="%s:%s" % (gb.file, t["line"]), fn="generate_shape_map",
                        what="get_shape is not given the font whose glyph table is being iterated (argument `%s`, glyphs of `%s`)" % (show(a0)[:60], show(src)[:60] if src else None))
    # ------------------------------------------------------------------ R-FLATTEN
    feb = ExprBuilder(fb)
    ranges = []
    for bi, k, s in fb.stmts():
        if s["k"] == "assign" and s["rv"]["k"] == "agg" and (s["rv"].get("adt") or "").endswith("ops::Range"):
            ops = s["rv"]["ops"]
            lo, hi = feb.operand(ops[0]), feb.operand(ops[1])
            ranges.append((lo, linear_nf(hi, f, fb.impl_self_s), s["line"]))
    dims = {("buffers::Buffer.size.height",): 0, ("buffers::Buffer.size.width",): 0}
    for lo, hi, line in ranges:
        if lo == ("const", 0) and hi is not None and hi[1] == 0 and len(hi[0]) == 1 and list(hi[0].values()) == [1]:
            key = (list(hi[0].keys())[0],)
            if key in dims:
                dims[key] += 1
    ok = all(v == 1 for v in dims.values())
    chk.obligation(ok)
    if not ok:
        chk.finding("flat_clone|ranges|%s" % sorted("%s" % (h,) for _, h, _ in ranges), rule="R-FLATTEN", where="%s:%s" % (fb.file, fb.line), fn="Buffer::flat_clone",
                    what="flattening must composite rows 0..height and columns 0..width of the document; found ranges %s" % [(show(l), h) for l, h, _ in ranges])
    gets = [(bi, t) for bi, t in fb.calls() if (t["callee"].get("resolved") or "") in ("<buffers::Buffer as TextPane>::get_char", "buffers::Buffer::get_char")]
    sets = [(bi, t) for bi, t in fb.calls() if (t["callee"].get("resolved") or "").endswith("Layer::set_char")]

    def pos_locals(t, i):
        """source locals (through copies) of the components of the (x, y) tuple argument i"""
        pj = t["args"][i].get("copy") or t["args"][i].get("move")
        if pj is None or pj.get("p"):
            return None
        ds = fb.defs.get(pj["l"], [])
        if len(ds) != 1 or ds[0][1] == "term":
            return None
        s_ = fb.blocks[ds[0][0]]["stmts"][ds[0][1]]
        if s_["rv"]["k"] != "agg":
            return None
        out = []
        for o in s_["rv"]["ops"]:
            q = o.get("copy") or o.get("move")
            if q is None:
                return None
            l = q["l"]
            for _ in range(4):
                d2 = fb.defs.get(l, [])
                if len(d2) == 1 and d2[0][1] != "term":
                    r2 = fb.blocks[d2[0][0]]["stmts"][d2[0][1]]["rv"]
                    if r2["k"] == "use" and (r2["a"].get("copy") or r2["a"].get("move")) and not (r2["a"].get("copy") or r2["a"].get("move")).get("p"):
                        l = (r2["a"].get("copy") or r2["a"].get("move"))["l"]
                        continue
                break
            out.append(fb.lname(l) or l)
        return out
    ok = len(gets) == 1 and len(sets) == 1
    if ok:
        ga, sa = pos_locals(gets[0][1], 1), pos_locals(sets[0][1], 1)
        ok = ga is not None and ga == sa and len(ga) == 2 and ga[0] != ga[1] and "get_char(" in show(feb.operand(sets[0][1]["args"][2]))
    if ok:
        # ... for every cell: the store depends on nothing but the two loops' own iteration tests
        sbi = sets[0][0]
        extra = []
        for d in fb.control_deps(sbi):
            dtxt = show(feb.operand(fb.blocks[d]["term"]["discr"]))
            if dtxt.startswith("discr(next(") or dtxt == "deep_layers" or dtxt.endswith("deep_layers"):
                continue
            extra.append(dtxt[:60])
        if extra:
            ok = False
            chk.obligation(False)
            chk.finding("flat_clone|conditional-copy|%s" % "; ".join(sorted(extra))[:80], rule="R-FLATTEN", where="%s:%s" % (fb.file, sets[0][1]["line"]), fn="Buffer::flat_clone",
                        what="the flattening loop stores a cell only when `%s`: every composited cell must be stored (what is visible is decided by Buffer::get_char alone)" % "; ".join(sorted(extra))[:120])
            ok = True       # the finding above is the report; do not report the generic copy finding as well
    chk.obligation(ok)
    if not ok:
        chk.finding("flat_clone|copy", rule="R-FLATTEN", where="%s:%s" % (fb.file, fb.line), fn="Buffer::flat_clone",
                    what="the flattening loop must store Buffer::get_char((x, y)) at the same (x, y)")
    return chk.finish("optimize: %d writes to the rewritten cell classified by switch arm; get_shape guards; flat_clone ranges %s." % (nw if ok_anchor else 0, [h for _, h, _ in ranges]))


def eb_type(b, op, f):
    pj = op.get("copy") or op.get("move")
    if pj is None:
        return None
    if pj.get("p"):
        return None
    return b.locals[pj["l"]]["t"]

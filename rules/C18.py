"""C18 — 8-bit attribute and code-page codecs are exact inverses on their domain.

  R-TABLE-INJ    from the compiled constants: CP437_TO_UNICODE (256) / ATARI_TO_UNICODE[0..128] / VIEWDATA tables / PETSCII
                 CHAR_TABLE and the reverse maps *as their initialisers build them* (range taken from the initialiser's MIR)
                 make  from(to(code)) == code  on the stated domains and  to(from(c)) == c  for [0-9A-Za-z ] — exhaustive
                 evaluation of the table model; the model itself is tied to the code by R-CONV-SHAPE.
  R-CONV-SHAPE   each convert_from_unicode is "lookup in the named reverse map, else identity", each convert_to_unicode is
                 "lookup in the named table, else identity" (return-value reconstruction).
  R-FLAG-ACCESS  the attribute flag constants are pairwise disjoint single bits; every is_X / set_is_X pair tests and sets the
                 same mask.
  R-CODEC-FLOW   per IceMode variant (CFG pruned to the variant) a bit-level dependency analysis of from_u8 and as_u8:
                 bit i of as_u8(from_u8(b)) depends on bit i of b and on nothing else; every field bit / flag that from_u8
                 derives from the byte is read back by as_u8 without interference from other fields.
Not decided: the exact mask arithmetic beyond dependencies."""
import re

from analysis import facts as F
from analysis.bitdep import BitDep, E
from analysis.expr import ExprBuilder, show

FLAGS = ["BOLD", "FAINT", "ITALIC", "BLINK", "UNDERLINE", "DOUBLE_UNDERLINE", "CONCEAL", "CROSSED_OUT", "DOUBLE_HEIGHT", "OVERLINE"]
ALNUM = [chr(c) for c in list(range(48, 58)) + list(range(65, 91)) + list(range(97, 123))] + [" "]


def strip(e):
    while e[0] in ("ref", "deref"):
        e = e[1]
    return e


def init_range(f, init_id):
    """(lo, hi_exclusive) of the `(a..b).for_each(..)` / `(a..=b)` loop in a reverse-map initialiser, and the table it reads"""
    b = f.bodies.get(init_id)
    if b is None:
        return None
    rng = None
    for bi, k, s in b.stmts():
        if s["k"] == "assign" and s["rv"]["k"] == "agg" and s["rv"].get("adt") == "std::ops::Range":
            v = [o.get("const", {}).get("val") for o in s["rv"]["ops"]]
            if None not in v:
                rng = (v[0], v[1])
    for bi, t in b.calls():
        if (t["callee"].get("resolved") or "").endswith("RangeInclusive::<Idx>::new"):
            v = [o.get("const", {}).get("val") for o in t["args"]]
            if None not in v:
                rng = (v[0], v[1] + 1)
    return rng


def closure_table(f, init_id):
    """name of the const table the initialiser's closure indexes, and whether it inserts (T[a], a)"""
    out = []
    for bid, b in f.bodies.items():
        if b.kind == "closure" and b.parent == init_id:
            eb = ExprBuilder(b)
            for bi, t in b.calls():
                if (t["callee"].get("resolved") or "").endswith("HashMap::<K, V, S, A>::insert"):
                    k = eb.operand(t["args"][1])
                    v = eb.operand(t["args"][2])
                    out.append((show(k), show(v), k, v))
            # which table
            tabs = set()
            for bi, k, s in b.stmts():
                if s["k"] == "assign":
                    for key in ("a",):
                        o = s["rv"].get(key)
                        if isinstance(o, dict) and "def" in o.get("const", {}):
                            tabs.add(o["const"]["def"])
            for pid, pb in f.bodies.items():
                if pb.kind == "promoted" and pb.j.get("promoted_of") == bid:
                    for bi, k, s in pb.stmts():
                        if s["k"] == "assign" and isinstance(s["rv"].get("a"), dict) and "def" in s["rv"]["a"].get("const", {}):
                            tabs.add(s["rv"]["a"]["const"]["def"])
            return out, tabs
    return out, set()


def direct_loop_form(f, init_id, tab, tlen):
    """(range, inserts, tables, blocks of the derivation insert) when the initialiser derives the map in a loop of its own"""
    b = f.bodies.get(init_id)
    if b is not None and not b.loop_heads():
        # `TABLE.iter().enumerate().map(|(a, c)| (*c, a)).collect()`: the same pairs, in table order
        eb = ExprBuilder(b)
        tname = tab.split("::")[-1]
        coll = [t for _, t in b.calls() if (t["callee"].get("resolved") or "").endswith("Iterator::collect")]
        if len(coll) == 1 and not any((t["callee"].get("resolved") or "").endswith("::insert") for _, t in b.calls()):
            src = eb.operand(coll[0]["args"][0])
            if src[0] == "call" and src[1].endswith("Iterator::map") and len(src[2]) == 2 and show(src[2][0]) == "enumerate(iter((&%s as &[char])))" % tname \
                    and src[2][1][0] == "agg" and str(src[2][1][1]).startswith("closure:"):
                cb = f.bodies.get(str(src[2][1][1])[len("closure:"):])
                if cb is not None:
                    ceb = ExprBuilder(cb)
                    rets = ret_exprs(cb, ceb)
                    if len(rets) == 1 and rets[0][0] == "agg" and rets[0][1] == "tuple" and len(rets[0][2]) == 2:
                        k, v = rets[0][2]
                        if show(k) == "*_2.1" and "_2.0" in show(v) and "_2.1" not in show(v):
                            return (0, tlen), [("T[i]", "i", k, v)], {tab}, {-1}
        return None, [], set(), set()
    if b is None or len(b.loop_heads()) != 1:
        return None, [], set(), set()
    loop = b.natural_loop(next(iter(b.loop_heads())))
    eb = ExprBuilder(b)
    tname = tab.split("::")[-1]
    ins, blocks, rng = [], set(), None
    for bi, t in b.calls():
        if bi not in loop or not (t["callee"].get("resolved") or "").endswith("HashMap::<K, V, S, A>::insert"):
            continue
        k, v = eb.operand(t["args"][1]), eb.operand(t["args"][2])
        ks, vs = show(k), show(v)
        blocks.add(bi)
        # the loop's iterator
        src = None
        for cb, ct in b.calls():
            if (ct["callee"].get("resolved") or "").endswith("IntoIterator>::into_iter") and cb not in loop:
                src = eb.operand(ct["args"][0])
        stxt = show(src) if src is not None else ""
        if src is not None and src[0] == "agg" and "Range" in str(src[1]) and "Inclusive" not in str(src[1]) and all(x[0] == "const" for x in src[2]):
            item = "(next(&iter) as Some).0"
            if ks == "%s[%s]" % (tname, item) and item in vs and vs.count("next(") == 1:
                rng = (src[2][0][1], src[2][1][1])
                ins.append(("T[i]", "i", k, v))
                continue
        if stxt == "enumerate(iter((&%s as &[char])))" % tname:
            if ks == "*(next(&iter) as Some).0.1" and "(next(&iter) as Some).0.0" in vs and vs.count("next(") == 1:
                rng = (0, tlen)
                ins.append(("T[i]", "i", k, v))
                continue
        ins.append((ks, vs, k, v))
    return rng, ins, ({tab} if rng is not None else set()), blocks


def ret_exprs(b, eb):
    out = []
    for bi, k in b.defs.get(0, []):
        e = eb.call_expr(b.blocks[bi]["term"]) if k == "term" else eb.rvalue(b.blocks[bi]["stmts"][k]["rv"])
        out.append(e)
    return out


def _subst(e, env, depth=0):
    if depth > 60 or not isinstance(e, (tuple, list)):
        return e
    if isinstance(e, tuple) and e and e[0] == "var" and e[1] in env:
        return env[e[1]]
    if isinstance(e, tuple):
        out = tuple(_subst(x, env, depth + 1) if isinstance(x, (tuple, list)) else x for x in e)
        # `*&x` / `&*x` introduced by passing a reference
        if out[0] == "deref" and out[1][0] == "ref":
            return out[1][1]
        return out
    return [_subst(x, env, depth + 1) if isinstance(x, (tuple, list)) else x for x in e]


def ret_exprs_inlined(f, b, eb):
    """the returned expressions, with a call of a small crate-local helper that makes up a whole return value replaced by the
    helper's own return values over the actual arguments (a converter that delegates to `translate(table, ch)`)"""
    out = []
    for e in ret_exprs(b, eb):
        hb = f.bodies.get(e[1]) if e[0] == "call" and isinstance(e[1], str) else None
        if hb is not None and hb.kind in ("fn", "method") and not hb.back_edges and hb.nblocks <= 40 and hb.argc == len(e[2]):
            heb = ExprBuilder(hb)
            env = {i + 1: a for i, a in enumerate(e[2])}
            for he in ret_exprs(hb, heb):
                vs = set()
                _vars(he, vs)
                if any(l > hb.argc for l in vs):
                    out.append(e)       # the helper computes through locals of its own: keep the call as it is
                    break
                out.append(_subst(he, env))
            continue
        out.append(e)
    return out


def _vars(e, out, depth=0):
    if depth > 60 or not isinstance(e, (tuple, list)):
        return
    if isinstance(e, tuple) and e and e[0] == "var":
        out.add(e[1])
        return
    for x in e:
        if isinstance(x, (tuple, list)):
            _vars(x, out, depth + 1)


def _calls(e, out, depth=0):
    if depth > 60 or not isinstance(e, (tuple, list)):
        return
    if isinstance(e, tuple) and e and e[0] == "call" and isinstance(e[1], str):
        out.add(e[1].split("::")[-1])
    for x in e:
        if isinstance(x, (tuple, list)):
            _calls(x, out, depth + 1)


def only_from_params(b, rets):
    """every returned expression mentions only the function's parameters (no local that was computed from them by a call:
    `let ch = if page == 1 { ch.to_ascii_uppercase() } else { ch }` makes the two directions disagree) and calls nothing but
    the map lookup"""
    bad = []
    for e in rets:
        vs, cs = set(), set()
        _vars(e, vs)
        _calls(e, cs)
        if any(l > b.argc for l in vs):
            bad.append("uses a derived local: %s" % show(e)[:80])
        elif cs - {"get", "deref", "from", "into", "index", "clone", "from_u32", "unwrap", "from_u32_unchecked", "contains_key"}:
            bad.append("calls %s: %s" % (sorted(cs - {"get", "deref"}), show(e)[:80]))
    return bad


def run(chk):
    f = F.load()
    chk.rules = ["R-TABLE-INJ", "R-CONV-SHAPE", "R-FLAG-ACCESS", "R-CODEC-FLOW"]
    chk.assumptions = ["std HashMap::insert/get semantics (later insert for an equal key wins)", "exact mask arithmetic is decided only up to bit dependencies"]
    # ------------------------------------------------------------------ converters: (module, forward table, reverse static, domain of exact inversion)
    convs = [
        ("ascii", "parsers::ascii::CP437Converter", "parsers::ascii::CP437_TO_UNICODE", "parsers::ascii::UNICODE_TO_CP437", 256),
        ("atascii", "parsers::atascii::CharConverter", "parsers::atascii::ATARI_TO_UNICODE", "parsers::atascii::UNICODE_TO_ATARI", 128),
        ("viewdata", "parsers::viewdata::CharConverter", "parsers::viewdata::constants::VIEWDATA_TO_UNICODE", "parsers::viewdata::constants::UNICODE_TO_VIEWDATA", None),
        ("mode7", "parsers::mode7::CharConverter", "parsers::mode7::constants::VIEWDATA_TO_UNICODE", "parsers::mode7::constants::UNICODE_TO_VIEWDATA", None),
    ]
    nchecked = 0
    for name, conv_ty, tab, rev, dom in convs:
        T = f.const_table(tab)
        if not chk.anchor(isinstance(T, list) and len(T) == 256, "R-TABLE-INJ", "anchor missing: table %s [char;256]" % tab):
            continue
        init = "<%s as std::ops::Deref>::deref::__static_ref_initialize" % rev
        rng = init_range(f, init)
        ins, tabs = closure_table(f, init)
        loop_ins = set()
        if not ins:
            # the derivation written as a plain loop in the initialiser: `for a in lo..hi { insert(T[a], a) }` or
            # `for (a, c) in T.iter().enumerate() { insert(*c, a) }`
            rng2, ins, tabs, loop_ins = direct_loop_form(f, init, tab, len(T))
            rng = rng2 if rng2 is not None else rng
        ok = rng is not None and len(ins) == 1 and any(t == tab for t in tabs)
        chk.obligation(ok)
        if not ok:
            chk.finding("%s|reverse-map-initialiser" % rev, rule="R-CONV-SHAPE", where="src/parsers/%s" % name, fn=rev,
                        what="reverse map initialiser not recognised as `(a..b).for_each(|a| res.insert(%s[a], a))`: range=%s inserts=%s tables=%s" % (tab.split("::")[-1], rng, [(i[0], i[1]) for i in ins], sorted(tabs)))
            continue
        kshow, vshow = ins[0][0], ins[0][1]

        def plain_index(v, k):
            """the inserted code is the index itself (through casts / the checked char conversion), and the key is TABLE[that index]"""
            x = v
            for _ in range(8):
                if x[0] == "cast":
                    x = x[2]
                elif x[0] in ("deref", "ref"):
                    x = x[1]
                elif x[0] == "call" and x[1].split("::")[-1] in ("unwrap", "from_u32", "from", "into", "from_digit", "try_from", "expect") and len(x[2]) >= 1:
                    x = x[2][0]
                else:
                    break
            y = k
            while y[0] in ("deref", "ref", "cast"):
                y = y[2] if y[0] == "cast" else y[1]
            if y[0] == "index":
                iy = y[2]
                while iy[0] in ("cast", "deref", "ref"):
                    iy = iy[2] if iy[0] == "cast" else iy[1]
                return iy == x
            # enumerate / range-loop forms: the key is the item's element, the value its position (checked by direct_loop_form)
            return x[0] in ("field", "var")
        ok = (("[" in kshow and tab.split("::")[-1] in kshow) or (bool(loop_ins) and kshow == "T[i]")) and plain_index(ins[0][3], ins[0][2])
        chk.obligation(ok)
        if not ok:
            chk.finding("%s|reverse-map-insert" % rev, rule="R-CONV-SHAPE", where="src/parsers/%s" % name, fn=rev,
                        what="the initialiser does not insert (TABLE[a], a): insert(%s, %s)" % (kshow, vshow))
        REV = {}
        for a in range(rng[0], rng[1]):
            if 0 <= a < 256:
                REV[T[a]] = a
        # inserts made by the initialiser itself, outside the derivation closure (aliases appended afterwards): a later insert
        # for a key the derivation produced replaces the derived code
        ib = f.bodies.get(init)
        extra = [t for bi, t in ib.calls() if (t["callee"].get("resolved") or "").endswith("HashMap::<K, V, S, A>::insert") and bi not in loop_ins] if ib is not None else []
        if extra:
            pairs = []
            for bi, k, s2 in ib.stmts():
                if s2["k"] == "assign" and s2["rv"]["k"] == "agg" and s2["rv"].get("ak") == "tuple" and len(s2["rv"]["ops"]) == 2:
                    vv = [o.get("const", {}).get("val") for o in s2["rv"]["ops"]]
                    if None not in vv:
                        pairs.append((vv[0], vv[1]))
            tvals = {(ord(c) if isinstance(c, str) else c): a for c, a in REV.items()}
            clash = [(kk, vv2) for kk, vv2 in pairs if kk in tvals and tvals[kk] != vv2]
            ok = bool(pairs) and not clash
            chk.obligation(ok)
            if not ok:
                chk.finding("%s|reverse-map-extra-insert" % rev, rule="R-CONV-SHAPE", where="src/parsers/%s" % name, fn=rev,
                            what=("the initialiser inserts further entries after the derivation loop and %s: code(s) %s no longer come back from their own character" % (
                                "some replace derived entries" if clash else "their keys are not constants that can be compared with the table",
                                ", ".join("0x%02x" % tvals[kk] for kk, _ in clash) or "?")))
        # converter shapes
        shape_ok = True
        for meth, want in (("convert_from_unicode", rev.split("::")[-1]), ("convert_to_unicode", tab.split("::")[-1])):
            mb = f.method(conv_ty, meth, trait="parsers::UnicodeConverter")
            if not chk.anchor(mb is not None, "R-CONV-SHAPE", "anchor missing: %s::%s" % (conv_ty, meth)):
                shape_ok = False
                continue
            eb = ExprBuilder(mb)
            rexp = ret_exprs_inlined(f, mb, eb)
            rets = [show(e) for e in rexp]
            derived = only_from_params(mb, rexp)
            joined = " | ".join(rets)
            # the table read as `TABLE.get(k)` or as a guarded `TABLE[k]` of the converter's own character
            direct = re.compile(r"^\*?%s\[\((?:attributed_char\.)?ch as usize\)\]$" % re.escape(want))
            has_lookup = any(("get(" in r and want in r and "as Some" in r) or direct.match(r) for r in rets)
            has_ident = any(r in ("ch", "attributed_char.ch") for r in rets)
            extra = [r for r in rets if not ("get(" in r and want in r) and not direct.match(r) and r not in ("ch", "attributed_char.ch")]
            if name in ("viewdata", "mode7") and meth == "convert_from_unicode":
                extra = [r for r in extra if r != "32"]
            ok = has_lookup and has_ident and not extra and not derived
            chk.obligation(ok)
            if not ok:
                shape_ok = False
                chk.finding("%s::%s|shape" % (conv_ty, meth), rule="R-CONV-SHAPE", where="%s:%s" % (mb.file, mb.line), fn="%s::%s" % (conv_ty, meth),
                            what="converter is not `lookup in %s, else identity`: returns %s" % (want, joined[:160]))
        space_special = name in ("viewdata", "mode7")

        def frm(ch):
            if space_special and ch == 32:
                return 32
            return REV.get(ch, ch)

        def to(code):
            return T[code] if 0 <= code < 256 else code
        # exact inversion on the stated domain
        if dom:
            for c in range(dom):
                ok = frm(to(c)) == c
                nchecked += 1
                chk.obligation(ok)
                if not ok:
                    chk.finding("%s|roundtrip-code|%d" % (name, c), rule="R-TABLE-INJ", where="src/parsers/%s" % name, fn=conv_ty,
                                what="code %d -> U+%04X -> %d: the %s converter does not map the code back to itself" % (c, to(c), frm(to(c)), name))
        for chs in ALNUM:
            ch = ord(chs)
            ok = to(frm(ch)) == ch
            nchecked += 1
            chk.obligation(ok)
            if not ok:
                chk.finding("%s|roundtrip-char|%r" % (name, chs), rule="R-TABLE-INJ", where="src/parsers/%s" % name, fn=conv_ty,
                            what="typed %r -> code %d -> U+%04X: not the same character" % (chs, frm(ch), to(frm(ch))))
    # PETSCII: two hash maps built from CHAR_TABLE
    ct = f.const_table("parsers::petscii::CHAR_TABLE")
    if chk.anchor(isinstance(ct, list) and len(ct) >= 90, "R-TABLE-INJ", "anchor missing: petscii CHAR_TABLE"):
        U2P = {}
        P2U = {}
        for k, v in ct:
            U2P[k] = v
        for k, v in ct:
            P2U[v] = k
        # shapes: UNICODE_TO_PETSCII = CHAR_TABLE.into_iter().collect(); PETSCII_TO_UNICODE = ….map(|(k, v)| (v, k)).collect()
        i1 = f.bodies.get("<parsers::petscii::UNICODE_TO_PETSCII as std::ops::Deref>::deref::__static_ref_initialize")
        i2 = f.bodies.get("<parsers::petscii::PETSCII_TO_UNICODE as std::ops::Deref>::deref::__static_ref_initialize")
        ok = i1 is not None and i2 is not None
        if ok:
            c1 = [t["callee"].get("resolved") or "" for _, t in i1.calls()]
            c2 = [t["callee"].get("resolved") or "" for _, t in i2.calls()]
            ok = any(x.endswith("Iterator::collect") for x in c1) and not any(x.endswith("Iterator::map") for x in c1) \
                and any(x.endswith("Iterator::collect") for x in c2) and any(x.endswith("Iterator::map") for x in c2)
            swap_ok = False
            for bid, b in f.bodies.items():
                if b.kind == "closure" and b.parent == (i2.id if i2 else None):
                    eb = ExprBuilder(b)
                    rets = ret_exprs(b, eb)
                    swap_ok = any(r[0] == "agg" and r[1] == "tuple" and [show(x) for x in r[2]] in (["_2.1", "_2.0"], ["v", "k"]) for r in rets)
            ok = ok and swap_ok
        chk.obligation(ok)
        if not ok:
            chk.finding("petscii|reverse-map-initialiser", rule="R-CONV-SHAPE", where="src/parsers/petscii/mod.rs", fn="PETSCII maps",
                        what="the PETSCII maps are not built as CHAR_TABLE.collect() / CHAR_TABLE.map(|(k, v)| (v, k)).collect()")
        pb_from = f.method("parsers::petscii::CharConverter", "convert_from_unicode", trait="parsers::UnicodeConverter")
        pb_to = f.method("parsers::petscii::CharConverter", "convert_to_unicode", trait="parsers::UnicodeConverter")
        for mb, want in ((pb_from, "UNICODE_TO_PETSCII"), (pb_to, "PETSCII_TO_UNICODE")):
            if not chk.anchor(mb is not None, "R-CONV-SHAPE", "anchor missing: petscii converter"):
                continue
            eb = ExprBuilder(mb)
            rexp = ret_exprs_inlined(f, mb, eb)
            rets = [show(e) for e in rexp]
            derived = only_from_params(mb, rexp)
            ok = any("get(" in r and want in r for r in rets) and any(r in ("ch", "ch.ch") for r in rets) and len(rets) == 2 and not derived
            chk.obligation(ok)
            if not ok:
                chk.finding("petscii::%s|shape" % mb.name, rule="R-CONV-SHAPE", where="%s:%s" % (mb.file, mb.line), fn=mb.short(),
                            what="converter is not `lookup in %s, else identity` of its own argument: %s %s" % (want, rets, "; ".join(derived)))
        for chs in ALNUM:
            ch = ord(chs)
            code = U2P.get(ch & 0xFF, ch)
            back = P2U.get(code & 0xFF, code)
            ok = back == ch
            nchecked += 1
            chk.obligation(ok)
            if not ok:
                chk.finding("petscii|roundtrip-char|%r" % chs, rule="R-TABLE-INJ", where="src/parsers/petscii/mod.rs", fn="petscii::CharConverter",
                            what="typed %r -> code %#x -> %#x: not the same character" % (chs, code, back))
        keys = [k for k, v in ct]
        vals = [v for k, v in ct]
        ok = len(set(keys)) == len(keys) and len(set(vals)) == len(vals)
        chk.obligation(ok)
        if not ok:
            chk.finding("petscii|CHAR_TABLE-not-bijective", rule="R-TABLE-INJ", where="src/parsers/petscii/mod.rs", fn="CHAR_TABLE",
                        what="CHAR_TABLE has duplicate keys or values")
    chk.floor("R-TABLE-INJ", "round-trip obligations over the tables", nchecked, 256 + 128 + 63 * 5)
    chk.sample("CP437: from(to(c)) == c for all 256 codes; ATASCII for 128; [0-9A-Za-z ] for 5 converters")
    # ------------------------------------------------------------------ R-FLAG-ACCESS
    consts = {n: f.const_table("text_attribute::attribute::" + n) for n in FLAGS}
    if chk.anchor(all(isinstance(v, int) for v in consts.values()), "R-FLAG-ACCESS", "anchor missing: attribute flag constants"):
        items = list(consts.items())
        for i, (n1, v1) in enumerate(items):
            ok = v1 != 0 and (v1 & (v1 - 1)) == 0
            chk.obligation(ok)
            if not ok:
                chk.finding("attribute::%s|not-single-bit" % n1, rule="R-FLAG-ACCESS", where="src/text_attribute.rs", fn="attribute", what="%s = %#x is not a single bit" % (n1, v1))
            for n2, v2 in items[i + 1:]:
                ok = v1 & v2 == 0
                chk.obligation(ok)
                if not ok:
                    chk.finding("attribute::%s|overlaps|%s" % (n1, n2), rule="R-FLAG-ACCESS", where="src/text_attribute.rs", fn="attribute", what="%s and %s share bits" % (n1, n2))
    acc = {}
    for b in f.bodies.values():
        if b.kind == "method" and b.impl_self_s == "text_attribute::TextAttribute" and b.name:
            m = re.match(r"^(set_)?is_(\w+)$", b.name)
            if m:
                acc.setdefault(m.group(2), {})["set" if m.group(1) else "get"] = b
    masks = {}
    for nm, pair in sorted(acc.items()):
        if "get" not in pair or "set" not in pair:
            continue
        gm = getter_mask(f, pair["get"])
        sm = setter_mask(f, pair["set"])
        ok = gm is not None and sm is not None and gm == sm
        chk.obligation(ok)
        masks[nm] = (gm, sm)
        if not ok:
            chk.finding("TextAttribute::is_%s|mask-mismatch" % nm, rule="R-FLAG-ACCESS", where="%s:%s" % (pair["get"].file, pair["get"].line), fn="is_%s/set_is_%s" % (nm, nm),
                        what="is_%s tests mask %s but set_is_%s sets/clears mask %s" % (nm, gm, nm, sm))
    chk.floor("R-FLAG-ACCESS", "is_X / set_is_X pairs", len(masks), 8)
    # ------------------------------------------------------------------ R-CODEC-FLOW
    fb = f.method("text_attribute::TextAttribute", "from_u8")
    ab = f.method("text_attribute::TextAttribute", "as_u8")
    ice = f.adts.get("buffers::IceMode")
    if chk.anchor(fb is not None and ab is not None and ice is not None, "R-CODEC-FLOW", "anchor missing: TextAttribute::from_u8 / as_u8 / IceMode"):
        variants = {v["name"]: v["discr"] for v in ice["variants"]}
        for mode, d in sorted(variants.items()):
            dec = analyse_from_u8(f, fb, d, masks)
            enc = analyse_as_u8(f, ab, d, masks)
            if not chk.anchor(dec is not None and enc is not None, "R-CODEC-FLOW", "codec bodies analysable in mode %s" % mode):
                continue
            # (A) bytes: as_u8(from_u8(b)) bit i depends exactly on byte bit i
            for i in range(8):
                comp = set()
                for atom in enc[i]:
                    comp |= dec.get(atom, set())
                ok = comp == {("b", i)}
                chk.obligation(ok)
                if not ok:
                    missing = ("b", i) not in comp
                    extra = sorted(x for x in comp if x != ("b", i))
                    chk.finding("codec|%s|byte-bit|%d|%s" % (mode, i, "lost" if missing else "interference:" + ",".join("%s%d" % x for x in extra)),
                                rule="R-CODEC-FLOW", where="%s:%s" % (ab.file, ab.line), fn="TextAttribute::as_u8 ∘ from_u8",
                                what="mode %s: bit %d of as_u8(from_u8(b)) depends on byte bits %s (must be exactly bit %d)" % (mode, i, sorted(comp), i))
            # (B) attributes: every field bit / flag that from_u8 derives from the byte must come back unchanged
            for atom, srcbits in sorted(dec.items()):
                if not srcbits:
                    continue
                back = set()
                for (_, i) in srcbits:
                    back |= enc[i]
                ok = back == {atom}
                chk.obligation(ok)
                if not ok:
                    missing = atom not in back
                    extra = sorted(x for x in back if x != atom)
                    chk.finding("codec|%s|attr|%s%d|%s" % (mode, atom[0], atom[1], "lost" if missing else "interference:" + ",".join("%s%d" % x for x in extra)),
                                rule="R-CODEC-FLOW", where="%s:%s" % (ab.file, ab.line), fn="TextAttribute::from_u8 ∘ as_u8",
                                what="mode %s: %s bit %d decoded from as_u8's output depends on %s (must be exactly itself)" % (mode, atom[0], atom[1], sorted(back)))
            chk.sample("mode %s: from_u8 derives %s; as_u8 bits read %s" % (mode, {("%s%d" % k): sorted(v) for k, v in sorted(dec.items()) if v},
                                                                            [sorted("%s%d" % x for x in enc[i]) for i in range(8)]))
    return chk.finish("Code-page tables evaluated exhaustively against the converter model (%d round-trip obligations), converter and "
                      "reverse-map shapes reconstructed from MIR, flag accessor masks compared, bit-level dependency analysis of "
                      "from_u8 / as_u8 per IceMode variant." % nchecked)


def getter_mask(f, b):
    eb = ExprBuilder(b)
    rets = ret_exprs(b, eb)
    if len(rets) != 1:
        return None
    e = rets[0]
    if e[0] == "bin" and e[1] in ("Eq", "Ne"):
        x, y = e[2], e[3]
        if x[0] == "bin" and x[1] == "BitAnd" and x[3][0] == "const" and strip(x[2])[0] == "field" and strip(x[2])[2] == "attr":
            m = x[3][1]
            if (e[1] == "Eq" and y == ("const", m)) or (e[1] == "Ne" and y == ("const", 0)):
                return m
    return None


def setter_mask(f, b):
    setm = clrm = None
    for bi, k, s in b.stmts():
        if s["k"] != "assign":
            continue
        proj = s["p"].get("p", [])
        if not (proj and proj[-1] != "*" and proj[-1][0] == "f" and proj[-1][2] == "attr"):
            continue
        rv = s["rv"]
        if rv["k"] == "bin" and rv["op"] == "BitOr" and "val" in rv["b"].get("const", {}):
            setm = rv["b"]["const"]["val"]
        elif rv["k"] == "bin" and rv["op"] == "BitAnd":
            # operand is Not(C) computed into a temp
            o = rv["b"]
            if "val" in o.get("const", {}):
                clrm = (~o["const"]["val"]) & 0xFFFF
            else:
                pj = o.get("copy") or o.get("move")
                if pj is not None:
                    for bi2, k2 in b.defs.get(pj["l"], []):
                        if k2 != "term":
                            r2 = b.blocks[bi2]["stmts"][k2]["rv"]
                            if r2["k"] == "un" and r2["op"] == "Not" and "val" in r2["a"].get("const", {}):
                                clrm = r2["a"]["const"]["val"]
    if setm is not None and clrm is not None and setm == clrm:
        return setm
    return None


def _prune_on(body, param_local, discr_value):
    def prune(bi, t):
        op = t["discr"]
        pj = op.get("copy") or op.get("move")
        if pj is None or "p" in pj:
            return None
        for b0, k in body.defs.get(pj["l"], []):
            if k == "term":
                continue
            rv = body.blocks[b0]["stmts"][k]["rv"]
            if rv["k"] == "discr" and rv["p"]["l"] == param_local and "p" not in rv["p"]:
                for v, tg in t["targets"]:
                    if v == discr_value:
                        return tg
                return t["otherwise"]
        return None
    return prune


def _mask_bits(m):
    return [i for i in range(16) if (m >> i) & 1]


def analyse_from_u8(f, b, discr, masks):
    """-> {attribute atom: set of byte-bit atoms}; atoms ('fg', j) ('bg', j) ('attr', j)"""
    byte = [frozenset([("b", i)]) for i in range(8)]

    def sources(pj):
        if pj["l"] == 1 and "p" not in pj:
            return byte
        if pj["l"] == 2:
            return [E] * 8
        return None
    by_id = {}
    for nm, (gm, sm) in masks.items():
        by_id["text_attribute::TextAttribute::set_is_" + nm] = ("set", sm)
        by_id["text_attribute::TextAttribute::is_" + nm] = ("get", gm)

    def call_model(an, t, args, cdep):
        res = t["callee"].get("resolved") or ""
        if res in by_id and by_id[res][0] == "set" and by_id[res][1] is not None:
            # &mut X: resolve the referent
            pj = t["args"][0].get("copy") or t["args"][0].get("move")
            key = None
            if pj is not None and "p" not in pj:
                for b0, k in b.defs.get(pj["l"], []):
                    if k != "term":
                        rv = b.blocks[b0]["stmts"][k]["rv"]
                        if rv["k"] == "ref":
                            key = an.key_of(rv["p"])
            if key is None:
                return None
            v = an.allbits(args[1])
            k2 = (key[0], key[1] + ("attr",))
            old = an.env.get(k2) or [E] * 16
            new = list(old)
            for i in _mask_bits(by_id[res][1]):
                new[i] = old[i] | v | cdep
            an.env[k2] = new
            return "handled"
        if res.endswith("as std::default::Default>::default"):
            return "handled"
        return None
    an = BitDep(f, b, sources, call_model, _prune_on(b, 2, discr)).run()
    out = {}
    for fld, tag, w in (("foreground_color", "fg", 32), ("background_color", "bg", 32), ("attr", "attr", 16)):
        bits = an.env.get((0, (fld,)))
        if bits is None:
            bits = [E] * w
        for j, s in enumerate(bits):
            out[(tag, j)] = set(s)
    return out


def analyse_as_u8(f, b, discr, masks, self_p=1, ice_p=2, depth=0):
    """-> list of 8 sets of attribute atoms each result bit depends on.  self_p / ice_p: the parameters of `b` that hold the
    attribute and the ice mode (as_u8 itself: 1 and 2; a helper it delegates to may take them in other positions)"""
    def sources(pj):
        if pj["l"] == self_p:
            proj = pj.get("p", [])
            if len(proj) == 1 and proj[0] != "*" and proj[0][0] == "f":
                nm = proj[0][2]
                tag, w = {"foreground_color": ("fg", 32), "background_color": ("bg", 32), "attr": ("attr", 16), "font_page": ("fp", 64)}.get(nm, (None, None))
                if tag:
                    return [frozenset([(tag, i)]) for i in range(w)]
            if not proj:
                return None
        if ice_p is not None and pj["l"] == ice_p:
            return [E] * 8
        return None
    by_id = {}
    for nm, (gm, sm) in masks.items():
        by_id["text_attribute::TextAttribute::is_" + nm] = gm

    def origin(l):
        """which parameter of `b` the local is a plain copy of"""
        for _ in range(4):
            if 1 <= l <= b.argc:
                return l
            ds = b.defs.get(l, [])
            if len(ds) != 1 or ds[0][1] == "term":
                return None
            rv = b.blocks[ds[0][0]]["stmts"][ds[0][1]]["rv"]
            pj = (rv["a"].get("copy") or rv["a"].get("move")) if rv["k"] == "use" else None
            if pj is None or pj.get("p"):
                return None
            l = pj["l"]
        return None

    def call_model(an, t, args, cdep):
        res = t["callee"].get("resolved") or ""
        if res in by_id and by_id[res] is not None:
            pj = t["args"][0].get("copy") or t["args"][0].get("move")
            if pj is not None and "p" not in pj and origin(pj["l"]) == self_p:
                return [frozenset(("attr", i) for i in _mask_bits(by_id[res]))]
            return None
        # a helper of the crate that is handed (copies of) the attribute and the mode: its own dependencies
        hb = f.bodies.get(res)
        if hb is not None and hb.kind in ("fn", "method") and depth < 3 and res not in by_id and hb.argc == len(t["args"]):
            pos = {}
            for i, a_ in enumerate(t["args"]):
                pj = a_.get("copy") or a_.get("move")
                o_ = origin(pj["l"]) if (pj is not None and not pj.get("p")) else None
                if o_ is None:
                    return None
                pos[i + 1] = o_
            sp = [i for i, o_ in pos.items() if o_ == self_p]
            ip_ = [i for i, o_ in pos.items() if ice_p is not None and o_ == ice_p]
            if len(sp) == 1 and len(sp) + len(ip_) == len(pos):
                r = analyse_as_u8(f, hb, discr, masks, sp[0], ip_[0] if ip_ else None, depth + 1)
                if r is not None:
                    w = gf_width(f, hb)
                    return [frozenset(x) for x in (r + [set()] * w)[:w]]
        return None
    an = BitDep(f, b, sources, call_model, _prune_on(b, ice_p, discr) if ice_p is not None else None).run()
    bits = an.env.get((0, ()))
    if bits is None:
        return None
    if depth:
        return [set(x) for x in bits]
    return [set(x) for x in (bits + [E] * 8)[:8]]


def gf_width(f, hb):
    ty = f.types[hb.locals[0]["t"]]
    return {"u8": 8, "i8": 8, "u16": 16, "i16": 16, "u32": 32, "i32": 32, "u64": 64, "i64": 64, "usize": 64, "isize": 64, "bool": 1}.get(ty.get("n") or ty.get("s"), 32)

"""C13 — layer compositing obeys the stacking laws (path rules on <Buffer as TextPane>::get_char).

  R-VIS      every Layer::get_char on an element of self.layers is reached only with that layer's properties.is_visible true
             and with the queried position proven inside [0,width) x [0,height) of that layer (abstract interpretation);
             R-COVER: a layer is skipped by the extent test only when the position is provably outside that rectangle.
  R-OFFSET   the position handed to Layer::get_char is `pos - layer.get_offset()` of the same layer (the Sub impl).
  R-TOPDOWN  the walk iterates Rev<Range<usize>> over 0..layers.len() and indexes layers with the loop value.
  R-OPAQUE   in Mode::Normal no path returns to the loop head without having tested has_alpha_channel true (an opaque
             layer hides everything beneath it).
  R-TOPMOST  inside the walk `transparent_char` is only overwritten when it is None (the topmost transparent cell wins),
             except on paths that return.
Not decided: the colour resolution of transparent-colour (half-block) cells."""
import re
from analysis import facts as F
from analysis.expr import ExprBuilder, show
from rules import panic_common as P

GET_CHAR = "<layer::Layer as TextPane>::get_char"


def strip(e):
    while e[0] in ("ref", "deref"):
        e = e[1]
    return e


QUERY_ARGC = [None]       # number of parameters of Buffer::get_char (set by run): its position argument is a parameter, whatever its name


def _is_param(v):
    return v[0] == "var" and isinstance(v[1], int) and QUERY_ARGC[0] is not None and 2 <= v[1] <= QUERY_ARGC[0]


def is_query_pos(e):
    """the function's position argument (possibly through `.into()`)"""
    if _is_param(e):
        return True
    return e[0] == "call" and e[1].endswith("Into::into") and len(e[2]) == 1 and _is_param(e[2][0])


# ===================================================================================================== R-HALFBLOCK
def half_block(chk, f):
    """HalfBlock::from (what a see-through half of a cell is resolved against): the colour of the upper half is decided by the
    pixel count of the upper rows of the glyph beneath, the colour of the lower half by that of the lower rows - two sibling
    computations that must not be crossed.  Decided only when both counts are recognised (index form `data[i]` /
    `data[len / 2 + i]`, or the two sides of `split_at(len / 2)` zipped); otherwise nothing is claimed."""
    b = f.bodies.get("paint::half_block::HalfBlock::from")
    adt = f.adts.get("paint::half_block::HalfBlock")
    if b is None or adt is None:
        return
    eb = ExprBuilder(b)
    names = [x[0] for x in adt["variants"][0]["fields"]]
    if "upper_block_color" not in names or "lower_block_color" not in names:
        return

    def half_of(acc):
        """'first' / 'second' / None: which rows the accumulator local sums"""
        for bi, k in b.defs.get(acc, []):
            if k == "term":
                continue
            e = eb.rvalue(b.blocks[bi]["stmts"][k]["rv"])
            txt = show(e)
            if "count_ones(" not in txt:
                continue
            # index form
            idx = None

            def find_index(x, depth=0):
                nonlocal idx
                if depth > 40 or not isinstance(x, (tuple, list)):
                    return
                if isinstance(x, tuple) and x and x[0] == "call" and isinstance(x[1], str) and x[1].endswith("::index") and len(x[2]) == 2 and ".data" in show(x[2][0]):
                    idx = x[2][1]
                    return
                if isinstance(x, tuple) and x and x[0] == "index" and ".data" in show(x[1]):
                    idx = x[2]
                    return
                for y in x:
                    if isinstance(y, (tuple, list)):
                        find_index(y, depth + 1)
            find_index(e)
            if idx is not None:
                it = show(idx)
                if "len(" in it and "/ 2" in it and "+" in it:
                    return "second"
                if "len(" not in it and "next(" in it:
                    return "first"
                return None
            # zip form: (next(..) as Some).0.0 / .0.1 of zip(iter(split_at(..).0), split_at(..).1)
            m = re.search(r"\(next\(&\w*\) as Some\)\.0\.([01])\b", txt)
            if m and any((t["callee"].get("resolved") or "").endswith("::split_at") for _, t in b.calls()) \
                    and any((t["callee"].get("resolved") or "").endswith("Iterator::zip") for _, t in b.calls()):
                zips = [t for _, t in b.calls() if (t["callee"].get("resolved") or "").endswith("Iterator::zip")]
                z0, z1 = show(eb.operand(zips[0]["args"][0])), show(eb.operand(zips[0]["args"][1]))
                if ".0" in z0.split("split_at")[-1] and ".1" in z1.split("split_at")[-1]:
                    return "first" if m.group(1) == "0" else "second"
                return None
        return None
    checked = 0
    for bi, k, st in b.stmts():
        if st["k"] != "assign" or st["rv"]["k"] != "agg" or not (st["rv"].get("adt") or "").endswith("half_block::HalfBlock"):
            continue
        ops = dict(zip(names, st["rv"]["ops"]))
        res = {}
        for fld in ("upper_block_color", "lower_block_color"):
            pj = ops[fld].get("copy") or ops[fld].get("move")
            if pj is None or pj.get("p"):
                continue
            l_ = pj["l"]
            for _ in range(4):              # through plain copies into temporaries
                ds_ = b.defs.get(l_, [])
                if len(ds_) == 1 and ds_[0][1] != "term":
                    r_ = b.blocks[ds_[0][0]]["stmts"][ds_[0][1]]["rv"]
                    q_ = (r_["a"].get("copy") or r_["a"].get("move")) if r_["k"] == "use" else None
                    if q_ is not None and not q_.get("p"):
                        l_ = q_["l"]
                        continue
                break
            accs = set()
            for db, dk in b.defs.get(l_, []):
                for d in b.control_deps(db):
                    t = b.blocks[d]["term"]
                    if t["k"] != "switch":
                        continue
                    c = eb.operand(t["discr"])
                    if c[0] == "bin" and c[1] in ("Gt", "Ge", "Lt", "Le"):
                        for side in (c[2], c[3]):
                            x = side
                            while x[0] in ("cast", "ref", "deref"):
                                x = x[2] if x[0] == "cast" else x[1]
                            if x[0] == "var" and b.ty(x[1])["k"] == "int" and len(b.defs.get(x[1], [])) >= 2:
                                accs.add(x[1])
            if len(accs) == 1:
                res[fld] = half_of(next(iter(accs)))
        if res.get("upper_block_color") and res.get("lower_block_color"):
            checked += 1
            ok = res["upper_block_color"] == "first" and res["lower_block_color"] == "second"
            chk.obligation(ok)
            if not ok:
                chk.finding("HalfBlock::from|halves-crossed", rule="R-HALFBLOCK", where="%s:%s" % (b.file, st.get("line")), fn=b.short(),
                            what="the colour of the upper half is decided by the %s rows of the glyph and that of the lower half by the %s rows "
                                 "(expected: first / second)" % (res["upper_block_color"], res["lower_block_color"]))
    chk.cov["halfblock_sites_decided"] = checked


def run(chk):
    f = F.load()
    g, ip = P.shared(f)
    chk.rules = ["R-VIS", "R-COVER", "R-OFFSET", "R-TOPDOWN", "R-OPAQUE", "R-TOPMOST", "R-STATE-RESET", "R-HALFBLOCK", "R-INVISIBLE"]
    chk.assumptions = ["Layer::get_width/get_height return size.width/size.height (checked through their return summaries)",
                       "transparent-colour merging values are not decided"]
    b = f.bodies.get("<buffers::Buffer as TextPane>::get_char")
    if not chk.anchor(b is not None, "R-VIS", "anchor missing: <Buffer as TextPane>::get_char"):
        return chk.finish("anchor missing")
    key = "Buffer::get_char"
    QUERY_ARGC[0] = b.argc
    ip.sum.pop(b.id, None)
    ip.summary(b.id)
    res = ip.results[b.id]
    an = ip.an
    from analysis.absint import Analyzer
    an = Analyzer(f, interproc=ip)
    an.prune = False        # R-TOPMOST asks what a local held just before it is overwritten (dead by then)
    an.analyze(b, collect=False)
    ins = an.res.in_states
    eb = ExprBuilder(b)
    heads = b.loop_heads()
    if not chk.anchor(len(heads) == 1, "R-TOPDOWN", "exactly one loop in get_char (found %d)" % len(heads)):
        return chk.finish("unexpected shape")
    head = next(iter(heads))
    loop = b.natural_loop(head)
    # ------------------------------------------------------------------ R-TOPDOWN
    its = [(bi, t) for bi, t in b.calls() if (t["callee"].get("resolved") or "").endswith("IntoIterator>::into_iter") and bi not in loop]
    ok = False
    over_layers = False
    it_expr = None
    if its:
        it_expr = eb.operand(its[-1][1]["args"][0])
        e = it_expr
        over_layers = False
        if e[0] == "call" and e[1] == "std::iter::Iterator::rev" and e[2][0][0] == "agg" and e[2][0][1].startswith("adt:std::ops::Range::"):
            lo, hi = e[2][0][2]
            hi_s = strip(hi[1]) if hi[0] == "len" else None
            ok = lo == ("const", 0) and hi[0] == "len" and hi_s is not None and hi_s[0] == "field" and hi_s[2] == "layers"
        elif e[0] == "call" and e[1] == "std::iter::Iterator::rev":
            # `self.layers.iter().rev()` / `.iter().enumerate().rev()`: the elements themselves, last to first
            x = e[2][0]
            if x[0] == "call" and x[1] == "std::iter::Iterator::enumerate":
                x = x[2][0]
            if x[0] == "call" and x[1].split("::")[-1] in ("iter", "iter_mut"):
                y = strip(x[2][0])
                while y[0] == "call" and y[1].split("::")[-1] in ("deref", "deref_mut", "as_slice"):
                    y = strip(y[2][0])
                ok = y[0] == "field" and y[2] == "layers"
                over_layers = ok
    chk.obligation(ok)
    if not ok:
        chk.finding(key + "|walk-order", rule="R-TOPDOWN", where="%s:%s" % (b.file, b.line), fn=key,
                    what="the layer walk is neither `(0..self.layers.len()).rev()` nor `self.layers.iter()[.enumerate()].rev()`: %s" % (show(it_expr)[:100] if it_expr else "no iterator"))
    nexts = [(bi, t) for bi, t in b.calls() if bi in loop and (t["callee"].get("resolved") or "").endswith("as std::iter::Iterator>::next")]
    ok = len(nexts) == 1 and "Rev<" in (nexts[0][1]["callee"].get("resolved") or "")
    chk.obligation(ok)
    if not ok:
        chk.finding(key + "|walk-next", rule="R-TOPDOWN", where="%s:%s" % (b.file, b.line), fn=key, what="the loop does not advance a Rev<Range> iterator exactly once per iteration")
    # ------------------------------------------------------------------ the get_char calls
    gcs = [(bi, t) for bi, t in b.calls() if (t["callee"].get("resolved") or "") == GET_CHAR and bi in loop]
    chk.floor("R-VIS", "Layer::get_char calls in the walk", len(gcs), 2)
    layer_calls = []
    for bi, t in gcs:
        recv = strip(eb.operand(t["args"][0]))
        rs = show(recv)
        is_layer_elem = ("layers" in rs and ("index(" in rs or "[" in rs)) or (over_layers and "next(" in rs)
        layer_calls.append((bi, t, recv, is_layer_elem))
    chk.anchor(sum(1 for x in layer_calls if x[3]) >= 1, "R-VIS", "a Layer::get_char call on an element of self.layers")
    for bi, t, recv, is_elem in layer_calls:
        # R-OFFSET (also for the overlay layer)
        pe = eb.operand(t["args"][1])
        pe0 = pe
        ok = False
        why = show(pe)[:120]
        if pe[0] == "var":
            defs = b.defs.get(pe[1], [])
            if len(defs) == 1 and defs[0][1] == "term":
                dt = b.blocks[defs[0][0]]["term"]
                path = dt["callee"].get("resolved") or ""
                if path == "<position::Position as std::ops::Sub>::sub":
                    a0 = eb.operand(dt["args"][0])
                    a1 = eb.operand(dt["args"][1])
                    same = a1[0] == "call" and a1[1].endswith("Layer::get_offset") and show(strip(a1[2][0])) == show(recv)
                    base = is_query_pos(a0)
                    ok = same and base
                    why = "%s = sub(%s, %s)" % (show(pe), show(a0)[:40], show(a1)[:60])
                else:
                    why = "%s = %s(..)" % (show(pe), path)
        elif pe[0] == "call" and pe[1] == "<position::Position as std::ops::Sub>::sub":
            a0, a1 = pe[2]
            ok = a1[0] == "call" and a1[1].endswith("Layer::get_offset") and show(strip(a1[2][0])) == show(recv) and is_query_pos(a0)
        chk.obligation(ok)
        if not ok:
            chk.finding(key + "|offset|%s" % ("layer" if is_elem else "overlay"), rule="R-OFFSET", where="%s:%s" % (b.file, t["line"]), fn=key,
                        what="the queried position is not `pos - layer.get_offset()` of the same layer: %s" % why)
        if not is_elem:
            continue
        st = ins.get(bi)
        if st is None:
            chk.obligation(False)
            chk.finding(key + "|unreachable-call", rule="R-VIS", where="%s:%s" % (b.file, t["line"]), fn=key, what="get_char call not reached by the analysis")
            continue
        st = st.copy()
        an.b = b
        # replay the block's statements to get the state at the call
        for s in b.blocks[bi]["stmts"]:
            an.do_stmt(st, s)
        rv, rt = an.eval_op(st, t["args"][0])
        pv, pt = an.eval_op(st, t["args"][1])
        pj = t["args"][1].get("copy") or t["args"][1].get("move")
        pc = an.canon(st, pj) if pj else None
        if rv[0] != "ref" or rv[1] is None or pc is None:
            chk.obligation(False)
            chk.finding(key + "|extent-unresolved", rule="R-VIS", where="%s:%s" % (b.file, t["line"]), fn=key,
                        what="receiver / position of the get_char call cannot be resolved to places")
            continue
        lay = (rv[1], rv[2])
        px = st.sym.get((pc[0], pc[1] + ("x",))) or ("n", ("v", pc[0], pc[1] + ("x",)), 0)
        py = st.sym.get((pc[0], pc[1] + ("y",))) or ("n", ("v", pc[0], pc[1] + ("y",)), 0)
        w = ("n", ("v", lay[0], lay[1] + ("size", "width")), 0)
        h = ("n", ("v", lay[0], lay[1] + ("size", "height")), 0)
        vis = ("v", lay[0], lay[1] + ("properties", "is_visible"))
        checks = [
            ("visible", st.iv.get(vis, (None, None))[0] is not None and st.iv.get(vis)[0] >= 1, "the layer's is_visible flag is not known to be true"),
            ("x>=0", st.prove_le(("n", None, 0), px, 0), "position.x may be negative"),
            ("y>=0", st.prove_le(("n", None, 0), py, 0), "position.y may be negative"),
            ("x<width", st.prove_le(px, w, -1), "position.x may be >= layer width"),
            ("y<height", st.prove_le(py, h, -1), "position.y may be >= layer height"),
        ]
        for nm, ok, what in checks:
            chk.obligation(ok)
            if not ok:
                chk.finding(key + "|extent|" + nm, rule="R-VIS", where="%s:%s" % (b.file, t["line"]), fn=key,
                            what="a layer contributes although %s (hidden / non-covering layers must never contribute)" % what)
        chk.sample("get_char(layers[i], p) at %s:%s reached only with visible layer and 0<=p.x<width, 0<=p.y<height" % (b.file, t["line"]))
        # R-COVER: skip edges between the offset subtraction and the call prove that the position is outside
        sub_calls = [(x, tt) for x, tt in b.calls() if (tt["callee"].get("resolved") or "") == "<position::Position as std::ops::Sub>::sub"
                     and x in loop and b.dominates(x, bi) and x != bi]
        sub_blocks = [sub_calls[-1][0]] if sub_calls else []
        if sub_blocks:
            dl = sub_calls[-1][1]["dest"]["l"]
            pc = (dl, ())
            start = b.blocks[sub_blocks[0]]["term"].get("target")
            region = b.reachable_from(start, avoid={bi, head}) if start is not None else set()
            region = {x for x in region if bi in b.reachable_from(x, avoid={head})}
            nskip = 0
            for sb in sorted(region):
                tt = b.blocks[sb]["term"]
                if tt["k"] != "switch" or sb not in ins:
                    continue
                outs = an.transfer_block(sb, ins[sb].copy())
                for succ, so in outs:
                    if bi in b.reachable_from(succ, avoid={head}):
                        continue        # still on the way to the call
                    nskip += 1
                    px2 = so.sym.get((pc[0], pc[1] + ("x",))) or ("n", ("v", pc[0], pc[1] + ("x",)), 0)
                    py2 = so.sym.get((pc[0], pc[1] + ("y",))) or ("n", ("v", pc[0], pc[1] + ("y",)), 0)
                    outside = so.prove_le(px2, ("n", None, 0), -1) or so.prove_le(py2, ("n", None, 0), -1) or so.prove_le(w, px2, 0) or so.prove_le(h, py2, 0)
                    chk.obligation(outside)
                    if not outside:
                        chk.finding(key + "|cover|bb-skip", rule="R-COVER", where="%s:%s" % (b.file, tt["line"]), fn=key,
                                    what="a visible layer is skipped on a branch where the position is not provably outside its rectangle")
            chk.floor("R-COVER", "extent-test skip edges", nskip, 2)
    # ------------------------------------------------------------------ R-OPAQUE
    # the Mode switch after the layer's get_char; arm value 0 = Normal
    elem_calls = [x for x in layer_calls if x[3]]
    if elem_calls:
        cbi, ct = elem_calls[-1][0], elem_calls[-1][1]
        nxt = ct.get("target")
        sw = b.blocks[nxt]["term"] if nxt is not None else None
        mode_adt = f.adts.get("layer::Mode")
        normal = None
        if mode_adt:
            for v in mode_adt["variants"]:
                if v["name"] == "Normal":
                    normal = v["discr"]
        ok = False
        what = "mode dispatch not found after the layer's get_char"
        if sw is not None and sw["k"] == "switch" and normal is not None:
            d = eb.operand(sw["discr"])
            if d[0] == "discr" and "mode" in show(d):
                arm = [tg for v, tg in sw["targets"] if v == normal]
                if arm:
                    # blocks testing has_alpha_channel inside the arm
                    alpha_true_targets = set()
                    for sb in b.reachable_from(arm[0], avoid={head}):
                        tt = b.blocks[sb]["term"]
                        if tt["k"] == "switch":
                            dd = eb.operand(tt["discr"])
                            neg = False
                            while dd[0] == "un" and dd[1] == "Not":
                                neg = not neg
                                dd = dd[2]
                            if strip(dd)[0] == "field" and strip(dd)[2] == "has_alpha_channel":
                                zero = [tg for v, tg in tt["targets"] if v == 0]
                                t_true = tt["otherwise"] if not neg else (zero[0] if zero else None)
                                if t_true is not None:
                                    alpha_true_targets.add((sb, t_true))
                    if alpha_true_targets:
                        # paths from the arm entry to the loop head that avoid every "has_alpha == true" edge
                        avoid_edges = alpha_true_targets
                        seen = set()
                        stack = [arm[0]]
                        reach_head = False
                        while stack:
                            x = stack.pop()
                            if x in seen:
                                continue
                            seen.add(x)
                            if x == head:
                                reach_head = True
                                break
                            for s2 in b.succ[x]:
                                if (x, s2) in avoid_edges:
                                    continue
                                stack.append(s2)
                        ok = not reach_head
                        what = "in Mode::Normal the walk can continue below a layer without has_alpha_channel having been tested true (an opaque layer must hide everything beneath it)"
                    else:
                        what = "no test of has_alpha_channel in the Mode::Normal arm"
        chk.obligation(ok)
        if not ok:
            chk.finding(key + "|opaque", rule="R-OPAQUE", where="%s:%s" % (b.file, ct["line"]), fn=key, what=what)
    # ------------------------------------------------------------------ R-TOPMOST
    # the remembered topmost transparent cell: the user variable of type Option<AttributedChar> (whatever it is called)
    tlocals = [l for l in range(b.argc + 1, len(b.locals)) if b.lname(l) and b.tys(l).startswith("std::option::Option<attributed_char::AttributedChar")]
    nstores = 0
    if chk.anchor(len(tlocals) == 1, "R-TOPMOST", "the Option local `transparent_char`"):
        tl = tlocals[0]
        for sbi, k in b.defs.get(tl, []):
            if sbi not in loop:
                continue
            nstores += 1
            st = ins.get(sbi)
            ok = False
            if st is not None:
                st = st.copy()
                an.b = b
                if k != "term":
                    for s in b.blocks[sbi]["stmts"][:k]:
                        an.do_stmt(st, s)
                v = st.sym.get((tl, ()))
                is_none = v is not None and v[0] == "opt" and v[1] == "none"
                returns = head not in b.reachable_from(sbi)
                ok = is_none or returns
            chk.obligation(ok)
            if not ok:
                line = b.blocks[sbi]["stmts"][k]["line"] if k != "term" else b.blocks[sbi]["term"]["line"]
                chk.finding(key + "|topmost-overwrite", rule="R-TOPMOST", where="%s:%s" % (b.file, line), fn=key,
                            what="transparent_char is overwritten while it may already hold the cell of a higher layer (the topmost transparent cell must win)")
        chk.floor("R-TOPMOST", "stores to transparent_char inside the walk", nstores, 2)
    state_reset(chk, f)
    half_block(chk, f)
    invisible(chk, f, b, loop, head)
    return chk.finish("Buffer::get_char analysed (122 blocks): walk order, offset translation (Sub impl of the same layer), visibility and four-sided "
                      "extent facts at each Layer::get_char call (abstract interpretation), skip edges of the extent test, opaque-layer cut-off and "
                      "topmost-transparent-cell discipline.")


# ===================================================================================================== R-STATE-RESET
def _stores_of(b, field):
    out = set()
    for bi, k, s in b.stmts():
        if s["k"] == "assign":
            proj = s["p"].get("p") or []
            if proj and proj[-1] != "*" and proj[-1][0] == "f" and proj[-1][2] == field:
                out.add(bi)
    return out


def state_reset(chk, f):
    """The two pieces of state get_char's translation and stacking height are read from are re-set on every path of their
    setters: `Layer::set_offset` clears `preview_offset` (get_offset() prefers the preview) on every path except the early return
    for a position-locked layer, and `Buffer::get_overlay_layer(index)` stores `overlay_layer_index` on every path.  Otherwise
    the place / height a layer is composited at depends on the history of earlier calls."""
    from analysis.expr import ExprBuilder, show
    cases = [("layer::Layer", "set_offset", "preview_offset", "is_position_locked"),
             ("buffers::Buffer", "get_overlay_layer", "overlay_layer_index", None)]
    n = 0
    for owner, meth, field, exempt in cases:
        b = f.method(owner, meth)
        if not chk.anchor(b is not None, "R-STATE-RESET", "anchor missing: %s::%s" % (owner, meth)):
            continue
        stores = _stores_of(b, field)
        if not chk.anchor(bool(stores), "R-STATE-RESET", "%s::%s stores %s" % (owner, meth, field)):
            continue
        n += 1
        eb = ExprBuilder(b)
        # returns reachable from the entry without passing a store; the edge of a switch on the exempt flag that leads
        # away from every store (the documented early return) is not followed
        cut = set()
        if exempt is not None:
            for d in range(b.nblocks):
                t = b.blocks[d]["term"]
                if t["k"] == "switch" and exempt in show(eb.operand(t["discr"])):
                    for s2 in b.succ[d]:
                        if not (b.reachable_from(s2) & stores) and s2 not in stores:
                            cut.add((d, s2))
        seen, stack, leaks = set(), [0], []
        while stack:
            x = stack.pop()
            if x in seen or x in stores:
                continue
            seen.add(x)
            if b.blocks[x]["term"]["k"] == "return":
                leaks.append(x)
            stack.extend(s2 for s2 in b.succ[x] if (x, s2) not in cut)
        chk.obligation(not leaks)
        if leaks:
            chk.finding("%s::%s|%s-not-reset" % (owner.split("::")[-1], meth, field), rule="R-STATE-RESET", where="%s:%s" % (b.file, b.line), fn="%s::%s" % (owner, meth),
                        what="%s::%s can return without storing `%s`%s: what get_char composites then depends on an earlier call" % (
                            owner.split("::")[-1], meth, field, (" on a path that is not the `%s` early return" % exempt) if exempt else ""))
    chk.floor("R-STATE-RESET", "setters examined", n, 2)


# ===================================================================================================== R-INVISIBLE
def _locals_of(o, out):
    if isinstance(o, dict):
        if "l" in o and isinstance(o["l"], int):
            out.add(o["l"])
        for v in o.values():
            _locals_of(v, out)
    elif isinstance(o, (list, tuple)):
        for v in o:
            _locals_of(v, out)


def _local_cdeps(b, loop, head, block, _cache={}):
    """iteration-local control dependence inside the (single, inner-loop-free) walk: the switch blocks of the loop body on which
    the execution of `block` depends *within one iteration* (transitively).  Post-dominance is computed on the loop body with the
    back edges redirected to one virtual end-of-iteration node and the edges that leave the walk removed - the transitive relation of
    facts.control_deps would also contain the tests of the previous iteration, on which this one depends through early returns."""
    ck = (b.id, head)
    if ck not in _cache:
        END = -1
        nodes = sorted(loop)
        succ = {}
        for x in nodes:
            ss = set()
            for y in b.succ[x]:
                if y == head:
                    ss.add(END)
                elif y in loop:
                    ss.add(y)       # edges that leave the walk (an early return, the end of the stack) are not part of "the iteration goes on"
            succ[x] = ss
        pd = {x: set(nodes) | {END} for x in nodes}
        pd[END] = {END}
        ch = True
        while ch:
            ch = False
            for x in nodes:
                new = ({x} | set.intersection(*[pd[y] for y in succ[x]])) if succ[x] else pd[x]
                if new != pd[x]:
                    pd[x] = new
                    ch = True
        _cache[ck] = (succ, pd)
    succ, pd = _cache[ck]
    deps, work = set(), [block]
    while work:
        s0 = work.pop()
        for tb in loop:
            if tb in deps or b.blocks[tb]["term"]["k"] != "switch" or len(succ[tb]) < 2:
                continue
            if s0 != tb and s0 not in pd[tb] - {tb} and any(s0 in pd[y] for y in succ[tb] if y != -1):
                deps.add(tb)
                work.append(tb)
    return deps


def invisible(chk, f, b, loop, head):
    """R-INVISIBLE: inside the layer walk, a store into state that survives the iteration (a local live at the loop head:
    the pending character, attribute, transparent cell ...) of a value taken from the cell fetched with Layer::get_char happens
    only under a test of that cell (the store is control-dependent on a branch whose condition is computed from the cell -
    is_visible(), is_transparent(), a comparison of its colours - or the stored value itself is built from such a predicate,
    `pred.then_some(..)`).  Otherwise every cell of the layer, the invisible ones included, leaves something behind for the
    layers below it: "invisible cells of alpha layers never influence it" cannot hold."""
    key = "Buffer::get_char"
    carried = set(b.live_in[head])
    gets = [(bi, t) for bi, t in b.calls() if bi in loop and (t["callee"].get("resolved") or "") == GET_CHAR]
    if not chk.anchor(len(gets) >= 1, "R-INVISIBLE", "Layer::get_char call inside the walk (%d)" % len(gets)):
        return
    cell = {t["dest"]["l"] for _, t in gets if not t["dest"].get("p")}
    tainted = set(cell)          # locals holding (parts of) the fetched cell, this iteration only
    preds = set()                # booleans computed from the cell
    changed = True
    while changed:
        changed = False
        for bi in loop:
            blk = b.blocks[bi]
            for s in blk["stmts"]:
                if s["k"] != "assign":
                    continue
                d = s["p"]["l"]
                if d in carried:
                    continue            # what an earlier iteration left behind is not "this cell"
                used = set()
                _locals_of(s["rv"], used)
                if used & tainted and d not in tainted:
                    tainted.add(d); changed = True
                if used & preds and d not in preds:
                    preds.add(d); changed = True
            t = blk["term"]
            if t["k"] == "call" and not t["dest"].get("p"):
                d = t["dest"]["l"]
                if d in carried:
                    continue
                used = set()
                _locals_of(t["args"], used)
                if used & tainted:
                    if b.tys(d) == "bool":
                        if d not in preds:
                            preds.add(d); changed = True
                    elif d not in tainted:
                        tainted.add(d); changed = True
                if used & preds and d not in preds:
                    preds.add(d); changed = True      # `pred.then_some(cell.x)`: cell data *and* guarded by a test of the cell
    # comparisons of the cell's fields are predicates too (handled as tainted booleans)
    tests = set()
    for bi in loop:
        t = b.blocks[bi]["term"]
        if t["k"] == "switch":
            used = set()
            _locals_of(t["discr"], used)
            if used & (preds | {x for x in tainted if b.tys(x) == "bool"}):
                tests.add(bi)
    chk.anchor(len(tests) >= 2, "R-INVISIBLE", "branches on a property of the fetched cell inside the walk (%d)" % len(tests))
    n = 0
    for bi in sorted(loop):
        blk = b.blocks[bi]
        sites = []
        for s in blk["stmts"]:
            if s["k"] == "assign" and s["p"]["l"] in carried:
                used = set()
                _locals_of(s["rv"], used)
                if used & tainted:
                    sites.append((s["p"]["l"], s.get("line"), bool(used & preds)))
        t = blk["term"]
        if t["k"] == "call" and t["dest"]["l"] in carried:
            used = set()
            _locals_of(t["args"], used)
            if used & tainted:
                sites.append((t["dest"]["l"], t.get("line"), bool(used & preds)))
        if not sites:
            continue
        dep = bool(_local_cdeps(b, loop, head, bi) & tests)
        for d, line, guarded in sites:
            n += 1
            ok = guarded or dep
            chk.obligation(ok)
            if not ok:
                chk.finding(key + "|invisible|%s" % (b.lname(d) if hasattr(b, "lname") else d), rule="R-INVISIBLE", where="%s:%s" % (b.file, line), fn=key,
                            what="inside the layer walk a value taken from the fetched cell is kept for the layers below without any test of that cell "
                                 "(is_visible / is_transparent / its colours): invisible cells of the layer influence what is shown beneath it")
    # cell data handed, together with a `&mut` to walk-carried state, to a helper: where the helper tests the cell is not visible
    # from here - counted (the rule is not vacuous), never alarmed on
    handed = 0
    mutrefs = {}
    for bi in loop:
        for s in b.blocks[bi]["stmts"]:
            if s["k"] == "assign" and s["rv"]["k"] == "ref" and s["rv"].get("mut") and s["rv"]["p"]["l"] in carried and not s["p"].get("p"):
                mutrefs[s["p"]["l"]] = s["rv"]["p"]["l"]
    for bi in loop:
        t = b.blocks[bi]["term"]
        if t["k"] != "call":
            continue
        used = set()
        _locals_of(t["args"], used)
        if used & set(mutrefs) and used & tainted:
            handed += 1
    chk.cov["cell_data_handed_to_helpers"] = handed
    chk.floor("R-INVISIBLE", "stores of cell data into walk-carried state (direct or through a helper)", n + handed, 2)

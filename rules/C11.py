"""C11 — SAUCE metadata is cut off exactly (structural clauses; the value round trip of the strings is not decided).

R-SAUCE-AFFINE : the number of bytes `Buffer::write_sauce_info` appends, reconstructed as an affine function of the number of
                 comment lines n by a path-sum analysis of its MIR (push = 1, extend(<[u8; k]> / const slice) = k,
                 extend(s.bytes()) = proven len of s, to_le_bytes by type, SauceString<N, _>::append_to = N, the comment loop
                 = n x its per-iteration amount, which must be the same on every path through the loop body), must equal
                 what `SauceData::extract` computes as `sauce_header_len` from `num_comments`: 129 for n = 0 and
                 134 + 64 n otherwise; the count byte the writer stores must be comments.len().
R-SAUCE-CUT    : in `Buffer::from_bytes` the local that bounds the content slice is only ever `bytes.len()` or
                 `len - sauce.sauce_header_len` (who-writes rule on the local), and it is what the loaders are handed.
R-SAUCESTR-LEN : the fixed-width field type keeps its contents within the field: every place in the crate that builds a
                 `SauceString<LEN, _>` (aggregate) does so from a vector proven to hold at most LEN bytes, every function that
                 mutates the contents through `&mut self` ends with at most LEN bytes when it starts with none, and every call of
                 such a mutator is made on an empty string - decided per instantiation (20, 22, 35, 64) with the interval
                 analysis specialised to the const parameters.  Otherwise append_to writes more than LEN bytes and the
                 record is no longer 128 bytes long.
R-SAUCE-WIDTH  : `Buffer::set_sauce` may replace the record's width by a default only for the widths the property itself lets
                 it treat so (0 and more than 1000): analysed with the width of the record parameter assumed to lie in
                 1..=1000 on entry, every block that stores a constant into a `width` field must be unreachable.
R-SAUCE-EXACT  : every shift / add / mul on header bytes in `SauceData::extract` whose result type is narrower than 64 bits is
                 value preserving (no wrap), decided with the interval analysis."""
import re
from analysis import facts as F
from analysis.cg import CallGraph
from analysis.interproc import Interproc
from analysis.absint import Analyzer
from analysis.expr import ExprBuilder, show, see_through_try

WRITER = "sauce_mod::<impl buffers::Buffer>::write_sauce_info"
READER = "sauce_mod::SauceData::extract"
LOADER = "buffers::Buffer::from_bytes"
INT_SIZE = {"u8": 1, "i8": 1, "u16": 2, "i16": 2, "u32": 4, "i32": 4, "u64": 8, "i64": 8, "usize": 8, "isize": 8, "u128": 16, "i128": 16}


_FACTS = None


def affine(e, depth=0):
    """({atom: coef}, const) of an integer expression, or None"""
    if depth > 20:
        return None
    k = e[0]
    if k == "const":
        return ({}, e[1]) if isinstance(e[1], int) else None
    if k == "cast":
        return affine(e[2], depth + 1)
    if k == "bin" and e[1] in ("Add", "Sub", "AddO", "SubO"):
        a, b = affine(e[2], depth + 1), affine(e[3], depth + 1)
        if a is None or b is None:
            return None
        sg = 1 if e[1].startswith("Add") else -1
        out = dict(a[0])
        for x, v in b[0].items():
            out[x] = out.get(x, 0) + sg * v
        return ({x: v for x, v in out.items() if v}, a[1] + sg * b[1])
    if k == "bin" and e[1] in ("Mul", "MulO"):
        a, b = affine(e[2], depth + 1), affine(e[3], depth + 1)
        if a is None or b is None:
            return None
        if not a[0]:
            a, b = b, a
        if b[0]:
            return None
        return ({x: v * b[1] for x, v in a[0].items() if v * b[1]}, a[1] * b[1])
    if k == "call" and e[1].split("::")[-1] == "saturating_sub" and len(e[2]) == 2:
        # equal to a - b whenever the subtraction does not saturate (it saturates only for a record-only file)
        return affine(("bin", "Sub", e[2][0], e[2][1]), depth + 1)
    if (k == "call" and e[1].split("::")[-1] == "len") or k == "len":
        # the length of a constant (SAUCE_COMMENT_ID.len()) is a number
        arg0 = e[2][0] if k == "call" else e[1]
        x = arg0
        while isinstance(x, tuple) and x and x[0] in ("ref", "deref", "cast"):
            x = x[2] if x[0] == "cast" else x[1]
        if isinstance(x, tuple) and x and x[0] in ("def", "static", "const") and _FACTS is not None:
            c = _FACTS.consts.get(x[1]) if isinstance(x[1], str) else None
            if c is not None:
                if "slice_len" in c:
                    return ({}, c["slice_len"])
                ty = _FACTS.types[c["ty"]] if "ty" in c else None
                while ty is not None and ty["k"] == "ref":
                    ty = _FACTS.types[ty["e"]]
                if ty is not None and ty["k"] == "array" and ty.get("len") is not None:
                    return ({}, ty["len"])
        return ({"len(%s)" % show(arg0).replace("&", "").replace("*", "").strip("()"): 1}, 0)
    return ({show(e): 1}, 0)


# ===================================================================================================== R-SAUCE-FLAGS
def sauce_flags(chk, f, wb, rb):
    """The two flag fields the record's TFlags byte carries back (`use_letter_spacing`, `use_aspect_ratio`) are decoded by the
    reader as `(flags & MASK) == VALUE`.  The writer's flags byte is evaluated path by path (constant propagation over the
    acyclic part of write_sauce_info, forking at the tests of the two fields): on every path on which a field was tested true the
    byte, masked, equals the reader's VALUE, and on every path on which it was tested false it does not."""
    reb, web = ExprBuilder(rb), ExprBuilder(wb)
    adt = f.adts.get("sauce_mod::SauceData")
    names = [x[0] for x in adt["variants"][0]["fields"]] if adt else []
    # reader: bool local -> field; (mask, value) under which it is set true
    feeds = {}
    for bi, k, st in rb.stmts():
        if st["k"] == "assign" and st["rv"]["k"] == "agg" and (st["rv"].get("adt") or "").endswith("sauce_mod::SauceData"):
            for nm, o in zip(names, st["rv"]["ops"]):
                pj = o.get("copy") or o.get("move")
                if pj is not None and not pj.get("p") and nm in ("use_letter_spacing", "use_aspect_ratio"):
                    l = pj["l"]
                    for _ in range(4):          # through plain copies into temporaries
                        ds = rb.defs.get(l, [])
                        if len(ds) == 1 and ds[0][1] != "term":
                            r2 = rb.blocks[ds[0][0]]["stmts"][ds[0][1]]["rv"]
                            q = (r2["a"].get("copy") or r2["a"].get("move")) if r2["k"] == "use" else None
                            if q is not None and not q.get("p"):
                                l = q["l"]
                                continue
                        break
                    feeds[l] = nm
    decode = {}
    bad = []
    for bi in range(rb.nblocks):
        t = rb.blocks[bi]["term"]
        if t["k"] != "switch":
            continue
        d = reb.operand(t["discr"])
        if not (d[0] == "bin" and d[1] == "BitAnd" and ("const" in (d[2][0], d[3][0]))):
            continue
        mask = d[2][1] if d[2][0] == "const" else d[3][1]
        for val, tgt in t["targets"]:
            for s2 in rb.blocks[tgt]["stmts"]:
                if s2["k"] == "assign" and not s2["p"].get("p") and s2["p"]["l"] in feeds and s2["rv"]["k"] == "use" and "const" in s2["rv"]["a"]:
                    fld = feeds[s2["p"]["l"]]
                    if s2["rv"]["a"]["const"].get("val") == 1:
                        prev = decode.get(fld)
                        if prev is not None and prev != (mask, val):
                            bad.append("%s is decoded from two different patterns %s / %s" % (fld, prev, (mask, val)))
                        decode[fld] = (mask, val)
    if not chk.anchor(set(decode) == {"use_letter_spacing", "use_aspect_ratio"} and not bad, "R-SAUCE-FLAGS",
                      "reader: both flag fields are set true under one `(flags & MASK) == VALUE` each (found %s%s)" % (decode, "; " + "; ".join(bad) if bad else "")):
        return
    # writer: the byte local whose definitions are controlled by the tests of these fields
    tests = {}
    for bi in range(wb.nblocks):
        t = wb.blocks[bi]["term"]
        if t["k"] == "switch":
            d = web.operand(t["discr"])
            x = d
            while x[0] in ("ref", "deref", "cast"):
                x = x[2] if x[0] == "cast" else x[1]
            if x[0] == "field" and x[2] in decode and len(t["targets"]) == 1 and t["targets"][0][0] == 0:
                tests[bi] = (x[2], t["targets"][0][1], t.get("otherwise"))         # field, successor when false, when true
    if not chk.anchor(len({v[0] for v in tests.values()}) == 2, "R-SAUCE-FLAGS", "writer: tests of use_letter_spacing and use_aspect_ratio found"):
        return
    cands = set()
    for l in range(wb.argc + 1, len(wb.locals)):
        if wb.tys(l) != "u8":
            continue
        for bi, k in wb.defs.get(l, []):
            if any(tb in wb.control_deps(bi) for tb in tests):
                cands.add(l)
    # ... and the bytes computed from those (`flags |= match (a, b) { .. }`)
    grew = True
    while grew:
        grew = False
        for l in range(wb.argc + 1, len(wb.locals)):
            if wb.tys(l) != "u8" or l in cands:
                continue
            for bi, k in wb.defs.get(l, []):
                if k == "term":
                    continue
                rv = wb.blocks[bi]["stmts"][k]["rv"]
                for key in ("a", "b"):
                    o = rv.get(key)
                    pj = (o.get("copy") or o.get("move")) if isinstance(o, dict) else None
                    if pj is not None and not pj.get("p") and pj["l"] in cands:
                        cands.add(l)
                        grew = True
    if not chk.anchor(len(cands) >= 1, "R-SAUCE-FLAGS", "writer: a byte whose value depends on the two flag fields"):
        return
    # which of them is pushed into the record
    pushed = []
    for bi, t in wb.calls():
        if (t["callee"].get("resolved") or "").endswith("Vec::<T, A>::push") and len(t["args"]) == 2:
            e = web.operand(t["args"][1])
            if e[0] == "var" and e[1] in cands:
                pushed.append((bi, e[1]))
    if not chk.anchor(len(pushed) == 1, "R-SAUCE-FLAGS", "writer: the flags byte is pushed once (found %d)" % len(pushed)):
        return
    push_bi, TF = pushed[0]
    back = set(wb.back_edges)
    UNK = "?"

    def ev(op, env):
        if "const" in op:
            return op["const"].get("val", UNK)
        pj = op.get("copy") or op.get("move")
        if pj is None or pj.get("p"):
            return UNK
        return env.get(pj["l"], UNK)
    tracked = set(cands)
    # locals the byte is computed from (match results OR-ed in)
    grew = True
    while grew:
        grew = False
        for l in list(tracked):
            for bi, k in wb.defs.get(l, []):
                if k == "term":
                    continue
                rv = wb.blocks[bi]["stmts"][k]["rv"]
                for key in ("a", "b"):
                    o = rv.get(key)
                    pj = (o.get("copy") or o.get("move")) if isinstance(o, dict) else None
                    if pj is not None and not pj.get("p") and wb.tys(pj["l"]) == "u8" and pj["l"] not in tracked and pj["l"] > wb.argc:
                        tracked.add(pj["l"])
                        grew = True
    # forward propagation of (literals, values of the tracked locals) over the acyclic graph
    states = {0: {(frozenset(), frozenset())}}
    order = wb.rpo
    at_push = set()
    npaths = 0
    for bi in order:
        cur = states.get(bi)
        if not cur:
            continue
        outs = set()
        for lits, envf in cur:
            env = dict(envf)
            for st in wb.blocks[bi]["stmts"]:
                if st["k"] != "assign" or st["p"].get("p") or st["p"]["l"] not in tracked:
                    continue
                rv = st["rv"]
                v = UNK
                if rv["k"] == "use":
                    v = ev(rv["a"], env)
                elif rv["k"] == "bin" and rv["op"] in ("BitOr", "BitAnd", "BitXor", "Add", "AddO"):
                    a_, b_ = ev(rv["a"], env), ev(rv["b"], env)
                    if a_ != UNK and b_ != UNK:
                        v = {"BitOr": a_ | b_, "BitAnd": a_ & b_, "BitXor": a_ ^ b_}.get(rv["op"], (a_ + b_) & 0xFF)
                env[st["p"]["l"]] = v
            if bi == push_bi:
                at_push.add((lits, env.get(TF, UNK)))
            outs.add((lits, frozenset(env.items())))
        for sx in wb.succ[bi]:
            if (bi, sx) in back:
                continue
            for lits, envf in outs:
                l2 = lits
                if bi in tests:
                    fld, s_false, s_true = tests[bi]
                    if sx == s_false and sx != s_true:
                        l2 = lits | {(fld, False)}
                    elif sx == s_true and sx != s_false:
                        l2 = lits | {(fld, True)}
                    if (fld, True) in l2 and (fld, False) in l2:
                        continue
                tgt = states.setdefault(sx, set())
                if len(tgt) < 4096:
                    tgt.add((l2, envf))
    chk.floor("R-SAUCE-FLAGS", "writer paths reaching the flags byte", len(at_push), 4)
    nchecked = 0
    for lits, val in sorted(at_push, key=str):
        for fld, truth in sorted(lits):
            mask, want = decode[fld]
            nchecked += 1
            if val == UNK:
                ok = False
                why = "its value is not a constant the analysis can follow"
            else:
                ok = ((val & mask) == want) == truth
                why = "the byte is %#04x: masked with %#04x it is %#04x, the reader sets the field exactly for %#04x" % (val, mask, val & mask, want)
            chk.obligation(ok)
            if not ok:
                chk.finding("write_sauce_info|tflags|%s=%s" % (fld, truth), rule="R-SAUCE-FLAGS", where="%s:%s" % (wb.file, wb.line), fn="write_sauce_info",
                            what="on the path on which %s is %s (%s) %s: the flag does not come back as it was written" % (
                                fld, str(truth).lower(), ", ".join("%s=%s" % (a, str(b).lower()) for a, b in sorted(lits)), why))
    chk.floor("R-SAUCE-FLAGS", "flag literals checked against the reader's decode", nchecked, 4)


def run(chk):
    global _FACTS
    f = F.load()
    _FACTS = f
    g = CallGraph(f)
    ip = Interproc(f, g)
    chk.rules = ["R-SAUCE-AFFINE", "R-SAUCE-CUT", "R-SAUCE-EXACT", "R-SAUCESTR-LEN", "R-SAUCE-WIDTH", "R-SAUCE-FLAGS", "R-SAUCE-COUNT"]
    chk.assumptions = ["SauceString<N, _>::append_to appends exactly N bytes provided its contents are at most N bytes (that proviso is rule R-SAUCESTR-LEN)",
                       "lengths < 2^31; 64-bit offset arithmetic does not wrap"]
    wb, rb, lb = f.bodies.get(WRITER), f.bodies.get(READER), f.bodies.get(LOADER)
    if not (chk.anchor(wb is not None, "R-SAUCE-AFFINE", "anchor missing: write_sauce_info") and chk.anchor(rb is not None, "R-SAUCE-AFFINE", "anchor missing: SauceData::extract")
            and chk.anchor(lb is not None, "R-SAUCE-CUT", "anchor missing: Buffer::from_bytes")):
        return chk.finish("anchors missing")
    T = f.types
    # ================================================================== writer: appended bytes per block
    an = Analyzer(f, interproc=ip)
    an.analyze(wb, collect=False)
    web = ExprBuilder(wb)
    vec_param = None
    for i in range(1, wb.argc + 1):
        if wb.tys(i) == "&mut std::vec::Vec<u8>":
            vec_param = i
    chk.anchor(vec_param is not None, "R-SAUCE-AFFINE", "write_sauce_info has a &mut Vec<u8> parameter")

    def on_vec(op):
        r = ip._resolve_ref(wb, (op.get("copy") or op.get("move") or {}).get("l", -1)) if (op.get("copy") or op.get("move")) else None
        return r is not None and r[0] == vec_param and r[1] == ("*",) and not r[2]
    # a writer that hands the output vector to a crate-local helper (the comment block extracted into a function of its own) is
    # outside what this intraprocedural path-sum reconstructs: the writer-side clauses are then *undecided* - reported in the evidence,
    # never alarmed on (benign round F, patch C11_1)
    delegated = []
    for bi, t in wb.calls():
        path = t["callee"].get("resolved") or t["callee"].get("path") or ""
        if path.endswith("append_to") or path.startswith(("std::", "core::", "alloc::", "<std::", "<alloc::", "<core::")):
            continue
        if any(on_vec(a) for a in t["args"] if (a.get("copy") or a.get("move"))) and any(x in f.bodies for x in ip.callee_ids(wb, t)):
            delegated.append(path)
    chk.cov["writer_delegates_output_to"] = sorted(set(delegated))
    if delegated:
        chk.sample("write_sauce_info hands its output vector to %s: R-SAUCE-AFFINE's writer clauses are undecided on this tree" % sorted(set(delegated)))
    wfind = (lambda *a, **k: None) if delegated else chk.finding
    wobl = (lambda *a, **k: None) if delegated else chk.obligation
    wfloor = (lambda *a, **k: None) if delegated else chk.floor
    delta = {}
    unknown = []
    nappend = 0
    for bi, t in wb.calls():
        path = t["callee"].get("resolved") or t["callee"].get("path") or ""
        args = t["args"]
        d = None
        if path.endswith("Vec::<T, A>::push") and on_vec(args[0]):
            d = 1
        elif path.endswith("::extend") or path.endswith("::extend_from_slice"):
            if args and on_vec(args[0]):
                src = args[1]
                tix = None
                pj = src.get("copy") or src.get("move")
                if pj is not None:
                    tix = an.place_type(pj)
                elif "const" in src:
                    tix = src["const"].get("ty")
                ty = T[tix] if tix is not None else None
                if ty is not None and ty["k"] == "array":
                    d = ty["len"]
                elif ty is not None and ty["k"] == "ref" and T[ty["e"]]["k"] == "array":
                    d = T[ty["e"]]["len"]
                elif "const" in src and src["const"].get("def") and "slice_len" in (f.consts.get(src["const"]["def"]) or {}):
                    d = f.consts[src["const"]["def"]]["slice_len"]
                else:
                    # s.bytes(): the proven length of the string
                    if pj is not None and "p" not in pj:
                        for bj, kj in wb.defs.get(pj["l"], []):
                            if kj != "term":
                                continue
                            tj = wb.blocks[bj]["term"]
                            if not (tj["callee"].get("resolved") or "").endswith("::bytes"):
                                continue
                            st = an.state_before_term(bj)
                            if not st:
                                continue
                            v, _ = an.eval_op(st, tj["args"][0])
                            if v[0] == "ref" and v[1] is not None and not isinstance(v[1], str):
                                i = st.iv.get(("len", v[1], v[2]))
                                if i is not None and i[0] == i[1]:
                                    d = i[0]
                if d is None:
                    unknown.append((bi, t["line"], show(web.call_expr(t))[:80]))
                    d = 0
        elif path.endswith("SauceString::<LEN, EMPTY>::append_to") and len(args) >= 2 and on_vec(args[1]):
            pj = args[0].get("copy") or args[0].get("move")
            tix = an.place_type(pj) if pj is not None else None
            m = re.search(r"SauceString<(\d+), \d+>", T[tix]["s"]) if tix is not None else None
            if m:
                d = int(m.group(1))
            else:
                unknown.append((bi, t["line"], "append_to on %s" % (T[tix]["s"] if tix is not None else "?")))
                d = 0
        elif args and any(on_vec(a) for a in args if (a.get("copy") or a.get("move"))) and not path.endswith(("::len", "::is_empty", "::deref", "::deref_mut", "::as_slice")):
            unknown.append((bi, t["line"], show(web.call_expr(t))[:80]))
            d = 0
        if d is not None:
            delta[bi] = d
            nappend += 1
    wfloor("R-SAUCE-AFFINE", "append sites in write_sauce_info", nappend, 12)
    for bi, line, txt in unknown:
        wobl(False)
        wfind("write_sauce_info|unknown-append|%s" % txt[:60], rule="R-SAUCE-AFFINE", where="%s:%s" % (wb.file, line), fn="write_sauce_info",
                    what="bytes are appended to the output by a construct whose size is not statically known: %s" % txt)
    # loops: per-iteration amount must be path independent
    heads = wb.loop_heads()
    loops = {h: wb.natural_loop(h) for h in heads}
    loop_delta = {}
    for h, body in loops.items():
        # sums from head around back to head
        sums = {h: {0}}
        order = [x for x in wb.rpo if x in body]
        for x in order:
            for s in wb.succ[x]:
                if s in body and s != h:
                    sums.setdefault(s, set()).update({v + delta.get(x, 0) for v in sums.get(x, set())})
        back = set()
        for (tail, hd) in wb.back_edges:
            if hd == h:
                back |= {v + delta.get(tail, 0) for v in sums.get(tail, set())}
        loop_delta[h] = back
    writer_loop = [h for h in heads if any(delta.get(x) for x in loops[h])]
    ok_loop = len(writer_loop) == 1 and len(loop_delta[writer_loop[0]]) == 1
    wobl(ok_loop)
    if not ok_loop:
        wfind("write_sauce_info|comment-loop|%s" % sorted({v for h in writer_loop for v in loop_delta[h]}), rule="R-SAUCE-AFFINE", where="%s:%s" % (wb.file, wb.line),
                    fn="write_sauce_info", what="the comment loop does not append the same number of bytes on every iteration path: %s "
                    "(the count byte says how many 64-byte lines follow)" % {h: sorted(loop_delta[h]) for h in writer_loop})
    per_iter = next(iter(loop_delta[writer_loop[0]])) if ok_loop else None
    # the loop must iterate data.comments
    if writer_loop:
        h = writer_loop[0]
        nxt = [t for bi, t in wb.calls() if bi in loops[h] and (t["callee"].get("resolved") or "").endswith("Iterator>::next")]
        it_ok = False
        coll_local = [None]

        def coll_base(e):
            """what is iterated, below `&`, `*`, `.iter()` and `Deref::deref`"""
            for _ in range(8):
                if e[0] in ("ref", "deref"):
                    e = e[1]
                elif e[0] == "call" and e[1].split("::")[-1] in ("iter", "deref", "as_slice", "into_iter") and len(e[2]) == 1:
                    e = e[2][0]
                else:
                    break
            return e

        def is_comments_local(l):
            """a slice local every definition of which is `&<..>.comments` (possibly through deref) or a constant empty slice"""
            ds = wb.defs.get(l, [])
            if not ds:
                return False
            seen_field = False
            for bi_, k_ in ds:
                d_ = web.call_expr(wb.blocks[bi_]["term"]) if k_ == "term" else web.rvalue(wb.blocks[bi_]["stmts"][k_]["rv"])
                x_ = coll_base(d_)
                while x_[0] == "cast":
                    x_ = coll_base(x_[2])
                if x_[0] == "field" and x_[2] == "comments":
                    seen_field = True
                elif x_[0] in ("def", "const", "static", "repeat") or (x_[0] == "agg" and not x_[2]):
                    pass            # `&[]`
                else:
                    return False
            return seen_field

        def has_call(e):
            if not isinstance(e, tuple):
                return False
            if e and e[0] == "call":
                return True
            return any(has_call(x) if isinstance(x, tuple) else any(has_call(y) for y in x) if isinstance(x, list) else False for x in e[1:])
        for bi, t in wb.calls():
            if "IntoIterator" in (t["callee"].get("resolved") or "") and (t["callee"].get("resolved") or "").endswith("::into_iter") and t["args"]:
                a = web.operand(t["args"][0])
                txt = show(a)
                # the collection itself (`&data.comments`): no filter / skip / take adaptor between it and the loop;
                # `data` may be the payload of get_sauce(), so calls are allowed only below the field access
                m_it = re.fullmatch(r"iter\((?:&\*deref\()?(&.*\.comments)\)?\)", txt)
                if m_it:
                    txt = m_it.group(1)          # `data.comments.iter()` is the same traversal as `&data.comments`
                base = coll_base(a)
                if base is not None and base[0] == "var" and is_comments_local(base[1]):
                    coll_local[0] = base[1]
                    it_ok = all((tt["callee"].get("resolved") or "").startswith("<std::slice::Iter<") for tt in nxt)
                elif txt.endswith(".comments") and txt.startswith("&") and not any(w in txt for w in ("filter", "skip", "take", "step_by", "chain", "rev(")):
                    # and the loop's `next` is slice::Iter::next (not an adaptor's)
                    it_ok = all((tt["callee"].get("resolved") or "").startswith("<std::slice::Iter<") for tt in nxt)
        wobl(bool(nxt) and it_ok)
        if not (nxt and it_ok):
            wfind("write_sauce_info|comment-loop-source", rule="R-SAUCE-AFFINE", where="%s:%s" % (wb.file, wb.line), fn="write_sauce_info",
                        what="the loop that writes the comment block does not iterate over `comments`")
    # path sums over the DAG with the loop collapsed: sets of (const, k) = const + k * n * per_iter
    loop_blocks = set()
    for h in writer_loop:
        loop_blocks |= loops[h]
    sums = {0: {(0, 0)}}
    for x in wb.rpo:
        if x not in sums:
            continue
        for s in wb.succ[x]:
            if (x, s) in wb.back_edges:
                continue
            add = delta.get(x, 0)
            new = set()
            for (c, k) in sums[x]:
                if x in loop_blocks and s not in loop_blocks:
                    # leaving the loop: its body is accounted symbolically; drop what the single unrolled pass added
                    new.add((c, 1))
                else:
                    new.add((c + add, k))
            sums.setdefault(s, set()).update(new)
    # inside the loop the body's amounts were added once: subtract them again at the exit
    ret_sums = set()
    for x in wb.exits:
        for (c, k) in sums.get(x, set()):
            ret_sums.add((c, k))
    # classify return paths: the Err returns (Result::Err aggregates) are not "written" files
    ok_blocks = []
    for x in range(wb.nblocks):
        for s in wb.blocks[x]["stmts"]:
            if s["k"] == "assign" and s["p"]["l"] == 0 and s["rv"]["k"] == "agg" and "Ok" in str(s["rv"].get("variant", s["rv"].get("ak", ""))) + show(web.rvalue(s["rv"])):
                ok_blocks.append(x)
    final = set()
    for x in ok_blocks:
        final |= sums.get(x, set())
    # within the unrolled pass the loop body's own contribution was added before the exit edge: recompute precisely
    # (const parts: everything outside the loop)
    final_norm = set()
    for (c, k) in final:
        if k == 1 and per_iter is not None:
            # one unrolled iteration of the body may be included on the path that leaves through the head only if the head itself appends
            final_norm.add((c, k))
        else:
            final_norm.add((c, k))
    chk.sample("write_sauce_info appends: %s (const, uses comment loop) with %s bytes per comment" % (sorted(final_norm), per_iter))
    expect_w = {(129, 0), (134, 1)}
    okw = final_norm == expect_w and per_iter == 64
    wobl(okw)
    if not okw:
        wfind("write_sauce_info|appended|%s|per-comment %s" % (sorted(final_norm), per_iter), rule="R-SAUCE-AFFINE", where="%s:%s" % (wb.file, wb.line), fn="write_sauce_info",
                    what="the writer appends %s bytes (+ %s per comment line) after the content; the reader cuts 129 bytes without comments and 134 + 64 n with n comment lines" % (sorted(final_norm), per_iter))
    # the count byte = comments.len()
    # the count byte: the u8 local that receives `comments.len() as u8`
    cl = []
    the_coll = coll_local[0] if writer_loop else None

    def is_count(e):
        """`<comments>.len() as u8`, of the collection the loop walks"""
        if e[0] != "cast" or e[1] != "u8" or e[2][0] != "len":
            return False
        x = e[2][1]
        for _ in range(8):
            if x[0] in ("ref", "deref"):
                x = x[1]
            elif x[0] == "call" and x[1].split("::")[-1] in ("deref", "as_slice") and len(x[2]) == 1:
                x = x[2][0]
            else:
                break
        if the_coll is not None:
            return x[0] == "var" and x[1] == the_coll
        return x[0] == "field" and x[2] == "comments"
    for bi, k, s_ in wb.stmts():
        if s_["k"] == "assign" and not s_["p"].get("p"):
            v = show(web.rvalue(s_["rv"]))
            if is_count(web.rvalue(s_["rv"])) and s_["p"]["l"] not in cl and wb.lname(s_["p"]["l"]):
                cl.append(s_["p"]["l"])
    okc = False
    if len(cl) == 1:
        vals = []
        for bi, k in wb.defs.get(cl[0], []):
            if k != "term":
                vals.append(show(web.rvalue(wb.blocks[bi]["stmts"][k]["rv"])))
        # ... and it is what gets pushed
        pushed = any((t["callee"].get("resolved") or "").endswith("Vec::<T, A>::push") and on_vec(t["args"][0]) and
                     (t["args"][1].get("copy") or t["args"][1].get("move") or {}).get("l") == cl[0] for _, t in wb.calls())
        if not pushed:
            # pushed through a copy temp
            for _, t in wb.calls():
                if (t["callee"].get("resolved") or "").endswith("Vec::<T, A>::push") and on_vec(t["args"][0]):
                    e = web.operand(t["args"][1])
                    if (e[0] == "var" and e[1] == cl[0]) or is_count(e):
                        pushed = True
        if not pushed:
            vals.append("<not pushed>")
        lens = [v for v in vals if v.startswith("(len(") and v.endswith(" as u8)")]
        okc = bool(lens) and all(v == "0" or v in lens for v in vals) and len(set(lens)) == 1
        chk.sample("comment count byte: %s" % vals)
    wobl(okc)
    if not okc:
        wfind("write_sauce_info|count-byte", rule="R-SAUCE-AFFINE", where="%s:%s" % (wb.file, wb.line), fn="write_sauce_info",
                    what="the comment count byte is not `comments.len() as u8` (or 0 without comments)")
    # ------------------------------------------------------------------ R-SAUCE-COUNT: every legal number of comment lines is written
    # where the count byte `comments.len() as u8` is computed the interval analysis must still allow 255 lines: a guard that turns
    # away a count the format can express (`>= 255` for `> 255`) loses a legal record.  (An upper bound above 255 or none at all is
    # the truncation direction and not this rule's business.)
    anw = Analyzer(f, interproc=ip)
    anw.analyze(wb, collect=False)
    ncast = 0
    for bi in range(wb.nblocks):
        st = anw.res.in_states.get(bi)
        if st is None or st.bottom:
            continue
        for s_ in wb.blocks[bi]["stmts"]:
            if s_["k"] == "assign" and s_["rv"]["k"] == "cast" and is_count(web.rvalue(s_["rv"])):
                v, _ = anw.eval_op(st.copy(), s_["rv"]["a"])
                iv = st.val_iv(v) if v[0] in ("n", "iv") else (None, None)
                ncast += 1
                ok = iv[1] is None or iv[1] >= 255
                chk.obligation(ok)
                if not ok:
                    chk.finding("write_sauce_info|count-limit|%s" % iv[1], rule="R-SAUCE-COUNT", where="%s:%s" % (wb.file, s_.get("line")), fn="write_sauce_info",
                                what="where the comment count byte is computed the number of comment lines is at most %s: a record with %s..=255 comment lines, "
                                     "which the format can express, is refused by the writer" % (iv[1], iv[1] + 1))
    chk.cov["count_byte_casts"] = ncast
    # ================================================================== reader: sauce_header_len as a function of num_comments
    reb = ExprBuilder(rb)
    hdr = None
    for bi, k, s in rb.stmts():
        if s["k"] == "assign" and s["rv"]["k"] == "agg" and "SauceData" in show(reb.rvalue(s["rv"]))[:40]:
            # field sauce_header_len of the aggregate
            adt = f.adts.get("sauce_mod::SauceData")
            if adt:
                names = [x[0] for x in adt["variants"][0]["fields"]]
                if "sauce_header_len" in names:
                    idx = names.index("sauce_header_len")
                    ops = s["rv"].get("ops", [])
                    if idx < len(ops):
                        hdr = reb.operand(ops[idx])
    got = set()
    if chk.anchor(hdr is not None, "R-SAUCE-AFFINE", "SauceData { sauce_header_len: .. } aggregate found in extract"):
        # hdr = len(data) - offset ; offset = len - 1 ; len has two definitions
        hdr = see_through_try(f, hdr)
        a = affine(hdr)
        chk.sample("sauce_header_len = %s" % show(hdr))
        # substitute multi-def locals one level: find `var` atoms that are locals with several defs
        def expand(aff, depth=0):
            outs = [aff]
            if depth > 4:
                return outs
            res = []
            for (atoms, c) in outs:
                done = True
                for atom, coef in list(atoms.items()):
                    m = re.fullmatch(r"(\w+)", atom)
                    if not m:
                        continue
                    locs = [l for l in range(len(rb.locals)) if rb.lname(l) == atom]
                    if not locs:
                        continue
                    l = locs[0]
                    defs = [(bi, k) for bi, k in rb.defs.get(l, []) if k != "term"]
                    if not defs:
                        continue
                    done = False
                    for bi, k in defs:
                        e = see_through_try(f, reb.rvalue(rb.blocks[bi]["stmts"][k]["rv"]))
                        sub = affine(e)
                        if sub is None:
                            continue
                        na = {x: v for x, v in atoms.items() if x != atom}
                        for x, v in sub[0].items():
                            na[x] = na.get(x, 0) + coef * v
                        res += expand(({x: v for x, v in na.items() if v}, c + coef * sub[1]), depth + 1)
                    break
                if done:
                    res.append((atoms, c))
            return res
        if a is not None:
            for atoms, c in expand(a):
                key = tuple(sorted((re.sub(r"\s+", "", x), v) for x, v in atoms.items()))
                got.add((key, c))
        chk.sample("reader cuts: %s" % sorted(got))
        norm = set()
        for key, c in got:
            rest = [(x, v) for x, v in key if not x.startswith("len(")]
            if any(x.startswith("len(") for x, v in key):
                norm.add(("?", c))
            elif not rest:
                norm.add((0, c))
            elif len(rest) == 1:
                norm.add((rest[0][1], c))         # the single header byte the block size depends on (num_comments)
            else:
                norm.add(("?", c))
        okr = norm == {(0, 129), (64, 134)}
        chk.obligation(okr)
        if not okr:
            chk.finding("extract|header-len|%s" % sorted(norm, key=str), rule="R-SAUCE-AFFINE", where="%s:%s" % (rb.file, rb.line), fn="SauceData::extract",
                        what="sauce_header_len is not {129, 134 + 64 * num_comments}: %s" % sorted(norm, key=str))
    # ================================================================== R-SAUCE-CUT
    # What the loaders are handed is a prefix of `bytes` whose length is bytes.len() or bytes.len() minus the record's
    # sauce_header_len - followed through the definitions of the locals involved (moves, reborrows, match arms), whatever they
    # are called and wherever the slice is formed.
    leb = ExprBuilder(lb)
    bytes_param = [i for i in range(1, lb.argc + 1) if lb.tys(i) == "&[u8]"]
    if chk.anchor(len(bytes_param) == 1, "R-SAUCE-CUT", "anchor missing: the &[u8] parameter of Buffer::from_bytes"):
        BP = bytes_param[0]

        def single_defs(l):
            return lb.defs.get(l, [])

        def is_bytes(op, depth=0):
            """the operand is (a reborrow / copy of) the bytes parameter"""
            pj = op.get("move") or op.get("copy")
            if pj is None or depth > 6:
                return False
            if pj["l"] == BP and all(el == "*" for el in (pj.get("p") or ())):
                return True
            if pj.get("p"):
                return False
            ds = single_defs(pj["l"])
            if len(ds) != 1 or ds[0][1] == "term":
                return False
            rv = lb.blocks[ds[0][0]]["stmts"][ds[0][1]]["rv"]
            if rv["k"] == "use":
                return is_bytes(rv["a"], depth + 1)
            if rv["k"] == "ref" and all(el == "*" for el in (rv["p"].get("p") or ())):
                return is_bytes({"copy": {"l": rv["p"]["l"]}}, depth + 1)
            return False

        in_loop = set()
        for hd in lb.loop_heads():
            in_loop |= set(lb.natural_loop(hd))

        def len_shapes(op, depth=0, visiting=()):
            """[(ok, text)] over every definition of the length operand"""
            if "const" in op:
                return [(False, "constant %s" % op["const"].get("val"))]
            pj = op.get("move") or op.get("copy")
            if pj is None or pj.get("p") or depth > 6:
                return [(False, show(leb.operand(op))[:60])]
            if pj["l"] in visiting:
                # `len = len.saturating_sub(header)`: the local updated from itself (once: the statement is checked not to sit in a loop)
                return [(True, "itself")]
            visiting = tuple(visiting) + (pj["l"],)
            out = []
            for bi, k in single_defs(pj["l"]):
                if bi in in_loop and len(single_defs(pj["l"])) > 1:
                    out.append((False, "redefined inside a loop"))
                    continue
                if k == "term":
                    t = lb.blocks[bi]["term"]
                    path = t["callee"].get("resolved") or t["callee"].get("path") or ""
                    if path.endswith("<impl [T]>::len") and is_bytes(t["args"][0]):
                        out.append((True, "bytes.len()"))
                    elif path.endswith("::saturating_sub") and "sauce_header_len" in show(leb.operand(t["args"][1])):
                        out += [(ok, "saturating_sub(%s, header)" % tx) for ok, tx in len_shapes(t["args"][0], depth + 1, visiting)]
                    else:
                        out.append((False, show(leb.call_expr(t))[:60]))
                    continue
                rv = lb.blocks[bi]["stmts"][k]["rv"]
                if rv["k"] == "use":
                    src = rv["a"].get("move") or rv["a"].get("copy")
                    if src is not None and src.get("p") and len(src["p"]) == 1 and src["p"][0] != "*" and src["p"][0][0] == "f" and src["p"][0][1] == 0:
                        # the value of a checked subtraction: X - header
                        ds2 = single_defs(src["l"])
                        rv2 = lb.blocks[ds2[0][0]]["stmts"][ds2[0][1]]["rv"] if len(ds2) == 1 and ds2[0][1] != "term" else None
                        if rv2 is not None and rv2["k"] == "bin" and rv2["op"] in ("SubO", "Sub") and "sauce_header_len" in show(leb.operand(rv2["b"])):
                            out += [(ok, "%s - header" % tx) for ok, tx in len_shapes(rv2["a"], depth + 1, visiting)]
                        else:
                            out.append((False, show(leb.rvalue(rv))[:60]))
                    else:
                        out += len_shapes(rv["a"], depth + 1, visiting)
                elif rv["k"] == "bin" and rv["op"] in ("Sub",) and "sauce_header_len" in show(leb.operand(rv["b"])):
                    out += [(ok, "%s - header" % tx) for ok, tx in len_shapes(rv["a"], depth + 1, visiting)]
                else:
                    out.append((False, show(leb.rvalue(rv))[:60]))
            return out or [(False, "no definition")]

        def slice_shapes(op, depth=0):
            """[(ok, text)] over every definition of the slice operand handed to a loader"""
            if is_bytes(op):
                return [(True, "bytes")]
            pj = op.get("move") or op.get("copy")
            if pj is None or pj.get("p") or depth > 8:
                return [(False, show(leb.operand(op))[:60])]
            out = []
            for bi, k in single_defs(pj["l"]):
                if k == "term":
                    t = lb.blocks[bi]["term"]
                    path = t["callee"].get("resolved") or t["callee"].get("path") or ""
                    if path.endswith("::index") and len(t["args"]) == 2 and is_bytes(t["args"][0]):
                        rng = leb.operand(t["args"][1])
                        x = rng
                        while x[0] in ("ref", "deref"):
                            x = x[1]
                        if x[0] == "agg" and str(x[1]).endswith("RangeTo::RangeTo"):
                            # the end of the range: the operand of the aggregate
                            rp = t["args"][1].get("move") or t["args"][1].get("copy")
                            ds2 = single_defs(rp["l"]) if rp is not None and not rp.get("p") else []
                            rv2 = lb.blocks[ds2[0][0]]["stmts"][ds2[0][1]]["rv"] if len(ds2) == 1 and ds2[0][1] != "term" else None
                            if rv2 is not None and rv2["k"] == "agg":
                                out += [(ok, "&bytes[..%s]" % tx) for ok, tx in len_shapes(rv2["ops"][0])]
                            else:
                                out.append((False, show(rng)[:60]))
                        elif x[0] == "agg" and str(x[1]).endswith("RangeFull"):
                            out.append((True, "&bytes[..]"))
                        else:
                            out.append((False, "bytes[%s]" % show(rng)[:50]))
                    else:
                        out.append((False, show(leb.call_expr(t))[:60]))
                    continue
                rv = lb.blocks[bi]["stmts"][k]["rv"]
                if rv["k"] == "use":
                    out += slice_shapes(rv["a"], depth + 1)
                elif rv["k"] == "ref" and all(el == "*" for el in (rv["p"].get("p") or ())):
                    out += slice_shapes({"copy": {"l": rv["p"]["l"]}}, depth + 1)
                else:
                    out.append((False, show(leb.rvalue(rv))[:60]))
            return out or [(False, "no definition")]
        nslice = 0
        ndef = 0
        for bi, t in lb.calls():
            if "load_buffer" not in (t["callee"].get("resolved") or t["callee"].get("path") or ""):
                continue
            # the slice argument: the one of type &[u8]
            sl = [a for a in t["args"] if leb.b.tys((a.get("move") or a.get("copy") or {"l": 0})["l"]) == "&[u8]" and not (a.get("move") or a.get("copy") or {}).get("p")]
            if not chk.anchor(len(sl) == 1, "R-SAUCE-CUT", "a load_buffer call in from_bytes with one &[u8] argument"):
                continue
            nslice += 1
            shapes = slice_shapes(sl[0])
            ndef += len(shapes)
            bad = sorted({tx for ok, tx in shapes if not ok})
            chk.obligation(not bad)
            if bad:
                chk.finding("from_bytes|loader-arg", rule="R-SAUCE-CUT", where="%s:%s" % (lb.file, t["line"]), fn="Buffer::from_bytes",
                            what="a loader may be handed something else than a prefix of `bytes` of length bytes.len() or bytes.len() - sauce_header_len: %s" % "; ".join(bad)[:200])
        chk.sample("content slices handed to the loaders: %d calls, %d definitions followed" % (nslice, ndef))
        chk.floor("R-SAUCE-CUT", "load_buffer calls in from_bytes", nslice, 2)
        chk.floor("R-SAUCE-CUT", "definitions of the content slice / length followed", ndef, 2)
    # ================================================================== R-SAUCE-EXACT
    an2 = Analyzer(f, interproc=ip)
    an2.analyze(rb, collect=False)
    nar = 0
    for bi in range(rb.nblocks):
        st = an2.res.in_states.get(bi)
        if st is None or st.bottom:
            continue
        st = st.copy()
        for s in rb.blocks[bi]["stmts"]:
            if s["k"] == "assign" and s["rv"]["k"] == "bin" and s["rv"]["op"] in ("Shl", "Add", "Mul", "AddO", "MulO", "ShlO"):
                dt = an2.place_type(s["p"])
                ty = T[dt] if dt is not None else None
                op = s["rv"]["op"]
                if ty is not None and ty["k"] == "tuple":
                    ty = T[ty["args"][0]]
                if ty is not None and ty["k"] == "int" and INT_SIZE.get(ty["n"], 8) < 8:
                    a, _ = an2.eval_op(st, s["rv"]["a"])
                    b, _ = an2.eval_op(st, s["rv"]["b"])
                    ia = st.val_iv(a) if a[0] in ("n", "iv") else (None, None)
                    ib = st.val_iv(b) if b[0] in ("n", "iv") else (None, None)
                    hi = None
                    if ia[1] is not None and ib[1] is not None and ia[0] is not None and ia[0] >= 0 and ib[0] is not None and ib[0] >= 0:
                        hi = ia[1] << ib[1] if op.startswith("Shl") else ia[1] + ib[1] if op.startswith("Add") else ia[1] * ib[1]
                    bits = INT_SIZE[ty["n"]] * 8
                    tmax = (1 << (bits - 1)) - 1 if ty["n"].startswith("i") else (1 << bits) - 1
                    nar += 1
                    ok = hi is not None and hi <= tmax
                    chk.obligation(ok)
                    if not ok:
                        e = show(reb.rvalue(s["rv"]))
                        chk.finding("extract|lossy|%s|%s" % (ty["n"], e[:60]), rule="R-SAUCE-EXACT", where="%s:%s" % (rb.file, s["line"]), fn="SauceData::extract",
                                    what="`%s` is computed in %s and may wrap (operands up to %s and %s): a header field is decoded lossily" % (e[:80], ty["n"], ia[1], ib[1]))
            an2.do_stmt(st, s)
            if st.bottom:
                break
    chk.floor("R-SAUCE-EXACT", "narrow arithmetic operations in extract", nar, 4)
    nss = saucestr_len(chk, f, ip)
    sauce_width(chk, f, ip)
    sauce_flags(chk, f, wb, rb)
    return chk.finish("Writer: %d append sites, path sums %s, %s bytes per comment line; reader: header length %s; content length definitions and "
                      "%d narrow arithmetic operations of the header decoder checked; %d SauceString construction / mutation obligations (content <= field width)." % (nappend, sorted(final_norm), per_iter, sorted(got)[:2], nar, nss))


# ===================================================================================================== R-SAUCESTR-LEN
def _ss_insts(f, adt):
    out = set()
    for t in f.types:
        if t["k"] == "adt" and t.get("adt") == adt:
            m = re.search(r"<(\d+), (\d+)>$", t["s"])
            if m:
                out.add((int(m.group(1)), int(m.group(2))))
    return sorted(out)


def _touches_field(pj, adt):
    return any(el != "*" and el[0] == "f" and el[3] == adt for el in (pj.get("p") or ()))


def saucestr_len(chk, f, ip):
    from analysis.absdom import State
    adts = [k for k in f.adts if k.endswith("sauce_mod::SauceString")]
    if not chk.anchor(len(adts) == 1, "R-SAUCESTR-LEN", "anchor missing: the SauceString type"):
        return 0
    SS = adts[0]
    insts = _ss_insts(f, SS)
    chk.floor("R-SAUCESTR-LEN", "SauceString instantiations", len(insts), 4)
    nob = 0
    builders, mutators = [], []
    for bid, b in f.bodies.items():
        if "{promoted" in bid:
            continue
        aggs = [(bi, k) for bi, k, s in b.stmts() if s["k"] == "assign" and s["rv"]["k"] == "agg" and s["rv"].get("adt") == SS]
        muts = False
        for bi, k, s in b.stmts():
            if s["k"] != "assign":
                continue
            if _touches_field(s["p"], SS):
                muts = True
            rv = s["rv"]
            if rv["k"] == "ref" and rv.get("mut") and _touches_field(rv["p"], SS):
                muts = True
        if aggs:
            builders.append((b, aggs))
        if muts:
            mutators.append(b)
    chk.floor("R-SAUCESTR-LEN", "bodies that build a SauceString", len(builders), 3)
    chk.floor("R-SAUCESTR-LEN", "bodies that mutate a SauceString's contents", len(mutators), 1)

    def runs(b):
        """(LEN, analyzer) per instantiation for a generic body, one plain run otherwise"""
        generic = ip.uses_cparams(b.id) or "<LEN" in b.id
        for (ln, em) in (insts if generic else [(None, None)]):
            an = Analyzer(f, interproc=ip)
            if ln is not None:
                an.cargs = {0: ln, 1: em}
            yield ln, an

    def bound_ok(st, term, ln):
        hi = st.val_iv(("n", term, 0))[1]
        return hi is not None and ln is not None and hi <= ln

    # (a) aggregates: the vector handed to the constructor holds at most LEN bytes
    for b, aggs in builders:
        derived_clone = b.id.endswith("as std::clone::Clone>::clone")
        for ln, an in runs(b):
            an.analyze(b, collect=False)
            for bi, k in aggs:
                st = an.res.in_states.get(bi)
                s = b.blocks[bi]["stmts"][k]
                nob += 1
                ok = False
                why = "unreachable"
                if st is None or st.bottom:
                    ok = True
                else:
                    st = st.copy()
                    for s0 in b.blocks[bi]["stmts"][:k]:
                        an.do_stmt(st, s0)
                    op = s["rv"]["ops"][0]
                    pj = op.get("move") or op.get("copy")
                    c = an.canon(st, pj) if pj is not None else None
                    lim = ln
                    if lim is None:
                        # a concrete SauceString<N, _> built outside the impl: N from the destination type
                        m = re.search(r"SauceString<(\d+), \d+>", b.tys(s["p"]["l"]) if not s["p"].get("p") else "")
                        lim = int(m.group(1)) if m else None
                    if derived_clone and c is not None:
                        # #[derive(Clone)]: the operand is Vec::clone(&self.0), as long as the source - nothing to bound here
                        ok = True
                    elif c is not None:
                        ok = bound_ok(st, ("len", c[0], c[1]), lim)
                        why = "len <= %s not proven (upper bound %s)" % (lim, st.val_iv(("n", ("len", c[0], c[1]), 0))[1])
                chk.obligation(ok)
                if not ok:
                    chk.finding("%s|saucestr-build|LEN=%s" % (b.short(), ln), rule="R-SAUCESTR-LEN", where="%s:%s" % (b.file, s.get("line")), fn=b.short(),
                                what="a SauceString<%s, _> is built from a vector that may hold more than %s bytes (%s): append_to would write a longer field and shift the record" % (ln, ln, why))
    # (a') the writer of a field: called on a string of at most LEN bytes, with an (wlog) empty output vector, it leaves exactly
    # LEN bytes in the vector - what R-SAUCE-AFFINE takes an append_to to contribute
    writers = [b for b in f.bodies.values() if b.kind == "method" and (b.impl_self_s or "").startswith(SS) and not b.impl_trait and b.argc == 2
               and b.tys(1).startswith("&sauce_mod::SauceString<") and b.tys(2) == "&mut std::vec::Vec<u8>"]
    chk.floor("R-SAUCESTR-LEN", "field writers (&self, &mut Vec<u8>)", len(writers), 1)
    for b in writers:
        for ln, an in runs(b):
            st0 = State()
            st0.set_iv(("len", 1, ("*", "0")), 0, ln)
            st0.set_iv(("len", 2, ("*",)), 0, 0)
            an.analyze(b, entry=st0, collect=False)
            for bi, blk in enumerate(b.blocks):
                if blk["term"]["k"] != "return":
                    continue
                st = an.state_before_term(bi)
                if st is None or st.bottom:
                    continue
                nob += 1
                i = st.val_iv(("n", ("len", 2, ("*",)), 0))
                ok = i[0] == ln and i[1] == ln
                chk.obligation(ok)
                if not ok:
                    chk.finding("%s|saucestr-write|LEN=%s" % (b.short(), ln), rule="R-SAUCESTR-LEN", where="%s:%s" % (b.file, blk["term"].get("line")), fn=b.short(),
                                what="writing a SauceString<%s, _> of at most %s bytes appends between %s and %s bytes, not exactly %s: the record is no longer 128 bytes long" % (ln, ln, i[0], i[1], ln))
    # (b) mutators: empty on entry -> at most LEN bytes at every return; (c) their call sites start from an empty string
    for b in mutators:
        selfp = None
        for i in range(1, b.argc + 1):
            if b.tys(i).startswith("&mut sauce_mod::SauceString<"):
                selfp = i
        if selfp is None:
            nob += 1
            chk.obligation(False)
            chk.finding("%s|saucestr-mutate|no-self" % b.short(), rule="R-SAUCESTR-LEN", where=b.file, fn=b.short(),
                        what="the contents of a SauceString are modified outside a `&mut self` method of the type: the field-width invariant is not checked there")
            continue
        lt = ("len", selfp, ("*", "0"))
        for ln, an in runs(b):
            st0 = State()
            st0.set_iv(lt, 0, 0)
            an.analyze(b, entry=st0, collect=False)
            for bi, blk in enumerate(b.blocks):
                if blk["term"]["k"] != "return":
                    continue
                st = an.state_before_term(bi)
                if st is None or st.bottom:
                    continue
                nob += 1
                ok = bound_ok(st, lt, ln)
                chk.obligation(ok)
                if not ok:
                    chk.finding("%s|saucestr-mutate|LEN=%s" % (b.short(), ln), rule="R-SAUCESTR-LEN", where="%s:%s" % (b.file, blk["term"].get("line")), fn=b.short(),
                                what="called on an empty SauceString<%s, _> the method may leave more than %s bytes in it (upper bound %s)" % (ln, ln, st.val_iv(("n", lt, 0))[1]))
        # call sites
        for cb in f.bodies.values():
            sites = [(bi, t) for bi, t in cb.calls() if (t["callee"].get("resolved_local") or t["callee"].get("local")) == b.id or ip.base(str(t["callee"].get("resolved_local") or "")) == b.id]
            if not sites:
                continue
            an = Analyzer(f, interproc=ip)
            an.analyze(cb, collect=False)
            for bi, t in sites:
                st = an.state_before_term(bi)
                nob += 1
                ok = False
                if st is None or st.bottom:
                    ok = True
                else:
                    a0 = t["args"][selfp - 1]
                    pj = a0.get("move") or a0.get("copy")
                    v = an.eval_op(st, a0)[0]
                    if v[0] == "ref" and v[1] is not None and not isinstance(v[1], str):
                        hi = st.val_iv(("n", ("len", v[1], tuple(v[2]) + ("0",)), 0))[1]
                        ok = hi == 0
                chk.obligation(ok)
                if not ok:
                    chk.finding("%s|saucestr-call|%s" % (cb.short(), b.short().split("::")[-1]), rule="R-SAUCESTR-LEN", where="%s:%s" % (cb.file, t.get("line")), fn=cb.short(),
                                what="%s is called on a SauceString that is not proven empty: it appends up to LEN bytes to what is there" % b.short())
    return nob


# ===================================================================================================== R-SAUCE-WIDTH
SETTER = "buffers::Buffer::set_sauce"
LEGAL_WIDTH = (1, 1000)       # the property's own quantifier: widths 1..=1000 round-trip, 0 and larger values become 80


def sauce_width(chk, f, ip):
    from analysis.absdom import State
    b = f.bodies.get(SETTER)
    if not chk.anchor(b is not None, "R-SAUCE-WIDTH", "anchor missing: Buffer::set_sauce"):
        return
    # the stores in question: a constant written into a `width` field
    sites = []
    for bi, k, s in b.stmts():
        if s["k"] != "assign" or s["rv"]["k"] != "use" or "const" not in s["rv"]["a"]:
            continue
        proj = s["p"].get("p") or []
        if not proj or proj[-1] == "*" or proj[-1][0] != "f" or proj[-1][2] != "width":
            continue
        sites.append((bi, k, s))
    chk.floor("R-SAUCE-WIDTH", "constant stores into the record size's width", len(sites), 1)
    # the record handed in: the parameter of type Option<SauceData>; its width is assumed to be a legal one on entry
    par = [i for i in range(1, b.argc + 1) if "SauceData" in b.tys(i) and "Option" in b.tys(i)]
    if not chk.anchor(len(par) == 1, "R-SAUCE-WIDTH", "anchor missing: the Option<SauceData> parameter of set_sauce"):
        return
    wt = ("v", par[0], (("dc", "Some"), "0", "buffer_size", "width"))
    st0 = State()
    st0.set_iv(wt, LEGAL_WIDTH[0], LEGAL_WIDTH[1])
    an = Analyzer(f, interproc=ip)
    res = an.analyze(b, entry=st0, collect=False)
    # the assumption must have reached the code: some state after entry mentions the term or an alias of it
    used = any(st is not None and not st.bottom and any(v[0] == "n" and v[1] == wt for v in st.sym.values()) for st in res.in_states.values())
    chk.anchor(used, "R-SAUCE-WIDTH", "the width of the record parameter is read by set_sauce (the entry assumption reaches the code)")
    for bi, k, s in sites:
        st = res.in_states.get(bi)
        ok = st is None or st.bottom
        chk.obligation(ok)
        if not ok:
            chk.finding("set_sauce|width-default", rule="R-SAUCE-WIDTH", where="%s:%s" % (b.file, s.get("line")), fn="Buffer::set_sauce",
                        what="for a record whose width lies in %d..=%d the store of the constant %s into the size's width is still reachable: such a width does not survive loading" % (
                            LEGAL_WIDTH[0], LEGAL_WIDTH[1], s["rv"]["a"]["const"].get("val")))

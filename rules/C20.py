"""C20 — RIPscrip and IGS streams never crash (R-PANIC over root set GFX); stall clause: see R-MAG in C03's engine."""
from analysis import facts as F
from analysis import roots as R
from rules import panic_common as P


def run(chk):
    f = F.load()
    roots = R.gfx_roots(f)
    reviewed = P.run_scope(chk, "GFX", roots, floor_roots=4, floor_bodies=400, floor_sinks=300, reviewed_file="reviewed_safe.json")
    return P.finish(chk, reviewed, "No undischarged panic origin is reachable from the RIPscrip / IGS entry points.")

"""C20 — RIPscrip and IGS streams never crash (R-PANIC over root set GFX) + R-RIP-CURSOR (typestate of the RIP parameter
cursor, on which the variable-length commands' `pop().unwrap()` and the `command.as_mut().unwrap()` rely).
R-IMAGE-RECT: every bgi `Image` is built from a vector filled by one unconditional push inside two nested range loops whose
trip counts are the stored width and height (the invariant `data.len() == width * height` that put_image's indexing relies on).
The stall clause (loop counts / sleeps driven by parameters) and the canvas-completeness clause are not decided here."""
from analysis import facts as F
from analysis import roots as R
from analysis.expr import ExprBuilder, show
from rules import panic_common as P

RIP_PARSER = "parsers::rip::Parser"
RIP_STATE = "parsers::rip::State"


def _field_store(s, name, owner):
    if s["k"] != "assign":
        return False
    proj = s["p"].get("p", [])
    return bool(proj) and proj[-1] != "*" and proj[-1][0] == "f" and proj[-1][2] == name and proj[-1][3] == owner


def rip_cursor(chk, f):
    """every transition into State::ReadParams either starts a command (command = Some(..) and parameter_state = 0 are stored
    on the way, in the same body) or returns from the continuation-line state SkipEOL"""
    adt = f.adts.get(RIP_STATE)
    if not chk.anchor(adt is not None and any(v["name"] == "ReadParams" for v in adt["variants"]) and any(v["name"] == "SkipEOL" for v in adt["variants"]),
                      "R-RIP-CURSOR", "anchor missing: rip::State::{ReadParams, SkipEOL}"):
        return
    skip_discr = [v["discr"] for v in adt["variants"] if v["name"] == "SkipEOL"][0]
    nstores = 0
    nstart = 0
    for b in f.bodies.values():
        if b.kind not in ("fn", "method", "closure"):
            continue
        eb = None
        for bi, k, s in b.stmts():
            if not _field_store(s, "state", RIP_PARSER):
                continue
            eb = eb or ExprBuilder(b)
            val = show(eb.rvalue(s["rv"]))
            if "ReadParams" not in val:
                continue
            nstores += 1
            # (i) command start: both resets dominate the store (same block earlier, or a dominating block)
            def dominated_by(pred):
                for bj, kj, sj in b.stmts():
                    if pred(sj) and ((bj == bi and kj < k) or (bj != bi and b.dominates(bj, bi))):
                        return True
                return False
            cmd_some = dominated_by(lambda sj: _field_store(sj, "command", RIP_PARSER) and "Some" in show(eb.rvalue(sj["rv"])))
            cur_zero = dominated_by(lambda sj: _field_store(sj, "parameter_state", RIP_PARSER) and eb.rvalue(sj["rv"]) == ("const", 0))
            if cmd_some and cur_zero:
                nstart += 1
                chk.obligation(True)
                continue
            # (ii) back from a continuation line: the store is dominated by the SkipEOL arm of a switch on self.state
            ok = False
            for sb in range(b.nblocks):
                t = b.blocks[sb]["term"]
                if t["k"] != "switch":
                    continue
                d = show(eb.operand(t["discr"]))
                if "discr(" not in d or not d.rstrip(")").endswith("state"):
                    continue
                for val_, tgt in t.get("targets", []):
                    if val_ == skip_discr and tgt is not None and (tgt == bi or b.dominates(tgt, bi)):
                        ok = True
            chk.obligation(ok)
            if not ok:
                chk.finding("%s|readparams-without-reset" % b.short(), rule="R-RIP-CURSOR", where="%s:%s" % (b.file, s["line"]), fn=b.short(),
                            what="the parser enters State::ReadParams without storing command = Some(..) and parameter_state = 0 first "
                                 "(and not from the SkipEOL arm): the next command would be parsed at a stale parameter index, which the "
                                 "variable-length commands' pop().unwrap() and parse_parameter's command.as_mut().unwrap() rely on")
    chk.floor("R-RIP-CURSOR", "stores of State::ReadParams", nstores, 2)
    chk.floor("R-RIP-CURSOR", "command starts (command = Some, parameter_state = 0, state = ReadParams)", nstart, 1)
    # no other body resets the cursor concept away: parameter_state is only ever stored a constant 0 or incremented by one
    nps = 0
    for b in f.bodies.values():
        if b.kind not in ("fn", "method", "closure"):
            continue
        eb = None
        for bi, k, s in b.stmts():
            if not _field_store(s, "parameter_state", RIP_PARSER):
                continue
            eb = eb or ExprBuilder(b)
            e = eb.rvalue(s["rv"])
            nps += 1
            txt = show(e)
            ok = e == ("const", 0) or (e[0] == "bin" and e[1] in ("Add", "AddO") and ("const", 1) in (e[2], e[3]) and "parameter_state" in txt) \
                or (e[0] == "field" and "parameter_state" in txt)
            chk.obligation(ok)
            if not ok:
                chk.finding("%s|cursor-store|%s" % (b.short(), txt[:60]), rule="R-RIP-CURSOR", where="%s:%s" % (b.file, s["line"]), fn=b.short(),
                            what="parameter_state is assigned `%s` (expected: 0 at command start, +1 per accepted character)" % txt[:80])
    chk.floor("R-RIP-CURSOR", "stores to parameter_state", nps, 2)


# ===================================================================================================== R-IGS-LOOP
IGS_PARSER = "parsers::igs::Parser"


def igs_loop(chk, f):
    """the reviewed argument for `parsed_numbers[4]` in the IGS loop command ("LoopState::ReadParameter is only reached through
    ReadCommand, which pushes the fifth number ... '&' restarts the loop state machine at Start") is re-checked: every store of
    State::ReadCommand(LoopCommand) into the parser's `state` comes with a store of LoopState::Start into `loop_state` - in the
    same block, in a block that dominates it or in one that post-dominates it.  A loop state left behind by an abandoned loop
    would otherwise skip the step that pushes the fifth number."""
    n = 0
    for b in f.bodies.values():
        if b.kind not in ("fn", "method", "closure"):
            continue
        eb = None
        starts = None
        for bi, k, s in b.stmts():
            if not _field_store(s, "state", IGS_PARSER):
                continue
            eb = eb or ExprBuilder(b)
            val = show(eb.rvalue(s["rv"]))
            if not (val.startswith("ReadCommand{") and "LoopCommand" in val):
                continue
            n += 1
            if starts is None:
                starts = [bj for bj, kj, sj in b.stmts() if _field_store(sj, "loop_state", IGS_PARSER) and show(eb.rvalue(sj["rv"])).startswith("Start{")]
            ok = any(bj == bi or b.dominates(bj, bi) or b.postdominates(bj, bi) for bj in starts)
            chk.obligation(ok)
            if not ok:
                chk.finding("%s|loop-start-not-reset" % b.short(), rule="R-IGS-LOOP", where="%s:%s" % (b.file, s["line"]), fn=b.short(),
                            what="the IGS parser enters ReadCommand(LoopCommand) without storing loop_state = LoopState::Start: the state an "
                                 "abandoned loop left behind survives, the step that pushes the fifth number is skipped and parsed_numbers[4] is out of range")
    chk.floor("R-IGS-LOOP", "stores of State::ReadCommand(LoopCommand)", n, 1)


# ===================================================================================================== R-IMAGE-RECT
def image_rect(chk, f):
    """Every `Image { width, height, data }` built in the RIP emulation holds width x height bytes: the vector handed to `data`
    is filled by exactly one unconditional push inside two nested range loops whose trip counts (end - start, as affine
    forms over the function's variables) are the expressions stored as width and height."""
    from analysis.expr import ExprBuilder, show
    from rules.C11 import affine
    adts = [k for k in f.adts if k.endswith("rip::bgi::Image")]
    if not chk.anchor(len(adts) == 1, "R-IMAGE-RECT", "anchor missing: the bgi Image type"):
        return
    IMG = adts[0]
    fields = [nm for nm, _ in f.adts[IMG]["variants"][0]["fields"]]
    n = 0
    for bid, b in sorted(f.bodies.items()):
        if b.kind not in ("fn", "method", "closure"):
            continue
        aggs = [(bi, k, s) for bi, k, s in b.stmts() if s["k"] == "assign" and s["rv"]["k"] == "agg" and s["rv"].get("adt") == IMG]
        if not aggs:
            continue
        eb = ExprBuilder(b)
        for bi, k, s in aggs:
            n += 1
            ops = dict(zip(fields, s["rv"]["ops"]))
            why = None
            try:
                w, h = affine(eb.operand(ops["width"])), affine(eb.operand(ops["height"]))
                dpj = ops["data"].get("move") or ops["data"].get("copy")
                vec = dpj["l"] if dpj is not None and not dpj.get("p") else None
                # follow plain moves back to the vector the loops push into
                seen = set()
                while vec is not None and vec not in seen:
                    seen.add(vec)
                    ds = b.defs.get(vec, [])
                    if len(ds) == 1 and ds[0][1] != "term":
                        rv = b.blocks[ds[0][0]]["stmts"][ds[0][1]]["rv"]
                        if rv["k"] == "use" and ("move" in rv["a"] or "copy" in rv["a"]) and not (rv["a"].get("move") or rv["a"].get("copy")).get("p"):
                            vec = (rv["a"].get("move") or rv["a"].get("copy"))["l"]
                            continue
                    break
                if w is None or h is None or vec is None:
                    why = "width / height are not affine expressions, or the data operand is not a local vector"
                else:
                    pushes = []
                    for pb, t in b.calls():
                        p = t["callee"].get("resolved") or t["callee"].get("path") or ""
                        if p.startswith("std::vec::Vec::<T") and t["args"]:
                            a0 = t["args"][0].get("move") or t["args"][0].get("copy")
                            x = a0
                            # &mut vec through one reborrow temporary
                            tgt = None
                            if a0 is not None:
                                ds = b.defs.get(a0["l"], [])
                                if len(ds) == 1 and ds[0][1] != "term":
                                    rv = b.blocks[ds[0][0]]["stmts"][ds[0][1]]["rv"]
                                    if rv["k"] == "ref" and not rv["p"].get("p"):
                                        tgt = rv["p"]["l"]
                            if tgt == vec:
                                pushes.append((pb, t, p.split("::")[-1]))
                    other = [x for x in pushes if x[2] not in ("push", "new", "with_capacity", "len", "is_empty", "capacity", "reserve")]
                    ps = [x for x in pushes if x[2] == "push"]
                    if other or len(ps) != 1:
                        why = "the data vector is filled by %s, not by a single push" % ([x[2] for x in pushes] or "nothing visible")
                    else:
                        pb = ps[0][0]
                        # the loops around the push: range iterators whose next() discriminant controls it
                        trips = []
                        deps = b.control_deps(pb)
                        bad_dep = False
                        for d in sorted(deps):
                            tt = b.blocks[d]["term"]
                            if tt["k"] != "switch":
                                continue
                            e = eb.operand(tt["discr"])
                            txt = show(e)
                            if not txt.startswith("discr(next("):
                                bad_dep = True
                                continue
                        heads = [hd for hd in b.loop_heads() if pb in b.natural_loop(hd)]
                        for hd in heads:
                            # the Range this loop iterates: the aggregate / RangeInclusive::new feeding its into_iter
                            cands_ = []
                            for cb, ct in b.calls():
                                cp = ct["callee"].get("resolved") or ct["callee"].get("path") or ""
                                if cp.endswith("IntoIterator>::into_iter") or cp == "<I as std::iter::IntoIterator>::into_iter":
                                    if ct.get("target") is not None and b.dominates(cb, hd) and hd in b.reachable_from(ct["target"]):
                                        ee = eb.operand(ct["args"][0])
                                        if ee[0] == "agg" and "Range" in str(ee[1]) and "Inclusive" not in str(ee[1]):
                                            cands_.append((ee, cb))
                            # the iterator of this loop is the into_iter closest to the head: dominated by all the others
                            rng = None
                            for (ee, cb) in cands_:
                                if all(b.dominates(ob, cb) for (_, ob) in cands_):
                                    rng = (ee, cb)
                            trips.append((hd, rng))
                        if bad_dep:
                            why = "the push is conditional (control dependent on more than the two loop iterators)"
                        elif len(heads) != 2 or any(r is None for _, r in trips):
                            why = "the push is not inside exactly two range loops (%d loops found)" % len(heads)
                        else:
                            forms = []
                            for hd, (ee, cb) in trips:
                                st_, en_ = affine(ee[2][0]) if isinstance(ee[2], (list, tuple)) else None, affine(ee[2][1]) if isinstance(ee[2], (list, tuple)) else None
                                if st_ is None or en_ is None:
                                    forms.append(None)
                                    continue
                                d = dict(en_[0])
                                for x_, v_ in st_[0].items():
                                    d[x_] = d.get(x_, 0) - v_
                                forms.append(({x_: v_ for x_, v_ in d.items() if v_}, en_[1] - st_[1]))
                            key = lambda a_: (sorted((str(k_), v_) for k_, v_ in a_[0].items()), a_[1])
                            if any(x is None for x in forms) or sorted(map(key, forms)) != sorted(map(key, [w, h])):
                                why = "the trip counts of the two loops (%s) are not the stored width and height (%s, %s)" % (forms, w, h)
            except Exception as ex:      # fail closed
                why = "the construction could not be analysed (%s)" % ex
            chk.obligation(why is None)
            if why is not None:
                chk.finding("%s|image-rect" % b.short(), rule="R-IMAGE-RECT", where="%s:%s" % (b.file, s.get("line")), fn=b.short(),
                            what="an Image is built whose data is not shown to hold width x height bytes: %s; put_image walks width x height entries" % why)
    chk.floor("R-IMAGE-RECT", "Image constructions", n, 1)


# ===================================================================================================== R-WORKLIST
def _mentions(e, pred, depth=0):
    if depth > 40 or not isinstance(e, (tuple, list)):
        return False
    if isinstance(e, tuple) and e and pred(e):
        return True
    return any(_mentions(x, pred, depth + 1) for x in e if isinstance(x, (tuple, list)))


def _walk(e, depth=0):
    if depth > 40 or not isinstance(e, (tuple, list)):
        return
    if isinstance(e, tuple):
        yield e
    for x in e:
        if isinstance(x, (tuple, list)):
            yield from _walk(x, depth + 1)


def _cpath(t):
    return t["callee"].get("resolved") or t["callee"].get("path") or ""


def _vec_local(eb, op):
    """`&mut V` / `&V` of a plain local vector -> V"""
    e = eb.operand(op)
    if e[0] == "ref" and e[1][0] == "var":
        return e[1][1]
    return None


class _WL:
    """reads and unconditional writes of small methods, relative to their parameters (own body plus callees that get a parameter
    reference passed on, three levels deep)"""

    def __init__(self, f):
        from analysis.cg import CallGraph
        from analysis.effects import Effects, _names
        self.f = f
        self.eff = Effects(f, CallGraph(f))
        self.names = _names
        self._reads = {}
        self._writes = {}

    def _path(self, b, pj):
        if "*" not in [x for x in pj.get("p", []) if x == "*"]:
            return None
        return self.eff._place_path(b, pj)

    def _ops(self, b):
        """every place read in b (operands of statements and terminators, borrowed places)"""
        def rv_places(rv):
            k = rv["k"]
            if k in ("use", "un", "cast", "repeat"):
                yield rv["a"]
            elif k == "bin":
                yield rv["a"]
                yield rv["b"]
            elif k in ("ref", "rawptr", "discr", "len"):
                yield {"copy": rv["p"]}
            elif k == "agg":
                yield from rv["ops"]
        for bi, k, s in b.stmts():
            if s["k"] == "assign":
                yield from rv_places(s["rv"])
        for bi, t in b.terms():
            if t["k"] == "call":
                yield from t["args"]
            elif t["k"] == "switch":
                yield t["discr"]

    def reads(self, bid, depth=0):
        if bid in self._reads:
            return self._reads[bid]
        self._reads[bid] = set()
        b = self.f.bodies[bid]
        out = set()
        for op in self._ops(b):
            pj = op.get("copy") or op.get("move")
            if pj is None:
                continue
            pp = self._path(b, pj)
            if pp is not None and pp[0]:
                out.add(pp)
        if depth < 3:
            for bi, t in b.calls():
                cands = [c for c in self.eff.ip.callee_ids(b, t) if c in self.f.bodies]
                if len(cands) != 1:
                    continue
                for ai, a in enumerate(t["args"]):
                    rp = self.eff._ref_path(b, a)
                    if rp is None or not rp[0]:
                        continue
                    for (cp, path) in self.reads(cands[0], depth + 1):
                        if cp == ai + 1:
                            out.add((rp[0], (rp[1] + path)[:6]))
        self._reads[bid] = out
        return out

    def _bounds_only(self, b, eb, block, field):
        """the block runs whenever the body does, except for guards that compare against the length of the written container"""
        for d in b.control_deps(block):
            t = b.blocks[d]["term"]
            if t["k"] != "switch":
                continue
            e = eb.operand(t["discr"])
            if not _mentions(e, lambda x: x[0] == "len" and field in show(x)):
                return False
        return True

    def must_writes(self, bid, depth=0):
        """{(param, path): value parameter or None}: stores the body performs on every run (bounds guards on the container aside)"""
        if bid in self._writes:
            return self._writes[bid]
        self._writes[bid] = {}
        b = self.f.bodies[bid]
        eb = ExprBuilder(b)
        out = {}
        for bi, k, s in b.stmts():
            if s["k"] != "assign":
                continue
            pp = self._path(b, s["p"])
            if pp is None or not pp[0] or not pp[1]:
                continue
            if not self._bounds_only(b, eb, bi, pp[1][-1]):
                continue
            val = None
            rv = s["rv"]
            if rv["k"] == "use":
                e = eb.operand(rv["a"])
                if e[0] == "var" and 1 <= e[1] <= b.argc:
                    val = e[1]
            out[pp] = val
        if depth < 3:
            for bi, t in b.calls():
                cands = [c for c in self.eff.ip.callee_ids(b, t) if c in self.f.bodies]
                if len(cands) != 1:
                    continue
                sub = self.must_writes(cands[0], depth + 1)
                for (cp, path), cval in sub.items():
                    if cp < 1 or cp > len(t["args"]):
                        continue
                    rp = self.eff._ref_path(b, t["args"][cp - 1])
                    if rp is None or not rp[0]:
                        continue
                    full = (rp[0], (rp[1] + path)[:6])
                    if not full[1] or not self._bounds_only(b, eb, bi, full[1][-1]):
                        continue
                    val = None
                    if cval is not None and cval <= len(t["args"]):
                        e = eb.operand(t["args"][cval - 1])
                        if e[0] == "var" and 1 <= e[1] <= b.argc:
                            val = e[1]
                    out.setdefault(full, val)
        self._writes[bid] = out
        return out


def worklist(chk, f):
    """R-WORKLIST.  A loop that pops its work from a vector and pushes new work onto the same vector terminates only if
    something is marked as done before new work is pushed.  For every such loop in the RIP / IGS emulation: the pushes are all
    guarded by one test of a 'done' state (a pixel read through a getter of self, or a local container), and on every path from
    that test through a push back to the pop the state is changed unconditionally - by a setter that stores, on every run, into
    what the getter reads (and a value that the code has compared unequal to the one the test looks for), or by an insertion
    into the container the test consults.  Decided: the marking discipline.  Not decided: that the mark covers the popped item."""
    wl = None
    n = 0
    for bid, b in sorted(f.bodies.items()):
        if b.kind not in ("fn", "method", "closure") or not (b.file.startswith("src/parsers/rip") or b.file.startswith("src/parsers/igs")):
            continue
        pops = [(bi, t) for bi, t in b.calls() if _cpath(t).startswith("std::vec::Vec::<T") and _cpath(t).endswith("::pop")]
        if not pops:
            continue
        eb = ExprBuilder(b)
        for hd in sorted(b.loop_heads()):
            N = b.natural_loop(hd)
            for pbi, pt in pops:
                if pbi not in N:
                    continue
                V = _vec_local(eb, pt["args"][0])
                if V is None:
                    continue
                # the loop ends when the vector is empty: the discriminant of the pop result leaves the loop
                drives = False
                for d in N:
                    t = b.blocks[d]["term"]
                    if t["k"] == "switch" and any(x not in N for x in b.succ[d]):
                        e = eb.operand(t["discr"])
                        if _mentions(e, lambda x: x[0] == "call" and x[1].endswith("::pop") and x[2] and x[2][0] == ("ref", ("var", V, b.lname(V)))):
                            drives = True
                if not drives:
                    continue
                pushes = [(bi, t) for bi, t in b.calls() if bi in N and _cpath(t).startswith("std::vec::Vec::<T")
                          and _cpath(t).split("::")[-1] in ("push", "extend", "insert", "append", "extend_from_slice") and _vec_local(eb, t["args"][0]) == V]
                if not pushes:
                    continue
                n += 1
                if wl is None:
                    wl = _WL(f)
                why = _worklist_ok(f, wl, b, eb, hd, N, V, pushes)
                chk.obligation(why is None)
                if why is not None:
                    chk.finding("%s|worklist" % b.short(), rule="R-WORKLIST", where="%s:%s" % (b.file, pt.get("line")), fn=b.short(),
                                what="the loop pops its work from `%s` and pushes new work onto it, but %s: an item that is not marked as done is pushed again by its neighbours for ever" % (b.lname(V), why))
    chk.floor("R-WORKLIST", "work-list loops in the RIP / IGS emulation", n, 2)


def _worklist_ok(f, wl, b, eb, hd, N, V, pushes):
    push_blocks = {bi for bi, _ in pushes}
    common = None
    for pb in push_blocks:
        deps = {d for d in b.control_deps(pb) if d in N}
        common = deps if common is None else common & deps
    reasons = []
    for G in sorted(common or (), reverse=True):
        t = b.blocks[G]["term"]
        if t["k"] != "switch":
            continue
        e = eb.operand(t["discr"])
        if _mentions(e, lambda x: x[0] == "call" and x[1].endswith("::pop")) and not _mentions(e, lambda x: x[0] == "call" and not x[1].endswith("::pop") and not x[1].startswith(("core::", "std::"))):
            continue        # the emptiness test / tests of the popped item alone
        marks = set()
        # form B: the test consults a local container other than the work list
        conts = set()
        for x in _walk(e):
            if x[0] == "var" and x[1] != V and x[1] > b.argc:
                ty = f.types[b.locals[x[1]]["t"]]
                if ty["k"] == "adt" and any(ty["s"].startswith(p) for p in ("std::vec::Vec<", "std::collections::", "alloc::vec::Vec<")):
                    conts.add(x[1])
        for S in conts:
            for bi in N:
                for s in b.blocks[bi]["stmts"]:
                    if s["k"] == "assign" and s["p"]["l"] == S and s["p"].get("p"):
                        marks.add(bi)
            for bi, ct in b.calls():
                if bi not in N or bi == G:
                    continue
                nm = _cpath(ct).split("::")[-1]
                if nm in ("push", "insert", "extend", "push_back", "push_front", "append", "extend_from_slice", "resize") and ct["args"] \
                        and _mentions(eb.operand(ct["args"][0]), lambda x: x[0] == "var" and x[1] == S):
                    marks.add(bi)
        value_ok = bool(marks)
        # form A: the test reads state of self through a getter; a setter must store into what the getter reads
        getters = [x for x in _walk(e) if x[0] == "call" and x[1] in f.bodies and x[2] and x[2][0][0] == "ref"]
        for g in getters:
            recv = g[2][0]
            rd = {pth for (cp, pth) in wl.reads(g[1]) if cp == 1}
            for bi, ct in b.calls():
                if bi not in N:
                    continue
                cands = [c for c in wl.eff.ip.callee_ids(b, ct) if c in f.bodies]
                if len(cands) != 1 or not ct["args"] or eb.operand(ct["args"][0]) != recv:
                    continue
                mw = wl.must_writes(cands[0])
                hit = [(pth, val) for (cp, pth), val in mw.items() if cp == 1 and pth in rd]
                if not hit:
                    continue
                # the stored value is one the code has compared unequal to the value the test looks for
                ok = False
                for pth, val in hit:
                    if val is None or val > len(ct["args"]):
                        continue
                    Y = eb.operand(ct["args"][val - 1])
                    others = []
                    if e[0] == "bin" and e[1] in ("Eq", "Ne"):
                        others = [o for o in (e[2], e[3]) if not _mentions(o, lambda x: x is g or x == g)]
                    for X in others:
                        for D in range(b.nblocks):
                            dt = b.blocks[D]["term"]
                            if dt["k"] != "switch" or D in N or not b.dominates(D, hd):
                                continue
                            de = eb.operand(dt["discr"])
                            if de[0] == "bin" and de[1] in ("Eq", "Ne") and ((de[2] == X and de[3] == Y) or (de[2] == Y and de[3] == X)):
                                # the edge taken when X == Y must not lead into the loop
                                eq_val = 1 if de[1] == "Eq" else 0
                                tgt = dict((v, tb) for v, tb in dt["targets"]).get(eq_val, dt.get("otherwise"))
                                if tgt is not None and hd not in b.reachable_from(tgt):
                                    ok = True
                if ok:
                    marks.add(bi)
                    value_ok = True
                else:
                    reasons.append("`%s` stores a value that is not known to differ from the one `%s` is compared with" % (cands[0].split("::")[-1], g[1].split("::")[-1]))
        if not marks or not value_ok:
            continue
        # every path from the test through a push back to the head passes a mark
        start = [x for x in b.succ[G] if x in N]
        seen = set()
        st = [x for x in start if x not in marks]
        while st:
            x = st.pop()
            if x in seen or x not in N or x in marks:
                continue
            seen.add(x)
            if x != hd:
                st.extend(b.succ[x])
        bad = None
        for pb in sorted(push_blocks & seen):
            s2, st = set(), list(b.succ[pb])
            while st:
                x = st.pop()
                if x == hd:
                    bad = pb
                    break
                if x in s2 or x not in N or x in marks:
                    continue
                s2.add(x)
                st.extend(b.succ[x])
            if bad is not None:
                break
        if bad is None:
            return None
        reasons.append("a push (block %d) lies on a path from the test back to the pop that does not pass the marking write" % bad)
    return reasons[0] if reasons else "no test of a 'done' state that an unconditional write on the same path changes guards its pushes"


def run(chk):
    f = F.load()
    roots = R.gfx_roots(f)
    reviewed = P.run_scope(chk, "GFX", roots, floor_roots=4, floor_bodies=400, floor_sinks=300, reviewed_file="reviewed_safe.json")
    chk.rules.append("R-RIP-CURSOR")
    rip_cursor(chk, f)
    chk.rules.append("R-IGS-LOOP")
    igs_loop(chk, f)
    chk.rules.append("R-IMAGE-RECT")
    image_rect(chk, f)
    chk.rules.append("R-WORKLIST")
    worklist(chk, f)
    return P.finish(chk, reviewed, "No undischarged panic origin is reachable from the RIPscrip / IGS entry points; the RIP parameter cursor is reset whenever a command starts; a saved image holds width x height bytes.")

"""C20 — RIPscrip and IGS streams never crash (R-PANIC over root set GFX) + R-RIP-CURSOR (typestate of the RIP parameter
cursor, on which the variable-length commands' `pop().unwrap()` and the `command.as_mut().unwrap()` rely).
R-IMAGE-RECT: every bgi `Image` is built from a vector filled by one unconditional push inside two nested range loops whose
trip counts are the stored width and height (the invariant `data.len() == width * height` that put_image's indexing relies on).
The stall clause (loop counts / sleeps driven by parameters) and the canvas-completeness clause are not decided here."""
from analysis import facts as F
from analysis import roots as R
from analysis.expr import ExprBuilder, show
from rules import panic_common as P

RIP_PARSER = "parsers::rip::Parser"
RIP_STATE = "parsers::rip::State"


def _field_store(s, name, owner):
    if s["k"] != "assign":
        return False
    proj = s["p"].get("p", [])
    return bool(proj) and proj[-1] != "*" and proj[-1][0] == "f" and proj[-1][2] == name and proj[-1][3] == owner


def rip_cursor(chk, f):
    """every transition into State::ReadParams either starts a command (command = Some(..) and parameter_state = 0 are stored
    on the way, in the same body) or returns from the continuation-line state SkipEOL"""
    adt = f.adts.get(RIP_STATE)
    if not chk.anchor(adt is not None and any(v["name"] == "ReadParams" for v in adt["variants"]) and any(v["name"] == "SkipEOL" for v in adt["variants"]),
                      "R-RIP-CURSOR", "anchor missing: rip::State::{ReadParams, SkipEOL}"):
        return
    skip_discr = [v["discr"] for v in adt["variants"] if v["name"] == "SkipEOL"][0]
    nstores = 0
    nstart = 0
    for b in f.bodies.values():
        if b.kind not in ("fn", "method", "closure"):
            continue
        eb = None
        for bi, k, s in b.stmts():
            if not _field_store(s, "state", RIP_PARSER):
                continue
            eb = eb or ExprBuilder(b)
            val = show(eb.rvalue(s["rv"]))
            if "ReadParams" not in val:
                continue
            nstores += 1
            # (i) command start: both resets dominate the store (same block earlier, or a dominating block)
            def dominated_by(pred):
                for bj, kj, sj in b.stmts():
                    if pred(sj) and ((bj == bi and kj < k) or (bj != bi and b.dominates(bj, bi))):
                        return True
                return False
            cmd_some = dominated_by(lambda sj: _field_store(sj, "command", RIP_PARSER) and "Some" in show(eb.rvalue(sj["rv"])))
            cur_zero = dominated_by(lambda sj: _field_store(sj, "parameter_state", RIP_PARSER) and eb.rvalue(sj["rv"]) == ("const", 0))
            if cmd_some and cur_zero:
                nstart += 1
                chk.obligation(True)
                continue
            # (ii) back from a continuation line: the store is dominated by the SkipEOL arm of a switch on self.state
            ok = False
            for sb in range(b.nblocks):
                t = b.blocks[sb]["term"]
                if t["k"] != "switch":
                    continue
                d = show(eb.operand(t["discr"]))
                if "discr(" not in d or not d.rstrip(")").endswith("state"):
                    continue
                for val_, tgt in t.get("targets", []):
                    if val_ == skip_discr and tgt is not None and (tgt == bi or b.dominates(tgt, bi)):
                        ok = True
            chk.obligation(ok)
            if not ok:
                chk.finding("%s|readparams-without-reset" % b.short(), rule="R-RIP-CURSOR", where="%s:%s" % (b.file, s["line"]), fn=b.short(),
                            what="the parser enters State::ReadParams without storing command = Some(..) and parameter_state = 0 first "
                                 "(and not from the SkipEOL arm): the next command would be parsed at a stale parameter index, which the "
                                 "variable-length commands' pop().unwrap() and parse_parameter's command.as_mut().unwrap() rely on")
    chk.floor("R-RIP-CURSOR", "stores of State::ReadParams", nstores, 2)
    chk.floor("R-RIP-CURSOR", "command starts (command = Some, parameter_state = 0, state = ReadParams)", nstart, 1)
    # no other body resets the cursor concept away: parameter_state is only ever stored a constant 0 or incremented by one
    nps = 0
    for b in f.bodies.values():
        if b.kind not in ("fn", "method", "closure"):
            continue
        eb = None
        for bi, k, s in b.stmts():
            if not _field_store(s, "parameter_state", RIP_PARSER):
                continue
            eb = eb or ExprBuilder(b)
            e = eb.rvalue(s["rv"])
            nps += 1
            txt = show(e)
            ok = e == ("const", 0) or (e[0] == "bin" and e[1] in ("Add", "AddO") and ("const", 1) in (e[2], e[3]) and "parameter_state" in txt) \
                or (e[0] == "field" and "parameter_state" in txt)
            chk.obligation(ok)
            if not ok:
                chk.finding("%s|cursor-store|%s" % (b.short(), txt[:60]), rule="R-RIP-CURSOR", where="%s:%s" % (b.file, s["line"]), fn=b.short(),
                            what="parameter_state is assigned `%s` (expected: 0 at command start, +1 per accepted character)" % txt[:80])
    chk.floor("R-RIP-CURSOR", "stores to parameter_state", nps, 2)


# ===================================================================================================== R-IMAGE-RECT
def image_rect(chk, f):
    """Every `Image { width, height, data }` built in the RIP emulation holds width x height bytes: the vector handed to `data`
    is filled by exactly one unconditional push inside two nested range loops whose trip counts (end - start, as affine
    forms over the function's variables) are the expressions stored as width and height."""
    from analysis.expr import ExprBuilder, show
    from rules.C11 import affine
    adts = [k for k in f.adts if k.endswith("rip::bgi::Image")]
    if not chk.anchor(len(adts) == 1, "R-IMAGE-RECT", "anchor missing: the bgi Image type"):
        return
    IMG = adts[0]
    fields = [nm for nm, _ in f.adts[IMG]["variants"][0]["fields"]]
    n = 0
    for bid, b in sorted(f.bodies.items()):
        if b.kind not in ("fn", "method", "closure"):
            continue
        aggs = [(bi, k, s) for bi, k, s in b.stmts() if s["k"] == "assign" and s["rv"]["k"] == "agg" and s["rv"].get("adt") == IMG]
        if not aggs:
            continue
        eb = ExprBuilder(b)
        for bi, k, s in aggs:
            n += 1
            ops = dict(zip(fields, s["rv"]["ops"]))
            why = None
            try:
                w, h = affine(eb.operand(ops["width"])), affine(eb.operand(ops["height"]))
                dpj = ops["data"].get("move") or ops["data"].get("copy")
                vec = dpj["l"] if dpj is not None and not dpj.get("p") else None
                # follow plain moves back to the vector the loops push into
                seen = set()
                while vec is not None and vec not in seen:
                    seen.add(vec)
                    ds = b.defs.get(vec, [])
                    if len(ds) == 1 and ds[0][1] != "term":
                        rv = b.blocks[ds[0][0]]["stmts"][ds[0][1]]["rv"]
                        if rv["k"] == "use" and ("move" in rv["a"] or "copy" in rv["a"]) and not (rv["a"].get("move") or rv["a"].get("copy")).get("p"):
                            vec = (rv["a"].get("move") or rv["a"].get("copy"))["l"]
                            continue
                    break
                if w is None or h is None or vec is None:
                    why = "width / height are not affine expressions, or the data operand is not a local vector"
                else:
                    pushes = []
                    for pb, t in b.calls():
                        p = t["callee"].get("resolved") or t["callee"].get("path") or ""
                        if p.startswith("std::vec::Vec::<T") and t["args"]:
                            a0 = t["args"][0].get("move") or t["args"][0].get("copy")
                            x = a0
                            # &mut vec through one reborrow temporary
                            tgt = None
                            if a0 is not None:
                                ds = b.defs.get(a0["l"], [])
                                if len(ds) == 1 and ds[0][1] != "term":
                                    rv = b.blocks[ds[0][0]]["stmts"][ds[0][1]]["rv"]
                                    if rv["k"] == "ref" and not rv["p"].get("p"):
                                        tgt = rv["p"]["l"]
                            if tgt == vec:
                                pushes.append((pb, t, p.split("::")[-1]))
                    other = [x for x in pushes if x[2] not in ("push", "new", "with_capacity", "len", "is_empty", "capacity", "reserve")]
                    ps = [x for x in pushes if x[2] == "push"]
                    if other or len(ps) != 1:
                        why = "the data vector is filled by %s, not by a single push" % ([x[2] for x in pushes] or "nothing visible")
                    else:
                        pb = ps[0][0]
                        # the loops around the push: range iterators whose next() discriminant controls it
                        trips = []
                        deps = b.control_deps(pb)
                        bad_dep = False
                        for d in sorted(deps):
                            tt = b.blocks[d]["term"]
                            if tt["k"] != "switch":
                                continue
                            e = eb.operand(tt["discr"])
                            txt = show(e)
                            if not txt.startswith("discr(next("):
                                bad_dep = True
                                continue
                        heads = [hd for hd in b.loop_heads() if pb in b.natural_loop(hd)]
                        for hd in heads:
                            # the Range this loop iterates: the aggregate / RangeInclusive::new feeding its into_iter
                            cands_ = []
                            for cb, ct in b.calls():
                                cp = ct["callee"].get("resolved") or ct["callee"].get("path") or ""
                                if cp.endswith("IntoIterator>::into_iter") or cp == "<I as std::iter::IntoIterator>::into_iter":
                                    if ct.get("target") is not None and b.dominates(cb, hd) and hd in b.reachable_from(ct["target"]):
                                        ee = eb.operand(ct["args"][0])
                                        if ee[0] == "agg" and "Range" in str(ee[1]) and "Inclusive" not in str(ee[1]):
                                            cands_.append((ee, cb))
                            # the iterator of this loop is the into_iter closest to the head: dominated by all the others
                            rng = None
                            for (ee, cb) in cands_:
                                if all(b.dominates(ob, cb) for (_, ob) in cands_):
                                    rng = (ee, cb)
                            trips.append((hd, rng))
                        if bad_dep:
                            why = "the push is conditional (control dependent on more than the two loop iterators)"
                        elif len(heads) != 2 or any(r is None for _, r in trips):
                            why = "the push is not inside exactly two range loops (%d loops found)" % len(heads)
                        else:
                            forms = []
                            for hd, (ee, cb) in trips:
                                st_, en_ = affine(ee[2][0]) if isinstance(ee[2], (list, tuple)) else None, affine(ee[2][1]) if isinstance(ee[2], (list, tuple)) else None
                                if st_ is None or en_ is None:
                                    forms.append(None)
                                    continue
                                d = dict(en_[0])
                                for x_, v_ in st_[0].items():
                                    d[x_] = d.get(x_, 0) - v_
                                forms.append(({x_: v_ for x_, v_ in d.items() if v_}, en_[1] - st_[1]))
                            key = lambda a_: (sorted((str(k_), v_) for k_, v_ in a_[0].items()), a_[1])
                            if any(x is None for x in forms) or sorted(map(key, forms)) != sorted(map(key, [w, h])):
                                why = "the trip counts of the two loops (%s) are not the stored width and height (%s, %s)" % (forms, w, h)
            except Exception as ex:      # fail closed
                why = "the construction could not be analysed (%s)" % ex
            chk.obligation(why is None)
            if why is not None:
                chk.finding("%s|image-rect" % b.short(), rule="R-IMAGE-RECT", where="%s:%s" % (b.file, s.get("line")), fn=b.short(),
                            what="an Image is built whose data is not shown to hold width x height bytes: %s; put_image walks width x height entries" % why)
    chk.floor("R-IMAGE-RECT", "Image constructions", n, 1)


def run(chk):
    f = F.load()
    roots = R.gfx_roots(f)
    reviewed = P.run_scope(chk, "GFX", roots, floor_roots=4, floor_bodies=400, floor_sinks=300, reviewed_file="reviewed_safe.json")
    chk.rules.append("R-RIP-CURSOR")
    rip_cursor(chk, f)
    chk.rules.append("R-IMAGE-RECT")
    image_rect(chk, f)
    return P.finish(chk, reviewed, "No undischarged panic origin is reachable from the RIPscrip / IGS entry points; the RIP parameter cursor is reset whenever a command starts; a saved image holds width x height bytes.")

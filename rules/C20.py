"""C20 — RIPscrip and IGS streams never crash (R-PANIC over root set GFX) + R-RIP-CURSOR (typestate of the RIP parameter
cursor, on which the variable-length commands' `pop().unwrap()` and the `command.as_mut().unwrap()` rely).
The stall clause (loop counts / sleeps driven by parameters) and the canvas-completeness clause are not decided here."""
from analysis import facts as F
from analysis import roots as R
from analysis.expr import ExprBuilder, show
from rules import panic_common as P

RIP_PARSER = "parsers::rip::Parser"
RIP_STATE = "parsers::rip::State"


def _field_store(s, name, owner):
    if s["k"] != "assign":
        return False
    proj = s["p"].get("p", [])
    return bool(proj) and proj[-1] != "*" and proj[-1][0] == "f" and proj[-1][2] == name and proj[-1][3] == owner


def rip_cursor(chk, f):
    """every transition into State::ReadParams either starts a command (command = Some(..) and parameter_state = 0 are stored
    on the way, in the same body) or returns from the continuation-line state SkipEOL"""
    adt = f.adts.get(RIP_STATE)
    if not chk.anchor(adt is not None and any(v["name"] == "ReadParams" for v in adt["variants"]) and any(v["name"] == "SkipEOL" for v in adt["variants"]),
                      "R-RIP-CURSOR", "anchor missing: rip::State::{ReadParams, SkipEOL}"):
        return
    skip_discr = [v["discr"] for v in adt["variants"] if v["name"] == "SkipEOL"][0]
    nstores = 0
    nstart = 0
    for b in f.bodies.values():
        if b.kind not in ("fn", "method", "closure"):
            continue
        eb = None
        for bi, k, s in b.stmts():
            if not _field_store(s, "state", RIP_PARSER):
                continue
            eb = eb or ExprBuilder(b)
            val = show(eb.rvalue(s["rv"]))
            if "ReadParams" not in val:
                continue
            nstores += 1
            # (i) command start: both resets dominate the store (same block earlier, or a dominating block)
            def dominated_by(pred):
                for bj, kj, sj in b.stmts():
                    if pred(sj) and ((bj == bi and kj < k) or (bj != bi and b.dominates(bj, bi))):
                        return True
                return False
            cmd_some = dominated_by(lambda sj: _field_store(sj, "command", RIP_PARSER) and "Some" in show(eb.rvalue(sj["rv"])))
            cur_zero = dominated_by(lambda sj: _field_store(sj, "parameter_state", RIP_PARSER) and eb.rvalue(sj["rv"]) == ("const", 0))
            if cmd_some and cur_zero:
                nstart += 1
                chk.obligation(True)
                continue
            # (ii) back from a continuation line: the store is dominated by the SkipEOL arm of a switch on self.state
            ok = False
            for sb in range(b.nblocks):
                t = b.blocks[sb]["term"]
                if t["k"] != "switch":
                    continue
                d = show(eb.operand(t["discr"]))
                if "discr(" not in d or not d.rstrip(")").endswith("state"):
                    continue
                for val_, tgt in t.get("targets", []):
                    if val_ == skip_discr and tgt is not None and (tgt == bi or b.dominates(tgt, bi)):
                        ok = True
            chk.obligation(ok)
            if not ok:
                chk.finding("%s|readparams-without-reset" % b.short(), rule="R-RIP-CURSOR", where="%s:%s" % (b.file, s["line"]), fn=b.short(),
                            what="the parser enters State::ReadParams without storing command = Some(..) and parameter_state = 0 first "
                                 "(and not from the SkipEOL arm): the next command would be parsed at a stale parameter index, which the "
                                 "variable-length commands' pop().unwrap() and parse_parameter's command.as_mut().unwrap() rely on")
    chk.floor("R-RIP-CURSOR", "stores of State::ReadParams", nstores, 3)
    chk.floor("R-RIP-CURSOR", "command starts (command = Some, parameter_state = 0, state = ReadParams)", nstart, 1)
    # no other body resets the cursor concept away: parameter_state is only ever stored a constant 0 or incremented by one
    nps = 0
    for b in f.bodies.values():
        if b.kind not in ("fn", "method", "closure"):
            continue
        eb = None
        for bi, k, s in b.stmts():
            if not _field_store(s, "parameter_state", RIP_PARSER):
                continue
            eb = eb or ExprBuilder(b)
            e = eb.rvalue(s["rv"])
            nps += 1
            txt = show(e)
            ok = e == ("const", 0) or (e[0] == "bin" and e[1] in ("Add", "AddO") and ("const", 1) in (e[2], e[3]) and "parameter_state" in txt) \
                or (e[0] == "field" and "parameter_state" in txt)
            chk.obligation(ok)
            if not ok:
                chk.finding("%s|cursor-store|%s" % (b.short(), txt[:60]), rule="R-RIP-CURSOR", where="%s:%s" % (b.file, s["line"]), fn=b.short(),
                            what="parameter_state is assigned `%s` (expected: 0 at command start, +1 per accepted character)" % txt[:80])
    chk.floor("R-RIP-CURSOR", "stores to parameter_state", nps, 2)


def run(chk):
    f = F.load()
    roots = R.gfx_roots(f)
    reviewed = P.run_scope(chk, "GFX", roots, floor_roots=4, floor_bodies=400, floor_sinks=300, reviewed_file="reviewed_safe.json")
    chk.rules.append("R-RIP-CURSOR")
    rip_cursor(chk, f)
    return P.finish(chk, reviewed, "No undischarged panic origin is reachable from the RIPscrip / IGS entry points; the RIP parameter cursor is reset whenever a command starts.")

// mirfacts — a thin rustc_private driver that serialises the type-checked MIR of
// the workspace crate to one JSON "facts" file.  It decides nothing: every rule
// lives in /verif/analysis + /verif/rules (Python).  See DESIGN.md §2 / Appendix A.
//
// Invoked by cargo as RUSTC_WORKSPACE_WRAPPER:  mirfacts <rustc> <args…>
// Environment:
//   MIRFACTS_OUT     path of the facts file to write (required for a dump)
//   MIRFACTS_CRATES  comma separated crate names to dump (default: icy_engine)
#![feature(rustc_private)]
#![allow(clippy::all)]

extern crate rustc_abi;
extern crate rustc_driver;
extern crate rustc_hir;
extern crate rustc_interface;
extern crate rustc_middle;
extern crate rustc_span;

use rustc_driver::Compilation;
use rustc_hir::def::DefKind;
use rustc_hir::def_id::{DefId, LOCAL_CRATE};
use rustc_middle::mir::{
    self, AggregateKind, AssertKind, BinOp, BorrowKind, CastKind, Operand, Place, ProjectionElem, Rvalue,
    StatementKind, TerminatorKind, UnOp,
};
use rustc_middle::ty::{self, Ty, TyCtxt};
use rustc_span::Span;
use std::collections::HashMap;
use std::fmt::Write as _;

mod json;
use json::J;

struct Cb;

impl rustc_driver::Callbacks for Cb {
    fn after_analysis<'tcx>(&mut self, _c: &rustc_interface::interface::Compiler, tcx: TyCtxt<'tcx>) -> Compilation {
        let name = tcx.crate_name(LOCAL_CRATE).as_str().to_string();
        let wanted = std::env::var("MIRFACTS_CRATES").unwrap_or_else(|_| "icy_engine".to_string());
        if !wanted.split(',').any(|w| w == name) {
            return Compilation::Continue;
        }
        let Ok(out) = std::env::var("MIRFACTS_OUT") else {
            return Compilation::Continue;
        };
        let mut d = Dumper { tcx, types: Vec::new(), type_ix: HashMap::new() };
        let facts = d.dump(&name);
        let mut s = String::with_capacity(64 << 20);
        facts.write(&mut s);
        // one write per process
        let tmp = format!("{out}.tmp.{}", std::process::id());
        std::fs::write(&tmp, s).expect("mirfacts: cannot write facts");
        std::fs::rename(&tmp, &out).expect("mirfacts: cannot rename facts");
        Compilation::Continue
    }
}

fn main() {
    let mut args: Vec<String> = std::env::args().collect();
    // cargo passes: wrapper rustc args…  → drop argv[1]
    if args.len() > 1 {
        args.remove(1);
    }
    rustc_driver::run_compiler(&args, &mut Cb);
}

struct Dumper<'tcx> {
    tcx: TyCtxt<'tcx>,
    types: Vec<J>,
    type_ix: HashMap<Ty<'tcx>, usize>,
}

fn s(x: impl Into<String>) -> J {
    J::Str(x.into())
}
fn n(x: i128) -> J {
    J::Num(x)
}

impl<'tcx> Dumper<'tcx> {
    fn path(&self, did: DefId) -> String {
        self.tcx.def_path_str(did)
    }

    fn line_of(&self, span: Span) -> (String, usize) {
        let sp = span.source_callsite();
        let sm = self.tcx.sess.source_map();
        let loc = sm.lookup_char_pos(sp.lo());
        (loc.file.name.prefer_local_unconditionally().to_string(), loc.line)
    }

    fn macro_chain(&self, span: Span) -> J {
        if !span.from_expansion() {
            return J::Null;
        }
        let v: Vec<J> = span.macro_backtrace().map(|m| s(m.kind.descr())).collect();
        J::Arr(v)
    }

    // ---- types ---------------------------------------------------------
    fn ty(&mut self, t: Ty<'tcx>) -> J {
        n(self.ty_ix(t) as i128)
    }

    fn ty_ix(&mut self, t: Ty<'tcx>) -> usize {
        if let Some(&i) = self.type_ix.get(&t) {
            return i;
        }
        let i = self.types.len();
        self.types.push(J::Null);
        self.type_ix.insert(t, i);
        let mut o = J::obj();
        o.set("s", s(t.to_string()));
        match *t.kind() {
            ty::Bool => o.set("k", s("bool")),
            ty::Char => o.set("k", s("char")),
            ty::Int(it) => {
                o.set("k", s("int"));
                o.set("n", s(it.name_str()));
            }
            ty::Uint(ut) => {
                o.set("k", s("int"));
                o.set("n", s(ut.name_str()));
            }
            ty::Float(ft) => {
                o.set("k", s("float"));
                o.set("n", s(ft.name_str()));
            }
            ty::Str => o.set("k", s("str")),
            ty::Never => o.set("k", s("never")),
            ty::Adt(adt, args) => {
                o.set("k", s("adt"));
                o.set("adt", s(self.path(adt.did())));
                o.set("local", J::Bool(adt.did().is_local()));
                let mut a = Vec::new();
                for ga in args.iter() {
                    if let Some(t2) = ga.as_type() {
                        a.push(self.ty(t2));
                    }
                }
                o.set("args", J::Arr(a));
            }
            ty::Ref(_, inner, m) => {
                o.set("k", s("ref"));
                o.set("mut", J::Bool(m.is_mut()));
                let e = self.ty(inner);
                o.set("e", e);
            }
            ty::RawPtr(inner, m) => {
                o.set("k", s("ptr"));
                o.set("mut", J::Bool(m.is_mut()));
                let e = self.ty(inner);
                o.set("e", e);
            }
            ty::Array(inner, len) => {
                o.set("k", s("array"));
                let e = self.ty(inner);
                o.set("e", e);
                match len.try_to_target_usize(self.tcx) {
                    Some(l) => o.set("len", n(l as i128)),
                    None => o.set("len", J::Null),
                }
            }
            ty::Slice(inner) => {
                o.set("k", s("slice"));
                let e = self.ty(inner);
                o.set("e", e);
            }
            ty::Tuple(ts) => {
                o.set("k", s("tuple"));
                let mut a = Vec::new();
                for t2 in ts.iter() {
                    a.push(self.ty(t2));
                }
                o.set("args", J::Arr(a));
            }
            ty::Closure(did, _) => {
                o.set("k", s("closure"));
                o.set("def", s(self.path(did)));
            }
            ty::FnDef(did, args) => {
                o.set("k", s("fndef"));
                o.set("def", s(self.path(did)));
                o.set("gargs", s(format!("{:?}", args)));
            }
            ty::FnPtr(..) => o.set("k", s("fnptr")),
            ty::Dynamic(preds, ..) => {
                o.set("k", s("dyn"));
                if let Some(p) = preds.principal_def_id() {
                    o.set("trait", s(self.path(p)));
                }
            }
            ty::Param(p) => {
                o.set("k", s("param"));
                o.set("n", s(p.name.as_str()));
            }
            ty::Alias(..) => o.set("k", s("alias")),
            _ => o.set("k", s("other")),
        }
        self.types[i] = o;
        i
    }

    // ---- places / operands --------------------------------------------
    fn place(&mut self, body: &mir::Body<'tcx>, p: &Place<'tcx>) -> J {
        let mut o = J::obj();
        o.set("l", n(p.local.as_usize() as i128));
        if !p.projection.is_empty() {
            let mut proj = Vec::new();
            let mut pty = mir::PlaceTy::from_ty(body.local_decls[p.local].ty);
            for elem in p.projection.iter() {
                let j = match elem {
                    ProjectionElem::Deref => s("*"),
                    ProjectionElem::Field(f, fty) => {
                        let mut name = format!("{}", f.as_usize());
                        let mut owner = String::new();
                        match pty.ty.kind() {
                            ty::Adt(adt, _) => {
                                let vi = pty.variant_index.unwrap_or(rustc_abi::FIRST_VARIANT);
                                let v = adt.variant(vi);
                                if f.as_usize() < v.fields.len() {
                                    name = v.fields[f].name.as_str().to_string();
                                }
                                owner = self.path(adt.did());
                                if adt.is_enum() {
                                    let _ = write!(owner, "::{}", v.name.as_str());
                                }
                            }
                            ty::Tuple(_) => owner = "(tuple)".into(),
                            ty::Closure(did, _) => owner = format!("(closure {})", self.path(*did)),
                            _ => {}
                        }
                        let fty_j = self.ty(fty);
                        J::Arr(vec![s("f"), n(f.as_usize() as i128), s(name), s(owner), fty_j])
                    }
                    ProjectionElem::Index(l) => J::Arr(vec![s("i"), n(l.as_usize() as i128)]),
                    ProjectionElem::ConstantIndex { offset, min_length, from_end } => {
                        J::Arr(vec![s("ci"), n(offset as i128), n(min_length as i128), J::Bool(from_end)])
                    }
                    ProjectionElem::Subslice { from, to, from_end } => {
                        J::Arr(vec![s("sub"), n(from as i128), n(to as i128), J::Bool(from_end)])
                    }
                    ProjectionElem::Downcast(name, vi) => {
                        let nm = name.map(|x| x.as_str().to_string()).unwrap_or_default();
                        J::Arr(vec![s("dc"), s(nm), n(vi.as_usize() as i128)])
                    }
                    _ => J::Arr(vec![s("other")]),
                };
                proj.push(j);
                pty = pty.projection_ty(self.tcx, elem);
            }
            o.set("p", J::Arr(proj));
        }
        o
    }

    fn const_operand(&mut self, owner: DefId, c: &mir::ConstOperand<'tcx>) -> J {
        let tcx = self.tcx;
        let mut o = J::obj();
        let cty = c.const_.ty();
        let t = self.ty(cty);
        o.set("ty", t);
        if let ty::FnDef(did, args) = *cty.kind() {
            o.set("fn", s(self.path(did)));
            o.set("fn_local", J::Bool(did.is_local()));
            let env = ty::TypingEnv::post_analysis(tcx, owner);
            if let Ok(Some(inst)) = ty::Instance::try_resolve(tcx, env, did, args) {
                o.set("fn_resolved", s(self.path(inst.def_id())));
            }
            return o;
        }
        if let mir::Const::Ty(_, ct) = c.const_ {
            if let ty::ConstKind::Param(pc) = ct.kind() {
                // a const generic parameter of the enclosing item: its value is known only per instantiation (see callee.gargs)
                o.set("cparam", s(pc.name.as_str()));
                o.set("cparam_index", n(pc.index as i128));
            }
        }
        if let mir::Const::Unevaluated(uv, _) = c.const_ {
            o.set("def", s(self.path(uv.def)));
            if uv.promoted.is_some() {
                o.set("promoted", n(uv.promoted.unwrap().as_usize() as i128));
            }
        }
        let env = ty::TypingEnv::post_analysis(tcx, owner);
        // scalar ints (incl. bool / char)
        let is_scalar = matches!(cty.kind(), ty::Bool | ty::Char | ty::Int(_) | ty::Uint(_));
        if is_scalar {
            if let Some(si) = c.const_.try_eval_scalar_int(tcx, env) {
                let size = si.size();
                let v: i128 = match cty.kind() {
                    ty::Int(_) => si.to_int(size),
                    _ => si.to_uint(size) as i128,
                };
                o.set("val", n(v));
            }
            return o;
        }
        if let ty::Float(_) = cty.kind() {
            if let Some(si) = c.const_.try_eval_scalar_int(tcx, env) {
                o.set("fbits", n(si.to_uint(si.size()) as i128));
            }
            return o;
        }
        // statics referenced by pointer, string / byte-string literals
        if let Ok(val) = c.const_.eval(tcx, env, c.span) {
            match val {
                mir::ConstValue::Scalar(mir::interpret::Scalar::Ptr(ptr, _)) => {
                    let (prov, _off) = ptr.into_raw_parts();
                    let aid = prov.alloc_id();
                    match tcx.global_alloc(aid) {
                        rustc_middle::mir::interpret::GlobalAlloc::Static(sd) => {
                            o.set("static", s(self.path(sd)));
                        }
                        rustc_middle::mir::interpret::GlobalAlloc::Memory(alloc) => {
                            // &[u8; N] byte-string literal etc.
                            let a = alloc.inner();
                            if a.provenance().ptrs().is_empty() && a.len() <= 4096 {
                                let bytes = a.inspect_with_uninit_and_ptr_outside_interpreter(0..a.len());
                                o.set("bytes", s(hex(bytes)));
                            }
                        }
                        _ => {}
                    }
                }
                mir::ConstValue::Slice { alloc_id, meta } => {
                    if let rustc_middle::mir::interpret::GlobalAlloc::Memory(alloc) = tcx.global_alloc(alloc_id) {
                        let a = alloc.inner();
                        let len = (meta as usize).min(a.len());
                        if len <= 65536 {
                            let bytes = a.inspect_with_uninit_and_ptr_outside_interpreter(0..len);
                            match std::str::from_utf8(bytes) {
                                Ok(st) if matches!(cty.kind(), ty::Ref(_, inner, _) if inner.is_str()) => {
                                    o.set("str", s(st))
                                }
                                _ => o.set("bytes", s(hex(bytes))),
                            }
                        }
                    }
                }
                mir::ConstValue::ZeroSized => o.set("zst", J::Bool(true)),
                _ => {}
            }
        }
        o
    }

    fn operand(&mut self, owner: DefId, body: &mir::Body<'tcx>, op: &Operand<'tcx>) -> J {
        let mut o = J::obj();
        match op {
            Operand::Copy(p) => {
                let pj = self.place(body, p);
                o.set("copy", pj)
            }
            Operand::Move(p) => {
                let pj = self.place(body, p);
                o.set("move", pj)
            }
            Operand::Constant(c) => {
                let cj = self.const_operand(owner, c);
                o.set("const", cj)
            }
            #[allow(unreachable_patterns)]
            _ => o.set("other", s(format!("{:?}", op))),
        }
        o
    }

    fn rvalue(&mut self, owner: DefId, body: &mir::Body<'tcx>, rv: &Rvalue<'tcx>) -> J {
        let mut o = J::obj();
        match rv {
            Rvalue::Use(op, _) => {
                o.set("k", s("use"));
                let a = self.operand(owner, body, op);
                o.set("a", a);
            }
            Rvalue::Repeat(op, cnt) => {
                o.set("k", s("repeat"));
                let a = self.operand(owner, body, op);
                o.set("a", a);
                match cnt.try_to_target_usize(self.tcx) {
                    Some(l) => o.set("n", n(l as i128)),
                    None => o.set("n", J::Null),
                }
            }
            Rvalue::Ref(_, bk, p) => {
                o.set("k", s("ref"));
                o.set("mut", J::Bool(matches!(bk, BorrowKind::Mut { .. })));
                let pj = self.place(body, p);
                o.set("p", pj);
            }
            Rvalue::RawPtr(kind, p) => {
                o.set("k", s("rawptr"));
                o.set("mut", J::Bool(format!("{:?}", kind).contains("Mut")));
                let pj = self.place(body, p);
                o.set("p", pj);
            }
            Rvalue::Cast(kind, op, t) => {
                o.set("k", s("cast"));
                let ck = match kind {
                    CastKind::IntToInt => "int2int".to_string(),
                    CastKind::FloatToInt => "float2int".to_string(),
                    CastKind::IntToFloat => "int2float".to_string(),
                    CastKind::FloatToFloat => "float2float".to_string(),
                    CastKind::Transmute => "transmute".to_string(),
                    CastKind::PtrToPtr => "ptr2ptr".to_string(),
                    CastKind::PointerCoercion(pc, _) => format!("coerce:{:?}", pc),
                    other => format!("{:?}", other),
                };
                o.set("ck", s(ck));
                let a = self.operand(owner, body, op);
                o.set("a", a);
                let tj = self.ty(*t);
                o.set("ty", tj);
                let fj = self.ty(op.ty(&body.local_decls, self.tcx));
                o.set("from", fj);
            }
            Rvalue::BinaryOp(op, ab) => {
                o.set("k", s("bin"));
                o.set("op", s(binop_name(*op)));
                let a = self.operand(owner, body, &ab.0);
                let b = self.operand(owner, body, &ab.1);
                o.set("a", a);
                o.set("b", b);
            }
            Rvalue::UnaryOp(op, a) => {
                o.set("k", s("un"));
                o.set(
                    "op",
                    s(match op {
                        UnOp::Not => "Not",
                        UnOp::Neg => "Neg",
                        UnOp::PtrMetadata => "PtrMetadata",
                    }),
                );
                let a = self.operand(owner, body, a);
                o.set("a", a);
            }
            Rvalue::Discriminant(p) => {
                o.set("k", s("discr"));
                let pj = self.place(body, p);
                o.set("p", pj);
            }
            Rvalue::Aggregate(kind, ops) => {
                o.set("k", s("agg"));
                match &**kind {
                    AggregateKind::Array(_) => o.set("ak", s("array")),
                    AggregateKind::Tuple => o.set("ak", s("tuple")),
                    AggregateKind::Adt(did, vi, _, _, _) => {
                        o.set("ak", s("adt"));
                        o.set("adt", s(self.path(*did)));
                        let adt = self.tcx.adt_def(*did);
                        o.set("variant", s(adt.variant(*vi).name.as_str()));
                        o.set("vi", n(vi.as_usize() as i128));
                    }
                    AggregateKind::Closure(did, _) => {
                        o.set("ak", s("closure"));
                        o.set("def", s(self.path(*did)));
                    }
                    other => o.set("ak", s(format!("{:?}", other))),
                }
                let mut v = Vec::new();
                for op in ops.iter() {
                    v.push(self.operand(owner, body, op));
                }
                o.set("ops", J::Arr(v));
            }
            Rvalue::CopyForDeref(p) => {
                o.set("k", s("use"));
                let mut c = J::obj();
                let pj = self.place(body, p);
                c.set("copy", pj);
                o.set("a", c);
            }
            other => {
                o.set("k", s("other"));
                o.set("dbg", s(format!("{:?}", other)));
            }
        }
        o
    }

    fn assert_msg(&mut self, owner: DefId, body: &mir::Body<'tcx>, msg: &mir::AssertMessage<'tcx>) -> (String, Vec<J>) {
        match msg {
            AssertKind::BoundsCheck { len, index } => {
                ("bounds".into(), vec![self.operand(owner, body, len), self.operand(owner, body, index)])
            }
            AssertKind::Overflow(op, a, b) => (
                format!("overflow:{}", binop_name(*op)),
                vec![self.operand(owner, body, a), self.operand(owner, body, b)],
            ),
            AssertKind::OverflowNeg(a) => ("overflow:Neg".into(), vec![self.operand(owner, body, a)]),
            AssertKind::DivisionByZero(a) => ("div0".into(), vec![self.operand(owner, body, a)]),
            AssertKind::RemainderByZero(a) => ("rem0".into(), vec![self.operand(owner, body, a)]),
            other => (format!("other:{:?}", other).chars().take(60).collect(), vec![]),
        }
    }

    fn body(&mut self, did: DefId, body: &mir::Body<'tcx>, kind: &str, promoted: Option<usize>) -> J {
        let tcx = self.tcx;
        let mut o = J::obj();
        match promoted {
            Some(pi) => {
                o.set("id", s(format!("{}::{{promoted#{}}}", self.path(did), pi)));
                o.set("promoted_of", s(self.path(did)));
            }
            None => o.set("id", s(self.path(did))),
        }
        o.set("kind", s(kind));
        let (file, lo) = self.line_of(body.span);
        o.set("file", s(file.clone()));
        o.set("line", n(lo as i128));
        let hi = tcx.sess.source_map().lookup_char_pos(body.span.source_callsite().hi()).line;
        o.set("hi_line", n(hi as i128));
        o.set("exp", self.macro_chain(body.span));
        if matches!(tcx.def_kind(did), DefKind::Fn | DefKind::AssocFn) {
            o.set("vis", s(if tcx.visibility(did).is_public() { "pub" } else { "restricted" }));
        }
        if matches!(tcx.def_kind(did), DefKind::Closure) {
            o.set("parent", s(self.path(tcx.typeck_root_def_id(did))));
            o.set("lexical_parent", s(self.path(tcx.parent(did))));
        }
        if let Some(ai) = tcx.opt_associated_item(did) {
            let cont = ai.container_id(tcx);
            match tcx.def_kind(cont) {
                DefKind::Impl { .. } => {
                    let st = tcx.type_of(cont).instantiate_identity().skip_norm_wip();
                    let stj = self.ty(st);
                    o.set("impl_self", stj);
                    o.set("impl_self_s", s(st.to_string()));
                    if let Some(tr) = tcx.impl_opt_trait_ref(cont) {
                        let tr = tr.instantiate_identity().skip_norm_wip();
                        o.set("impl_trait", s(self.path(tr.def_id)));
                    }
                    if let Some(ti) = ai.trait_item_def_id() {
                        o.set("trait_item", s(self.path(ti)));
                    }
                }
                DefKind::Trait => {
                    o.set("in_trait", s(self.path(cont)));
                }
                _ => {}
            }
            o.set("name", s(ai.name().as_str()));
        } else if let Some(nm) = tcx.opt_item_name(did) {
            o.set("name", s(nm.as_str()));
        }
        o.set("argc", n(body.arg_count as i128));
        // locals
        let mut names: HashMap<usize, String> = HashMap::new();
        for v in body.var_debug_info.iter() {
            if let mir::VarDebugInfoContents::Place(p) = v.value {
                if p.projection.is_empty() {
                    names.entry(p.local.as_usize()).or_insert_with(|| v.name.as_str().to_string());
                }
            }
        }
        let mut locals = Vec::new();
        for (l, decl) in body.local_decls.iter_enumerated() {
            let mut lo = J::obj();
            let tj = self.ty(decl.ty);
            lo.set("t", tj);
            if let Some(nm) = names.get(&l.as_usize()) {
                lo.set("n", s(nm.clone()));
            }
            locals.push(lo);
        }
        o.set("locals", J::Arr(locals));
        // upvar / composite debug names (closures: captured variable names)
        let mut dbg = Vec::new();
        for v in body.var_debug_info.iter() {
            if let mir::VarDebugInfoContents::Place(p) = v.value {
                if !p.projection.is_empty() {
                    let pj = self.place(body, &p);
                    dbg.push(J::Arr(vec![s(v.name.as_str()), pj]));
                }
            }
        }
        if !dbg.is_empty() {
            o.set("dbg", J::Arr(dbg));
        }
        // blocks
        let mut blocks = Vec::new();
        for (_bb, data) in body.basic_blocks.iter_enumerated() {
            let mut b = J::obj();
            if data.is_cleanup {
                b.set("cleanup", J::Bool(true));
            }
            let mut stmts = Vec::new();
            for st in data.statements.iter() {
                let (sf, sl) = self.line_of(st.source_info.span);
                match &st.kind {
                    StatementKind::Assign(bx) => {
                        let (p, rv) = &**bx;
                        let mut so = J::obj();
                        so.set("k", s("assign"));
                        so.set("line", n(sl as i128));
                        if sf != file {
                            so.set("file", s(sf));
                        }
                        let e = self.macro_chain(st.source_info.span);
                        if !matches!(e, J::Null) {
                            so.set("exp", e);
                        }
                        let pj = self.place(body, p);
                        so.set("p", pj);
                        let rj = self.rvalue(did, body, rv);
                        so.set("rv", rj);
                        stmts.push(so);
                    }
                    StatementKind::SetDiscriminant { place, variant_index } => {
                        let mut so = J::obj();
                        so.set("k", s("setdiscr"));
                        so.set("line", n(sl as i128));
                        let pj = self.place(body, place);
                        so.set("p", pj);
                        so.set("vi", n(variant_index.as_usize() as i128));
                        stmts.push(so);
                    }
                    StatementKind::Intrinsic(i) => {
                        let mut so = J::obj();
                        so.set("k", s("intrinsic"));
                        so.set("line", n(sl as i128));
                        so.set("dbg", s(format!("{:?}", i)));
                        stmts.push(so);
                    }
                    _ => {}
                }
            }
            b.set("stmts", J::Arr(stmts));
            let term = data.terminator();
            let (tf, tl) = self.line_of(term.source_info.span);
            let mut t = J::obj();
            t.set("line", n(tl as i128));
            if tf != file {
                t.set("file", s(tf));
            }
            let e = self.macro_chain(term.source_info.span);
            if !matches!(e, J::Null) {
                t.set("exp", e);
            }
            match &term.kind {
                TerminatorKind::Goto { target } => {
                    t.set("k", s("goto"));
                    t.set("target", n(target.as_usize() as i128));
                }
                TerminatorKind::SwitchInt { discr, targets } => {
                    t.set("k", s("switch"));
                    let dj = self.operand(did, body, discr);
                    t.set("discr", dj);
                    let dty = discr.ty(&body.local_decls, tcx);
                    let dtj = self.ty(dty);
                    t.set("dty", dtj);
                    let signed_bits = match dty.kind() {
                        ty::Int(it) => it.bit_width().or(Some(64)),
                        _ => None,
                    };
                    let mut v = Vec::new();
                    for (val, bb) in targets.iter() {
                        let val_i: i128 = match signed_bits {
                            Some(bits) => {
                                let shift = 128 - bits as u32;
                                ((val << shift) as i128) >> shift
                            }
                            None => val as i128,
                        };
                        v.push(J::Arr(vec![n(val_i), n(bb.as_usize() as i128)]));
                    }
                    t.set("targets", J::Arr(v));
                    t.set("otherwise", n(targets.otherwise().as_usize() as i128));
                }
                TerminatorKind::Return => t.set("k", s("return")),
                TerminatorKind::Unreachable => t.set("k", s("unreachable")),
                TerminatorKind::UnwindResume => t.set("k", s("resume")),
                TerminatorKind::UnwindTerminate(_) => t.set("k", s("abort")),
                TerminatorKind::Drop { place, target, .. } => {
                    t.set("k", s("drop"));
                    let pj = self.place(body, place);
                    t.set("p", pj);
                    let pt = place.ty(&body.local_decls, tcx).ty;
                    let ptj = self.ty(pt);
                    t.set("ty", ptj);
                    t.set("target", n(target.as_usize() as i128));
                }
                TerminatorKind::Call { func, args, destination, target, fn_span, .. } => {
                    t.set("k", s("call"));
                    let (_ff, fl) = self.line_of(*fn_span);
                    t.set("fn_line", n(fl as i128));
                    let mut cj = J::obj();
                    match func {
                        Operand::Constant(c) => {
                            if let ty::FnDef(cdid, gargs) = *c.const_.ty().kind() {
                                cj.set("path", s(self.path(cdid)));
                                cj.set("local", J::Bool(cdid.is_local()));
                                cj.set("gargs", s(format!("{:?}", gargs)));
                                let mut ga = Vec::new();
                                for g in gargs.iter() {
                                    if let Some(t2) = g.as_type() {
                                        ga.push(self.ty(t2));
                                    }
                                }
                                cj.set("targs", J::Arr(ga));
                                if let Some(ai) = tcx.opt_associated_item(cdid) {
                                    let cont = ai.container_id(tcx);
                                    if matches!(tcx.def_kind(cont), DefKind::Trait) {
                                        cj.set("trait", s(self.path(cont)));
                                        cj.set("method", s(ai.name().as_str()));
                                    } else if matches!(tcx.def_kind(cont), DefKind::Impl { .. }) {
                                        let st = tcx.type_of(cont).instantiate_identity().skip_norm_wip();
                                        cj.set("impl_self_s", s(st.to_string()));
                                        cj.set("method", s(ai.name().as_str()));
                                    }
                                }
                                let env = ty::TypingEnv::post_analysis(tcx, did);
                                match ty::Instance::try_resolve(tcx, env, cdid, gargs) {
                                    Ok(Some(inst)) => {
                                        let rd = inst.def_id();
                                        cj.set("resolved", s(self.path(rd)));
                                        cj.set("resolved_local", J::Bool(rd.is_local()));
                                        let ik = match inst.def {
                                            ty::InstanceKind::Item(_) => "item".to_string(),
                                            ty::InstanceKind::Virtual(..) => "virtual".to_string(),
                                            ty::InstanceKind::Intrinsic(_) => "intrinsic".to_string(),
                                            ty::InstanceKind::ClosureOnceShim { .. } => "closure_once".to_string(),
                                            ty::InstanceKind::FnPtrShim(..) => "fnptr_shim".to_string(),
                                            ty::InstanceKind::DropGlue(..) => "drop_glue".to_string(),
                                            ty::InstanceKind::CloneShim(..) => "clone_shim".to_string(),
                                            ref other => format!("{:?}", other).chars().take(40).collect(),
                                        };
                                        cj.set("ikind", s(ik));
                                        if let Some(ai) = tcx.opt_associated_item(rd) {
                                            let cont = ai.container_id(tcx);
                                            if matches!(tcx.def_kind(cont), DefKind::Impl { .. }) {
                                                let st = tcx.type_of(cont).instantiate_identity().skip_norm_wip();
                                                cj.set("resolved_self_s", s(st.to_string()));
                                            }
                                        }
                                    }
                                    _ => {}
                                }
                            } else {
                                cj.set("indirect", s("const-nonfn"));
                            }
                        }
                        Operand::Copy(p) | Operand::Move(p) => {
                            let pj = self.place(body, p);
                            cj.set("indirect", pj);
                            let fty = p.ty(&body.local_decls, tcx).ty;
                            let ftj = self.ty(fty);
                            cj.set("fty", ftj);
                        }
                        #[allow(unreachable_patterns)]
                        _ => {}
                    }
                    t.set("callee", cj);
                    let mut av = Vec::new();
                    for a in args.iter() {
                        av.push(self.operand(did, body, &a.node));
                    }
                    t.set("args", J::Arr(av));
                    let dj = self.place(body, destination);
                    t.set("dest", dj);
                    match target {
                        Some(bb) => t.set("target", n(bb.as_usize() as i128)),
                        None => t.set("target", J::Null),
                    }
                }
                TerminatorKind::Assert { cond, expected, msg, target, .. } => {
                    t.set("k", s("assert"));
                    let cj = self.operand(did, body, cond);
                    t.set("cond", cj);
                    t.set("expected", J::Bool(*expected));
                    let (kind, ops) = self.assert_msg(did, body, msg);
                    t.set("ak", s(kind));
                    t.set("ops", J::Arr(ops));
                    t.set("target", n(target.as_usize() as i128));
                }
                TerminatorKind::FalseEdge { real_target, .. } => {
                    t.set("k", s("goto"));
                    t.set("target", n(real_target.as_usize() as i128));
                }
                TerminatorKind::FalseUnwind { real_target, .. } => {
                    t.set("k", s("goto"));
                    t.set("target", n(real_target.as_usize() as i128));
                }
                other => {
                    t.set("k", s("other"));
                    t.set("dbg", s(format!("{:?}", other).chars().take(200).collect::<String>()));
                    let mut v = Vec::new();
                    for bb in term.successors() {
                        v.push(n(bb.as_usize() as i128));
                    }
                    t.set("succ", J::Arr(v));
                }
            }
            b.set("term", t);
            blocks.push(b);
        }
        o.set("blocks", J::Arr(blocks));
        o
    }

    fn dump(&mut self, crate_name: &str) -> J {
        let tcx = self.tcx;
        let mut root = J::obj();
        root.set("crate", s(crate_name));
        root.set("rustc", s(rustc_version()));
        // bodies
        let mut bodies = Vec::new();
        for ldid in tcx.hir_body_owners() {
            let did = ldid.to_def_id();
            let dk = tcx.def_kind(did);
            match dk {
                DefKind::Fn | DefKind::AssocFn | DefKind::Closure => {
                    if tcx.is_constructor(did) {
                        continue;
                    }
                    let body = tcx.optimized_mir(did);
                    let kind = match dk {
                        DefKind::Fn => "fn",
                        DefKind::AssocFn => "method",
                        _ => "closure",
                    };
                    let bj = self.body(did, body, kind, None);
                    bodies.push(bj);
                    for (pi, pbody) in tcx.promoted_mir(did).iter_enumerated() {
                        let pj = self.body(did, pbody, "promoted", Some(pi.as_usize()));
                        bodies.push(pj);
                    }
                }
                DefKind::Const { .. } | DefKind::Static { .. } | DefKind::AssocConst { .. } => {
                    let body = tcx.mir_for_ctfe(did);
                    let kind = if matches!(dk, DefKind::Static { .. }) { "static" } else { "const" };
                    let bj = self.body(did, body, kind, None);
                    bodies.push(bj);
                }
                _ => {}
            }
        }
        root.set("bodies", J::Arr(bodies));
        // ADTs, const tables, trait impls
        let mut adts = J::obj();
        let mut consts = J::obj();
        let mut impls = Vec::new();
        for ldid in tcx.hir_crate_items(()).definitions() {
            let did = ldid.to_def_id();
            match tcx.def_kind(did) {
                DefKind::Struct | DefKind::Enum | DefKind::Union => {
                    let adt = tcx.adt_def(did);
                    let mut a = J::obj();
                    a.set("kind", s(if adt.is_enum() { "enum" } else if adt.is_union() { "union" } else { "struct" }));
                    let mut vs = Vec::new();
                    for (vi, v) in adt.variants().iter_enumerated() {
                        let mut vj = J::obj();
                        vj.set("name", s(v.name.as_str()));
                        if adt.is_enum() {
                            let d = adt.discriminant_for_variant(tcx, vi);
                            vj.set("discr", n(d.val as i128));
                        }
                        let mut fs = Vec::new();
                        for f in v.fields.iter() {
                            let fty = tcx.type_of(f.did).instantiate_identity().skip_norm_wip();
                            let ftj = self.ty(fty);
                            fs.push(J::Arr(vec![s(f.name.as_str()), ftj]));
                        }
                        vj.set("fields", J::Arr(fs));
                        vs.push(vj);
                    }
                    a.set("variants", J::Arr(vs));
                    adts.set(&self.path(did), a);
                }
                DefKind::Static { .. } => {
                    let t = tcx.type_of(did).instantiate_identity().skip_norm_wip();
                    if scalar_table(t) {
                        if let Ok(alloc) = tcx.eval_static_initializer(did) {
                            let a = alloc.inner();
                            if a.provenance().ptrs().is_empty() {
                                let bytes = a.inspect_with_uninit_and_ptr_outside_interpreter(0..a.len());
                                let mut c = J::obj();
                                let tj = self.ty(t);
                                c.set("ty", tj);
                                c.set("kind", s("static"));
                                c.set("bytes", s(hex(bytes)));
                                consts.set(&self.path(did), c);
                            }
                        }
                    }
                }
                DefKind::Const { .. } | DefKind::AssocConst { .. } => {
                    let generics = tcx.generics_of(did);
                    if generics.count() != 0 || generics.parent_count != 0 {
                        continue;
                    }
                    let t = tcx.type_of(did).instantiate_identity().skip_norm_wip();
                    let is_int = matches!(t.kind(), ty::Bool | ty::Char | ty::Int(_) | ty::Uint(_));
                    let is_slice_ref = matches!(t.kind(), ty::Ref(_, inner, _) if inner.is_str() || matches!(inner.kind(), ty::Slice(_) | ty::Array(..)));
                    if !(scalar_table(t) || is_int || is_slice_ref) {
                        continue;
                    }
                    if let Ok(val) = tcx.const_eval_poly(did) {
                        let mut c = J::obj();
                        let tj = self.ty(t);
                        c.set("ty", tj);
                        c.set("kind", s("const"));
                        match val {
                            mir::ConstValue::Indirect { alloc_id, offset } => {
                                let alloc = tcx.global_alloc(alloc_id).unwrap_memory();
                                let a = alloc.inner();
                                if is_slice_ref {
                                    // fat pointer (ptr, len) stored in memory: the length is the second word
                                    let off = offset.bytes() as usize;
                                    if a.len() >= off + 16 {
                                        let b = a.inspect_with_uninit_and_ptr_outside_interpreter(off + 8..off + 16);
                                        let mut w = [0u8; 8];
                                        w.copy_from_slice(b);
                                        c.set("slice_len", n(u64::from_le_bytes(w) as i128));
                                        consts.set(&self.path(did), c);
                                    }
                                } else if a.provenance().ptrs().is_empty() {
                                    let off = offset.bytes() as usize;
                                    let bytes = a.inspect_with_uninit_and_ptr_outside_interpreter(off..a.len());
                                    c.set("bytes", s(hex(bytes)));
                                    consts.set(&self.path(did), c);
                                }
                            }
                            mir::ConstValue::Scalar(mir::interpret::Scalar::Int(si)) => {
                                let v: i128 = match t.kind() {
                                    ty::Int(_) => si.to_int(si.size()),
                                    _ => si.to_uint(si.size()) as i128,
                                };
                                c.set("val", n(v));
                                consts.set(&self.path(did), c);
                            }
                            mir::ConstValue::Slice { meta, .. } => {
                                c.set("slice_len", n(meta as i128));
                                consts.set(&self.path(did), c);
                            }
                            mir::ConstValue::Scalar(mir::interpret::Scalar::Ptr(..)) => {
                                if let ty::Ref(_, inner, _) = t.kind() {
                                    if let ty::Array(_, len) = inner.kind() {
                                        if let Some(l) = len.try_to_target_usize(tcx) {
                                            c.set("slice_len", n(l as i128));
                                            consts.set(&self.path(did), c);
                                        }
                                    }
                                }
                            }
                            _ => {}
                        }
                    }
                }
                DefKind::Impl { .. } => {
                    let mut ij = J::obj();
                    let st = tcx.type_of(did).instantiate_identity().skip_norm_wip();
                    ij.set("self_s", s(st.to_string()));
                    let stj = self.ty(st);
                    ij.set("self", stj);
                    if let Some(tr) = tcx.impl_opt_trait_ref(did) {
                        let tr = tr.instantiate_identity().skip_norm_wip();
                        ij.set("trait", s(self.path(tr.def_id)));
                    }
                    let mut items = Vec::new();
                    for ai in tcx.associated_items(did).in_definition_order() {
                        if ai.is_fn() {
                            let mut it = J::obj();
                            it.set("id", s(self.path(ai.def_id)));
                            it.set("name", s(ai.name().as_str()));
                            if let Some(ti) = ai.trait_item_def_id() {
                                it.set("trait_item", s(self.path(ti)));
                            }
                            items.push(it);
                        }
                    }
                    ij.set("items", J::Arr(items));
                    let (f, l) = self.line_of(tcx.def_span(did));
                    ij.set("file", s(f));
                    ij.set("line", n(l as i128));
                    impls.push(ij);
                }
                DefKind::Trait => {
                    // provided (default) methods: which trait methods have bodies
                    let mut ij = J::obj();
                    ij.set("trait_def", s(self.path(did)));
                    let mut items = Vec::new();
                    for ai in tcx.associated_items(did).in_definition_order() {
                        if ai.is_fn() {
                            let mut it = J::obj();
                            it.set("id", s(self.path(ai.def_id)));
                            it.set("name", s(ai.name().as_str()));
                            it.set("has_default", J::Bool(ai.defaultness(tcx).has_value()));
                            items.push(it);
                        }
                    }
                    ij.set("items", J::Arr(items));
                    impls.push(ij);
                }
                _ => {}
            }
        }
        root.set("adts", adts);
        root.set("consts", consts);
        root.set("impls", J::Arr(impls));
        root.set("types", J::Arr(std::mem::take(&mut self.types)));
        root
    }
}

fn scalar_table(t: Ty<'_>) -> bool {
    match t.kind() {
        ty::Array(inner, _) => scalar_table(*inner) || scalar_elem(*inner),
        _ => false,
    }
}
fn scalar_elem(t: Ty<'_>) -> bool {
    match t.kind() {
        ty::Bool | ty::Char | ty::Int(_) | ty::Uint(_) | ty::Float(_) => true,
        ty::Tuple(ts) => ts.iter().all(scalar_elem),
        ty::Array(inner, _) => scalar_elem(*inner),
        ty::Adt(adt, _) => adt.is_struct() && adt.did().is_local(),
        _ => false,
    }
}

fn hex(b: &[u8]) -> String {
    let mut s = String::with_capacity(b.len() * 2);
    for x in b {
        let _ = write!(s, "{:02x}", x);
    }
    s
}

fn binop_name(op: BinOp) -> &'static str {
    match op {
        BinOp::Add => "Add",
        BinOp::AddUnchecked => "Add",
        BinOp::AddWithOverflow => "AddO",
        BinOp::Sub => "Sub",
        BinOp::SubUnchecked => "Sub",
        BinOp::SubWithOverflow => "SubO",
        BinOp::Mul => "Mul",
        BinOp::MulUnchecked => "Mul",
        BinOp::MulWithOverflow => "MulO",
        BinOp::Div => "Div",
        BinOp::Rem => "Rem",
        BinOp::BitXor => "BitXor",
        BinOp::BitAnd => "BitAnd",
        BinOp::BitOr => "BitOr",
        BinOp::Shl => "Shl",
        BinOp::ShlUnchecked => "Shl",
        BinOp::Shr => "Shr",
        BinOp::ShrUnchecked => "Shr",
        BinOp::Eq => "Eq",
        BinOp::Lt => "Lt",
        BinOp::Le => "Le",
        BinOp::Ne => "Ne",
        BinOp::Ge => "Ge",
        BinOp::Gt => "Gt",
        BinOp::Cmp => "Cmp",
        BinOp::Offset => "Offset",
    }
}

fn rustc_version() -> String {
    option_env!("CFG_VERSION").unwrap_or("nightly").to_string()
}

// Minimal JSON value + writer (the driver has zero crate dependencies).
use std::fmt::Write as _;

pub enum J {
    Null,
    Bool(bool),
    Num(i128),
    Str(String),
    Arr(Vec<J>),
    Obj(Vec<(String, J)>),
}

impl J {
    pub fn obj() -> J {
        J::Obj(Vec::new())
    }
    pub fn set(&mut self, k: &str, v: J) {
        if let J::Obj(o) = self {
            o.push((k.to_string(), v));
        }
    }
    pub fn write(&self, out: &mut String) {
        match self {
            J::Null => out.push_str("null"),
            J::Bool(b) => out.push_str(if *b { "true" } else { "false" }),
            J::Num(n) => {
                let _ = write!(out, "{}", n);
            }
            J::Str(s) => write_str(s, out),
            J::Arr(a) => {
                out.push('[');
                for (i, x) in a.iter().enumerate() {
                    if i > 0 {
                        out.push(',');
                    }
                    x.write(out);
                }
                out.push(']');
            }
            J::Obj(o) => {
                out.push('{');
                for (i, (k, v)) in o.iter().enumerate() {
                    if i > 0 {
                        out.push(',');
                    }
                    write_str(k, out);
                    out.push(':');
                    v.write(out);
                }
                out.push('}');
            }
        }
    }
}

fn write_str(s: &str, out: &mut String) {
    out.push('"');
    for c in s.chars() {
        match c {
            '"' => out.push_str("\\\""),
            '\\' => out.push_str("\\\\"),
            '\n' => out.push_str("\\n"),
            '\r' => out.push_str("\\r"),
            '\t' => out.push_str("\\t"),
            c if (c as u32) < 0x20 => {
                let _ = write!(out, "\\u{:04x}", c as u32);
            }
            c => out.push(c),
        }
    }
    out.push('"');
}

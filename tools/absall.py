#!/usr/bin/env python3
"""run the abstract interpreter on every body; report crashes, timing and obligation statistics"""
import os, sys, time, traceback
from collections import Counter
sys.path.insert(0, os.path.dirname(os.path.dirname(os.path.abspath(__file__))))
sys.setrecursionlimit(20000)
from analysis import facts as F
from analysis.absint import Analyzer
f = F.load()
an = Analyzer(f)
stats = Counter(); t0 = time.time(); slow = []; crashes = []
for b in f.bodies.values():
    if b.kind not in ("fn", "method", "closure"):
        continue
    t = time.time()
    try:
        r = an.analyze(b)
    except Exception as e:
        crashes.append((b.id, traceback.format_exc().splitlines()[-3:]))
        continue
    dt = time.time() - t
    if dt > 0.5: slow.append((dt, b.id, b.nblocks))
    for o in r.obls:
        stats[(o.cls, o.ok)] += 1
print("total %.1fs" % (time.time() - t0))
for k in sorted(stats): print(k, stats[k])
print("slow:", sorted(slow, reverse=True)[:10])
print("crashes:", len(crashes))
seen = Counter()
for c in crashes:
    key = c[1][-1]
    seen[key] += 1
    if seen[key] <= 1:
        print(c[0]); print("\n".join(c[1]))
print(seen.most_common(10))

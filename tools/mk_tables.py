#!/usr/bin/env python3
"""tools/mk_tables.py <prop> — one-off helper: proposes reviewed-safe / known-finding entries for the current
findings of a property from triage rules in tools/triage_rules.py (first matching substring wins). The output is
reviewed by hand and frozen in tables/reviewed_safe.json and known_findings.txt (never written at check time)."""
import json, os, re, subprocess, sys
VERIF = os.path.dirname(os.path.dirname(os.path.abspath(__file__)))
sys.path.insert(0, os.path.join(VERIF, "tools"))
import triage_rules as TR
prop = sys.argv[1]
REBUILD = "--rebuild" in sys.argv      # drop this property's existing entries first (after an engine change that renames keys)
env = dict(os.environ, VERIF_EVIDENCE_DIR="/tmp/mk-tables-evidence")
# also keep keys already tabled (they no longer show up as violations)
rev_path = os.path.join(VERIF, "tables", "reviewed_safe.json")
reviewed = json.load(open(rev_path)) if os.path.exists(rev_path) else []
known_path = os.path.join(VERIF, "known_findings.txt")
known_lines = open(known_path).read().splitlines() if os.path.exists(known_path) else []
if REBUILD:
    keep = []
    for e in reviewed:
        if prop in e["properties"]:
            e["properties"].remove(prop)
            if not e["properties"]:
                continue
        keep.append(e)
    reviewed = keep
    known_lines = [l for l in known_lines if not l.startswith("known: property=%s " % prop)]
    json.dump(reviewed, open(rev_path, "w"), indent=1, ensure_ascii=False)
    open(known_path, "w").write("\n".join(known_lines) + "\n")
have_rev = {}
for e in reviewed:
    have_rev[e["key"]] = e
have_known = {l for l in known_lines}
out = subprocess.run([os.path.join(VERIF, "check"), prop], stdout=subprocess.PIPE, stderr=subprocess.STDOUT, text=True, env=env).stdout
if "INTERNAL ERROR" in out or not re.search(r"^%s: (ok|FAIL) " % prop, out, re.M):
    print(out[-3000:])
    sys.exit("check %s gave no verdict; tables left as they are" % prop)
# every violation block:  "  key: K   (found xN, allowed xM)"  optionally followed by  "  detail: <fine-grained key>"
blocks = []
lines = out.splitlines()
for i, ln in enumerate(lines):
    m = re.match(r"^  key: (.*?)   \(found x(\d+), allowed x(\d+)\)$", ln)
    if m:
        det = None
        if i + 1 < len(lines) and lines[i + 1].startswith("  detail: "):
            det = lines[i + 1][len("  detail: "):]
        blocks.append((m.group(1), det))
# triage each site by its fine-grained description, then count per (key, verdict)
agg = {}
unmatched = []
seen = set()
for key, det in blocks:
    text = det or key
    if (key, text) in seen and det is not None:
        pass
    disp = None
    legacy = re.sub(r" ~.*?(?= #|\||$)", "", text)          # the description without its skeleton (what the triage rules were written against)
    legacy_key = re.sub(r" ~.*?(?= #|\||$)", "", key)
    for sub, kind, why in TR.RULES.get(prop, []):
        if sub in text or sub in key or sub in legacy or sub in legacy_key:
            disp = (kind, why)
            break
    if disp is None:
        unmatched.append(text)
        continue
    a = agg.setdefault((key, disp[0]), {"count": 0, "reasons": []})
    a["count"] += 1
    if disp[1] not in a["reasons"]:
        a["reasons"].append(disp[1])
for (key, kind), a in sorted(agg.items()):
    n = a["count"]
    text = " / ".join(a["reasons"])
    if kind == "reviewed":
        e = have_rev.get(key)
        if e is None:
            e = {"properties": [prop], "key": key, "count": n, "reason": text}
            reviewed.append(e)
            have_rev[key] = e
        else:
            if prop not in e["properties"]:
                e["properties"].append(prop)
            e["count"] = max(e["count"], n)
    else:
        line = "known: property=%s key=%s count=%d what=%s" % (prop, key, n, text)
        if line not in have_known:
            known_lines.append(line)
json.dump(reviewed, open(rev_path, "w"), indent=1, ensure_ascii=False)
open(known_path, "w").write("\n".join(known_lines) + "\n")
print("reviewed entries: %d, known lines: %d, unmatched keys: %d" % (len(reviewed), len(known_lines), len(unmatched)))
for k in unmatched:
    print("  UNMATCHED", k[:200])

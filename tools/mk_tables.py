#!/usr/bin/env python3
"""tools/mk_tables.py <prop> — one-off helper: proposes reviewed-safe / known-finding entries for the current
findings of a property from triage rules in tools/triage_rules.py (first matching substring wins). The output is
reviewed by hand and frozen in tables/reviewed_safe.json and known_findings.txt (never written at check time)."""
import json, os, re, subprocess, sys
VERIF = os.path.dirname(os.path.dirname(os.path.abspath(__file__)))
sys.path.insert(0, os.path.join(VERIF, "tools"))
import triage_rules as TR
prop = sys.argv[1]
REBUILD = "--rebuild" in sys.argv      # drop this property's existing entries first (after an engine change that renames keys)
env = dict(os.environ, VERIF_EVIDENCE_DIR="/tmp/mk-tables-evidence")
# also keep keys already tabled (they no longer show up as violations)
rev_path = os.path.join(VERIF, "tables", "reviewed_safe.json")
reviewed = json.load(open(rev_path)) if os.path.exists(rev_path) else []
known_path = os.path.join(VERIF, "known_findings.txt")
known_lines = open(known_path).read().splitlines() if os.path.exists(known_path) else []
if REBUILD:
    keep = []
    for e in reviewed:
        if prop in e["properties"]:
            e["properties"].remove(prop)
            if not e["properties"]:
                continue
        keep.append(e)
    reviewed = keep
    known_lines = [l for l in known_lines if not l.startswith("known: property=%s " % prop)]
    json.dump(reviewed, open(rev_path, "w"), indent=1, ensure_ascii=False)
    open(known_path, "w").write("\n".join(known_lines) + "\n")
have_rev = {}
for e in reviewed:
    have_rev[e["key"]] = e
have_known = {l for l in known_lines}
out = subprocess.run([os.path.join(VERIF, "check"), prop], stdout=subprocess.PIPE, stderr=subprocess.STDOUT, text=True, env=env).stdout
if "INTERNAL ERROR" in out or not re.search(r"^%s: (ok|FAIL) " % prop, out, re.M):
    print(out[-3000:])
    sys.exit("check %s gave no verdict; tables left as they are" % prop)
counts = {}
for m in re.finditer(r"^  key: (.*?)   \(found x(\d+), allowed x(\d+)\)$", out, re.M):
    counts[m.group(1)] = int(m.group(2))
unmatched = []
for key, n in sorted(counts.items()):
    disp = None
    for sub, kind, text in TR.RULES.get(prop, []):
        if sub in key:
            disp = (kind, text)
            break
    if disp is None:
        unmatched.append(key)
        continue
    kind, text = disp
    if kind == "reviewed":
        e = have_rev.get(key)
        if e is None:
            e = {"properties": [prop], "key": key, "count": n, "reason": text}
            reviewed.append(e)
            have_rev[key] = e
        else:
            if prop not in e["properties"]:
                e["properties"].append(prop)
            e["count"] = max(e["count"], n)
    else:
        line = "known: property=%s key=%s count=%d what=%s" % (prop, key, n, text)
        if line not in have_known:
            known_lines.append(line)
json.dump(reviewed, open(rev_path, "w"), indent=1, ensure_ascii=False)
open(known_path, "w").write("\n".join(known_lines) + "\n")
print("reviewed entries: %d, known lines: %d, unmatched keys: %d" % (len(reviewed), len(known_lines), len(unmatched)))
for k in unmatched:
    print("  UNMATCHED", k[:200])

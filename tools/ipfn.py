#!/usr/bin/env python3
"""tools/ipfn.py <body substr> [-v] — interprocedural analysis of one body (callee summaries computed on demand)"""
import os, sys
sys.path.insert(0, os.path.dirname(os.path.dirname(os.path.abspath(__file__))))
sys.setrecursionlimit(50000)
from analysis import facts as F
from rules import panic_common as P
f = F.load(); g, ip = P.shared(f)
pat = sys.argv[1]; verbose = "-v" in sys.argv
for b in f.bodies.values():
    if pat in b.id and b.kind in ("fn", "method", "closure"):
        s = ip.summary(b.id); r = ip.results[b.id]; an = ip.an; an.b = b
        print("==", b.id, "exports=%d" % len(s.exports), "ret=", s.ret)
        for o in r.obls:
            if o.cls == "S9": continue
            print("  %-4s %s bb%-3d L%-4d %-9s %s | %s" % (o.cls, "ok " if o.ok else "FAIL", o.block, o.line or 0, o.rule or "", o.desc[:100], "" if o.ok else o.what[:100]))
        if verbose:
            for bi in sorted(r.in_states):
                st = r.in_states[bi]
                print("  in bb%d: iv=%s\n      rel=%s\n      sym=%s" % (bi, {an.ts(k): v for k, v in st.iv.items()}, {(an.ts(a), an.ts(c)): d for (a, c), d in st.rel.items()}, {k: v for k, v in st.sym.items() if v[0] != "ref"}))

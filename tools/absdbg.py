#!/usr/bin/env python3
"""tools/absdbg.py <body id substring> [-v] — run the abstract interpreter on matching bodies, list obligations"""
import os, sys, time
sys.path.insert(0, os.path.dirname(os.path.dirname(os.path.abspath(__file__))))
sys.setrecursionlimit(20000)
from analysis import facts as F
from analysis.absint import Analyzer
f = F.load()
pat = sys.argv[1]
verbose = "-v" in sys.argv
an = Analyzer(f)
for b in f.bodies.values():
    if pat in b.id and b.kind in ("fn", "method", "closure"):
        t = time.time()
        r = an.analyze(b)
        print("== %s  blocks=%d iters=%d %.2fs" % (b.id, b.nblocks, r.iterations, time.time() - t))
        for o in r.obls:
            if o.cls == "S9" and not verbose:
                continue
            print("  %-4s %s bb%-3d L%-4d %-6s %s | %s" % (o.cls, "ok " if o.ok else "FAIL", o.block, o.line or 0, o.rule or "", o.desc[:90], "" if o.ok else o.what))
        if verbose:
            for bi in sorted(r.in_states):
                st = r.in_states[bi]
                print("  in bb%d: iv=%s rel=%s sym=%s" % (bi, {an.ts(k): v for k, v in st.iv.items()}, {(an.ts(a), an.ts(b)): c for (a, b), c in st.rel.items()}, {k: v for k, v in st.sym.items()}))

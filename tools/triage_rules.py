"""Triage decisions (made by reading the code at each site; see DESIGN §6).  (substring of key, disposition, text)"""
MUSIC = "cur_music is Some whenever the parser is in EngineState::ParseAnsiMusic: all three transitions into that state (ansi/mod.rs, CSI M / CSI N / CSI |) assign cur_music = Some(..) first, and parse_default_ansi_music replaces it with a fresh Some"
ASCII_PREFIX = "the index counts only ASCII characters ('0'..='9', ';') consumed from the start of parse_string, so it is a byte offset <= len on a char boundary"
RULES = {
 "C01": [
  ("unwrap(as_mut(&*self.cur_music))", "reviewed", MUSIC),
  ("unwrap(replace(&*self.cur_music", "reviewed", MUSIC),
  ("limit_caret_pos|S7|clamp(", "reviewed", "min <= max needs terminal height >= 1: the property quantifies over screens 1..=132 x 1..=60 and the only resize path (CSI 8;h;w t) clamps height to >= 1"),
  ("get_font_dimensions|S2|index(&*self.font_table", "reviewed", "font slot 0 is inserted by Buffer::new/create and never removed on the terminal paths (clear_font_table is only called by loaders on a fresh frame); 'attached to a terminal buffer' is the property's precondition"),
  ("OSC_PALETTE as std::ops::Deref>::deref::__static_ref_initialize|S4", "reviewed", "T4: Regex::new on a literal pattern in a lazy static; the pattern is valid (the 227 tests exercise it)"),
  ("parse_osc|S4|unwrap(get(&(next(&iter) as Some).0, 2))", "reviewed", "capture group 2 of OSC_PALETTE is not optional: present in every match"),
  ("parse_osc|S4|unwrap(get(&(next(&iter) as Some).0, 3))", "reviewed", "capture group 3 of OSC_PALETTE is not optional: present in every match"),
  ("parse_osc|S4|unwrap(get(&(next(&iter) as Some).0, 4))", "reviewed", "capture group 4 of OSC_PALETTE is not optional: present in every match"),
  ("parse_osc|S4|unwrap(first(", "reviewed", "guarded by i == 3: three digit/';' characters were consumed, each of which pushes to or keeps parsed_numbers non-empty"),
  ("parse_osc|S2s|index(&*self.parse_string, RangeFrom{3})", "reviewed", "guarded by i == 3; " + ASCII_PREFIX),
  ("execute_dcs|S2s|index(&*self.parse_string, RangeFrom{i})", "reviewed", ASCII_PREFIX),
  ("execute_dcs::{closure#0}|S2s|", "reviewed", "i + 1 <= len: the branch is entered only when parse_string[i..] starts with 'q' (one ASCII byte at offset i); " + ASCII_PREFIX),
  ("load_custom_font|S2s|", "reviewed", "load_custom_font is called only when parse_string starts with the ASCII literal 'CTerm:Font:'; idx comes from find(':') in the remainder, ':' is one ASCII byte, so start_index <= idx < idx + 1 <= len on char boundaries"),
  ("parse_hex_macro_sequence|S2s|", "reviewed", "start_index = i + 2 where parse_string[i..] starts with '!z' (two ASCII bytes); " + ASCII_PREFIX),
  ("parse_macro_sequence|S2s|", "reviewed", "start_index = i + 2 where parse_string[i..] starts with '!z' (two ASCII bytes); " + ASCII_PREFIX),
  ("HalfBlock::from|S2|index(", "reviewed", "i < len/2 implies len/2 + i < len (needs 2*(len/2) <= len, outside the difference-constraint domain)"),
  ("line::Line::set_char|S2|index_mut(&*self.chars, (index as usize)) #lower", "reviewed", "only the non-negativity of the column is unproven: reached from Caret::erase_charcter with i counting up from caret.pos.x (>= 0 by C09's R-CARET-CLAMP, no wrap since i <= terminal width)"),
  ("line::Line::create|S3|resize(", "reviewed", "T6: layer width is non-negative (set only by Buffer/Layer constructors and the clamped terminal resize)"),
  ("translate_sixel_to_pixel|S6|rem0(", "reviewed", "the sixel palette is created with the 16 default colours and only grows (set/insert); it is never cleared"),
  ("translate_sixel_to_pixel|S2|index_mut(&*index_mut(", "reviewed", "row lengths are always multiples of 4 (vec![0; width*4] / resize((x+1)*4)), so len > 4x implies len >= 4x+4; sixel_cursor.x is only reset to 0 or incremented"),
  ("translate_sixel_to_pixel|S2|index_mut(&*self.picture_data, (((*self.sixel_cursor.y * 6) + (next(&iter) as Some).0) as usize)) #lower", "reviewed", "only non-negativity is unproven: sixel_cursor.y starts at 0 and is only incremented"),
  ("SixelParser::parse_char|S3|resize(", "reviewed", "parsed_numbers entries are >= 0: built by parse_next_number from 0 with saturating arithmetic on digits only"),
  # ---- genuine defects (DESIGN §6; reproduced against the pristine tree)
  ("parsers::Buffer::scroll_left|", "known", "CSI Pn SP @ on rows not yet allocated / columns beyond the row's length: unguarded lines[i], chars.insert/remove"),
  ("parsers::Buffer::scroll_right|", "known", "CSI Pn SP A on rows not yet allocated / columns beyond the row's length: unguarded lines[i], chars.insert/remove"),
  ("handle_osc_hyperlinks|S4|unwrap(pop(", "known", "OSC 8 ; ; ST with no open hyperlink: hyper_links.pop().unwrap() on an empty stack"),
  ("parse_osc|S4|unwrap(get(&(next(&iter) as Some).0, 1))", "known", "OSC 4 ; ; rgb:.. : capture group 1 of OSC_PALETTE is optional ((\\d+)?) and is unwrapped"),
  ("parse_ansi_music|S1|bounds(84", "known", "ANSI music: repeated '+'/'#' raise the note index past FREQ's 84 entries (FREQ[n + octave*12])"),
  ("fonts::BitFont::from_bytes|", "known", "custom font DCS (CTerm:Font) with a payload shorter than the magic bytes: data[0..2] / data[0..4]"),
  ("fonts::BitFont::load_psf1|", "known", "custom font DCS with a truncated PSF1 header: data[2], data[3]"),
  ("fonts::BitFont::load_psf2|", "known", "custom font DCS with a truncated PSF2 header / header_size beyond the data"),
  ("fonts::glyphs_from_u8_data|", "known", "custom font data whose length is not a multiple of the glyph height: data[..font_height]"),
  ("layer::Layer::insert_line|S5|", "known", "insert_line(end, ..) with a bottom margin taken unclamped from CSI r (negative when a parameter is 0): assert!(index >= 0)"),
  ("layer::Layer::remove_line|S5|", "known", "remove_line(line) with a negative line reached through degenerate margins: assert!"),
  ("insert_terminal_line|S3|remove(", "known", "lines.remove(end) with a bottom margin taken unclamped from CSI r (negative -> huge index)"),
 ],
}


LOADER = "offset cursor advanced by header-derived amounts / fixed record sizes without re-checking the remaining length"
RULES["C02"] = [
  # ---- LOAD-specific, genuine (truncated / corrupted files)
  ("layer::Layer::from_clipboard_data|", "known", "clipboard payload shorter than the 17-byte header or than width*height*14 cell bytes: no length check at all (data[0], data[1..5] .. data[13..17], per-cell data[0..13])"),
  ("IcyDraw as formats::OutputFormat>::load_buffer|S5|", "known", "layer role PastePreview / PasteImage in a LAYER chunk reaches todo!()"),
  ("IcyDraw as formats::OutputFormat>::load_buffer|S2|index(&(decode(", "known", "decoded zTXt chunk shorter than the fields read from it (ICED header, LAYER_n record, per-cell records): bytes[o], bytes[o..o+2/4/8] unchecked"),
  ("IcyDraw as formats::OutputFormat>::load_buffer|S2|index_mut(&result.layers", "known", "LAYER_n~k continuation chunk naming a layer index that does not exist: result.layers[layer_num]"),
  ("IcyDraw as formats::OutputFormat>::load_buffer|S2|index_mut(&*index_mut(&result.layers", "known", "image layer chunk: sixels[0] on a layer that has no sixel"),
  ("IcyDraw as formats::OutputFormat>::load_buffer|S2|index(&*data, RangeFrom{len})", "reviewed", "len is the number of bytes the streaming PNG decoder reports as consumed from data (<= data.len())"),
  ("formats::icy_draw::read_utf8_encoded_string|", "known", "string length prefix larger than the rest of the chunk (or chunk shorter than 4 bytes): data[0..4], data[4..4+size]"),
  ("TundraDraw as formats::OutputFormat>::load_buffer|S1|bounds(len(data), o)", "known", "Tundra record truncated after its command byte: data[o] read after o += 1 / o += 4 without re-checking (e.g. '\\x18TUNDRA24\\x02')"),
  ("formats::tundra::to_u32|", "known", "Tundra colour / position record with fewer than 4 bytes left: to_u32(&data[o..]) reads bytes[0..=3]"),
  ("XBin as formats::OutputFormat>::load_buffer|S2|index(&*data, Range{o, (o + 48)})", "known", "XBIN header with the palette flag and fewer than 48 bytes after it"),
  ("XBin as formats::OutputFormat>::load_buffer|S2|index(&*data, Range{o, (o + ((font_size", "known", "XBIN header with the font flag and fewer than font_size*256 bytes after it"),
  ("XBin as formats::OutputFormat>::load_buffer|S2|index(&*data, RangeFrom{o})", "known", "XBIN palette/font blocks declared but absent: o advanced past the end before &data[o..]"),
  ("formats::xbinary::read_data_compressed|S1|bounds(len(bytes), o)", "known", "compressed XBin run header at the last byte: bytes[o] read right after o += 1 in the Char/Attr/Full arms"),
  ("IceDraw as formats::OutputFormat>::load_buffer|S2|index(&*data, Range{o, (o + 48)})", "known", "IDF file whose palette block (48 bytes after the font) is missing"),
  ("load_buffer|S4|unwrap(from_bytes('', &*", "reviewed", "BitFont::from_bytes on an embedded font constant (include_bytes! of a PSF/raw font shipped with the crate): the bytes are a valid font, so the Result is Ok"),
  ("TundraDraw as formats::OutputFormat>::load_buffer|S2|index(&*data, RangeFrom{o})", "known", "Tundra position record (cmd 1) truncated: o += 1 / o += 4 and then &data[o..] with o past the end (e.g. '\\x18TUNDRA24\\x01' + fewer than 8 bytes)"),
  ("buffers::Buffer::from_bytes|S2|index(&*bytes, RangeTo{len})", "known", "a file that consists of exactly the 128-byte SAUCE record: SauceData::extract computes offset = len - 1 with len = 0 (wraps in release, overflow panic in debug), sauce_header_len becomes data.len() + 1 and `len -= sauce_header_len` wraps: &bytes[..usize::MAX]"),
  ("buffers::Buffer::from_bytes|S4|unwrap(extension(", "known", "file name without an extension: file_name.extension().unwrap()"),
  ("palette_handling::Palette::load_palette|S5|", "known", "PaletteFormat::Ase reaches todo!()"),
  ("tdf_font::TheDrawFont::from_tdf_bytes|", "known", "TDF file truncated inside a font header / glyph table / glyph: " + LOADER),
  ("sauce_mod::SauceString::<LEN, EMPTY>::read|", "reviewed", "read is only called from SauceData::extract on &data[o..] with o = len-128 + the fixed field offsets (record fields sum to 128 and len >= 128 is checked first), and on 64-byte comment lines inside the comment block whose start is checked by the signed guard"),
  ("sauce_mod::SauceData::extract|S5|assert_failed", "reviewed", "o = len - 128 + the sum of the fixed field sizes (= 128): the assertion is an identity"),
  ("sauce_mod::SauceData::extract|", "reviewed", "after `data.len() < SAUCE_LEN -> return`, o runs from len-128 over the 128 fixed-size fields; the comment block start (len-128) - 64n - 5 is checked non-negative by the signed guard before data[o..o+5]"),
  ("formats::artworx::from_ega_data|", "reviewed", "EGA_COLOR_OFFSETS holds values <= 63, so 3*i+2 <= 191; both callers pass exactly 192 bytes (&data[o..o+EGA_PALETTE_SIZE] after a length check)"),
  ("palette_handling::Palette::from_63|", "reviewed", "callers pass slices whose length is a multiple of 3 (48 bytes: XBIN_PALETTE_LENGTH / IDF PALETTE_SIZE), so o < len implies o+2 < len"),
  ("formats::parse_with_parser|S6|", "reviewed", "font slot 0 of a freshly created Buffer is the built-in 8x16 font; width and height are non-zero"),
  ("<fonts::BitFont as std::default::Default>::default|S4|", "reviewed", "font page 0 is the embedded CP437 font (include_bytes!), a valid PSF2 file"),
  ("layer::Layer::new|S3|resize(", "reviewed", "only non-negativity of the height is unproven; every loader passes sizes built from unsigned header fields or constants (T6)"),
] + RULES["C01"]

RULES["C14"] = [r for r in RULES["C01"] if "sixel" in r[0].lower() or "Sixel" in r[0]]

RULES["C07"] = [
  ("IcyDraw::to_bytes|trunc|usize as u16|", "reviewed", "the format stores font pages in 16 bits; the property quantifies over font slots 0..=300, which fit (a font page above 65535 would be a format limitation, not a cell-level loss inside the quantifier)"),
]

MARGINS = ("DECSTBM / DECCARA-style margin setters store `Pn - 1` unvalidated (CSI 0;0 r gives top = bottom = -1, CSI 1;9999 r a bottom below the screen); "
           "with origin mode (CSI ?6h) every row computed from get_first_editable_line / get_last_editable_line leaves the visible rows")
ABS00 = "sets the cursor to the absolute buffer position (0,0) while scrollback rows remain (first visible row > 0): the cursor is above the screen"
RULES["C09"] = [
  # ---- genuine leaks (the property's own anchors name them; each reproduced by reading the path)
  ("limit_caret_pos|row-lo|", "known", MARGINS + " -- limit_caret_pos clamps into [first editable, max(last editable - 1, first editable)], which is negative for top = bottom = -1"),
  ("set_top_and_bottom_margins|row-lo|", "known", MARGINS + " -- caret.pos = upper_left_position() right after storing the margins"),
  ("change_scrolling_region|row-lo|", "known", MARGINS + " -- caret.pos = upper_left_position() with margins left by an earlier CSI r"),
  ("check_scrolling_on_caret_down|row-lo|", "known", MARGINS + " -- pos.y > last editable line (= -1) then pos.y -= 1"),
  ("Caret::ff|store-y|default()", "known", "form feed: " + ABS00 + " (Caret::ff clears the layer but the buffer keeps its height)"),
  ("caret::Caret::reset|store-y|default()", "known", "RIS / DECSTR: " + ABS00),
  ("ctrla::Parser as parsers::BufferParser>::print_char|store-y|default()", "known", "Ctrl-A ' (home): " + ABS00),
  ("restore_cursor_position|row-lo|", "known", "CSI u restores a row saved before the scrollback grew (or under other margins) without limit_caret_pos"),
  ("restore_cursor_position|col-lo|", "reviewed", "saved_pos.x is a copy of an earlier in-range column (or the initial 0); the width only changes through CSI 8 t, which the property's precondition excludes"),
  ("restore_cursor_position|store-y|", "known", "CSI u restores a row saved before the scrollback grew (or under other margins) without limit_caret_pos"),
  ("print_char|store-y|clone(&(*self.saved_cursor_opt", "known", "ESC 8 (DECRC) restores a whole Caret saved before the scrollback grew without limit_caret_pos"),
  ("{closure#4}|col|after next_tab_stop", "known", "CSI Pn I (CVT / CHT): next_tab_stop returns get_width() past the last stop and the column is stored unclamped (x == width)"),
  ("avatar::Parser as parsers::BufferParser>::print_char|col|store pos.x = min(79", "known", "Avatar ^V^F (cursor right) clamps to column 79 whatever the terminal width (screens narrower than 80 columns)"),
  ("avatar::Parser as parsers::BufferParser>::print_char|col|store pos.y = (ch as i32)", "known", "Avatar ^V^H row col (goto) stores both coordinates straight from the stream"),
  ("avatar::Parser as parsers::BufferParser>::print_char|store-y|(ch as i32)", "known", "Avatar ^V^H row col (goto) stores the row straight from the stream"),
  ("avatar::Parser as parsers::BufferParser>::print_char|store-y|(*caret.pos.y + 1)", "known", "Avatar ^V^D (cursor down) increments the row without limit_caret_pos / scrolling"),
  ("avatar::Parser as parsers::BufferParser>::print_char|store-y|max(0, (*caret.pos.y - 1))", "known", "Avatar ^V^C (cursor up) clamps at buffer row 0, not at the first visible row"),
  # ---- reviewed
  ("{closure#5}|col|after prev_tab_stop", "reviewed", "CBT: prev_tab_stop returns 0 or a stored tab stop strictly below the current column; tab stops are cursor columns (set_tab_at(caret.x)) or multiples of 8 below the width (reset_tabs), hence within 0..=x-1"),
  ("print_char|col|after restore_cursor_position", "reviewed", "saved_pos.x is a copy of an earlier in-range column (or the initial 0); the width only changes through CSI 8 t, which the property's precondition excludes"),
  ("print_char|col|after window_manipulation", "reviewed", "CSI 8;h;w t resizes the text area: excluded by the property's precondition (streams that do not request a resize)"),
  ("mode7::Parser::caret_down|row-fixed|after index", "reviewed", "Caret::index ends in limit_caret_pos, which clamps to [first visible, first visible + height - 1]; on a fixed page the buffer height equals the terminal height (R-FIXED-GRID: no grower reachable), so first visible = 0"),
  ("print_char|row-fixed|after home", "reviewed", "home = upper_left_position(): origin mode is only ever set by the ANSI parser, so y = first visible line, which is 0 on a fixed page (R-FIXED-GRID: the buffer never grows)"),
]

"""Triage decisions (made by reading the code at each site; see DESIGN §6).  (substring of key, disposition, text)"""
MUSIC = "cur_music is Some whenever the parser is in EngineState::ParseAnsiMusic: all three transitions into that state (ansi/mod.rs, CSI M / CSI N / CSI |) assign cur_music = Some(..) first, and parse_default_ansi_music replaces it with a fresh Some"
ASCII_PREFIX = "the index counts only ASCII characters ('0'..='9', ';') consumed from the start of parse_string, so it is a byte offset <= len on a char boundary"
RULES = {
 "C01": [
  ("unwrap(as_mut(&*self.cur_music))", "reviewed", MUSIC),
  ("unwrap(replace(&*self.cur_music", "reviewed", MUSIC),
  ("limit_caret_pos|S7|clamp(", "reviewed", "min <= max needs terminal height >= 1: the property quantifies over screens 1..=132 x 1..=60 and the only resize path (CSI 8;h;w t) clamps height to >= 1"),
  ("get_font_dimensions|S2|index(&*self.font_table", "reviewed", "font slot 0 is inserted by Buffer::new/create and never removed on the terminal paths (clear_font_table is only called by loaders on a fresh frame); 'attached to a terminal buffer' is the property's precondition"),
  ("OSC_PALETTE as std::ops::Deref>::deref::__static_ref_initialize|S4", "reviewed", "T4: Regex::new on a literal pattern in a lazy static; the pattern is valid (the 227 tests exercise it)"),
  ("parse_osc|S4|unwrap(get(&(next(&iter) as Some).0, 2))", "reviewed", "capture group 2 of OSC_PALETTE is not optional: present in every match"),
  ("parse_osc|S4|unwrap(get(&(next(&iter) as Some).0, 3))", "reviewed", "capture group 3 of OSC_PALETTE is not optional: present in every match"),
  ("parse_osc|S4|unwrap(get(&(next(&iter) as Some).0, 4))", "reviewed", "capture group 4 of OSC_PALETTE is not optional: present in every match"),
  ("parse_osc|S4|unwrap(first(", "reviewed", "guarded by i == 3: three digit/';' characters were consumed, each of which pushes to or keeps parsed_numbers non-empty"),
  ("parse_osc|S2s|index(&*self.parse_string, RangeFrom{3})", "reviewed", "guarded by i == 3; " + ASCII_PREFIX),
  ("execute_dcs|S2s|index(&*self.parse_string, RangeFrom{i})", "reviewed", ASCII_PREFIX),
  ("execute_dcs::{closure#0}|S2s|", "reviewed", "i + 1 <= len: the branch is entered only when parse_string[i..] starts with 'q' (one ASCII byte at offset i); " + ASCII_PREFIX),
  ("load_custom_font|S2s|", "reviewed", "load_custom_font is called only when parse_string starts with the ASCII literal 'CTerm:Font:'; idx comes from find(':') in the remainder, ':' is one ASCII byte, so start_index <= idx < idx + 1 <= len on char boundaries"),
  ("parse_hex_macro_sequence|S2s|", "reviewed", "start_index = i + 2 where parse_string[i..] starts with '!z' (two ASCII bytes); " + ASCII_PREFIX),
  ("parse_macro_sequence|S2s|", "reviewed", "start_index = i + 2 where parse_string[i..] starts with '!z' (two ASCII bytes); " + ASCII_PREFIX),
  ("HalfBlock::from|S2|index(", "reviewed", "i < len/2 implies len/2 + i < len (needs 2*(len/2) <= len, outside the difference-constraint domain)"),
  ("line::Line::set_char|S2|index_mut(&*self.chars, (index as usize)) #lower", "reviewed", "only the non-negativity of the column is unproven: reached from Caret::erase_charcter with i counting up from caret.pos.x (>= 0 by C09's R-CARET-CLAMP, no wrap since i <= terminal width)"),
  ("line::Line::create|S3|resize(", "reviewed", "T6: layer width is non-negative (set only by Buffer/Layer constructors and the clamped terminal resize)"),
  ("translate_sixel_to_pixel|S6|rem0(", "reviewed", "the sixel palette is created with the 16 default colours and only grows (set/insert); it is never cleared"),
  ("translate_sixel_to_pixel|S2|index_mut(&*index_mut(", "reviewed", "row lengths are always multiples of 4 (vec![0; width*4] / resize((x+1)*4)), so len > 4x implies len >= 4x+4; sixel_cursor.x is only reset to 0 or incremented"),
  ("translate_sixel_to_pixel|S2|index_mut(&*self.picture_data, (((*self.sixel_cursor.y * 6) + (next(&iter) as Some).0) as usize)) #lower", "reviewed", "only non-negativity is unproven: sixel_cursor.y starts at 0 and is only incremented"),
  ("translate_sixel_to_pixel|S9u|overflow:Sub((ch as u8), 63)", "reviewed", "its only caller parse_sixel_data returns early for ch > '\\x7F' and the function itself rejects ch < '?': 63 <= ch <= 127, the cast to u8 is exact and the subtraction cannot go below zero (the cast hides the bound from the lifted precondition)"),
  ("SixelParser::parse_char|S3|resize(", "reviewed", "parsed_numbers entries are >= 0: built by parse_next_number from 0 with saturating arithmetic on digits only"),
  # ---- genuine defects (DESIGN §6; reproduced against the pristine tree)
 ],
}


LOADER = "offset cursor advanced by header-derived amounts / fixed record sizes without re-checking the remaining length"
RULES["C02"] = [
  # ---- LOAD-specific, genuine (truncated / corrupted files)
  ("IcyDraw as formats::OutputFormat>::load_buffer|S5|", "reviewed", "the todo!() arms are for Role::PastePreview / Role::PasteImage in the continuation-chunk match; a layer created by this loader only ever gets Role::Image (role byte 1) or Role::Normal, so they are unreachable"),
  ("as Ok).0, RangeFrom{o}) #lower", "reviewed", "FONT_n chunk: o is the size returned by read_utf8_encoded_string, whose own slice data[4..4 + len] has already succeeded on the same bytes, so o <= bytes.len()"),
  ("IcyDraw as formats::OutputFormat>::load_buffer|S2|index(&(decode(", "known", "decoded zTXt chunk shorter than the fields read from it: the LAYER_n record (title, role, mode, colour, flags, offsets, sizes; image layers: four more u32) and the per-cell records of LAYER_n~k continuation chunks are read with bytes[o] / bytes[o..o+2/4/8] and no length check; the short-cell check `o + 3 > len` is one byte too small"),
  ("IcyDraw as formats::OutputFormat>::load_buffer|S2|index_mut(&result.layers", "known", "LAYER_n~k continuation chunk naming a layer index that does not exist: result.layers[layer_num]"),
  ("IcyDraw as formats::OutputFormat>::load_buffer|S2|index_mut(&*index_mut(&result.layers", "reviewed", "continuation chunk of an image layer: a layer has Role::Image only if it was created by the role == 1 branch of this loader, which pushes exactly one Sixel before storing the layer"),
  ("IcyDraw as formats::OutputFormat>::load_buffer|S2|index(&*data, RangeFrom{len})", "reviewed", "len is the number of bytes the streaming PNG decoder reports as consumed from data (<= data.len())"),
  ("formats::icy_draw::read_utf8_encoded_string|", "known", "string length prefix larger than the rest of the chunk (or chunk shorter than 4 bytes): data[0..4], data[4..4+size]"),
  ("IceDraw as formats::OutputFormat>::load_buffer|S2|index(&*data, Range{o, (o + 48)})", "reviewed", "len >= header + 4096 + 48 is checked first; the cell loop runs while o + 1 < data_size (= len - 4096 - 48) and advances by 2 (or, behind `o + 3 < data_size`, by 4), so it ends with o <= data_size; the font slice takes 4096 more: o + 48 <= len"),
  ("load_buffer|S4|unwrap(from_bytes('', &*", "reviewed", "BitFont::from_bytes on an embedded font constant (include_bytes! of a PSF/raw font shipped with the crate): the bytes are a valid font, so the Result is Ok"),
  ("sauce_mod::SauceString::<LEN, EMPTY>::read|", "reviewed", "read is only called from SauceData::extract on &data[o..] with o = len-128 + the fixed field offsets (record fields sum to 128 and len >= 128 is checked first), and on 64-byte comment lines inside the comment block whose start is checked by the signed guard"),
  ("sauce_mod::SauceData::extract|S5|assert_failed", "reviewed", "o = len - 128 + the sum of the fixed field sizes (= 128): the assertion is an identity"),
  ("sauce_mod::SauceData::extract|", "reviewed", "after `data.len() < SAUCE_LEN -> return`, o runs from len-128 over the 128 fixed-size fields; the comment block start (len-128) - 64n - 5 is checked non-negative by the signed guard before data[o..o+5]"),
  ("formats::artworx::from_ega_data|", "reviewed", "EGA_COLOR_OFFSETS holds values <= 63, so 3*i+2 <= 191; both callers pass exactly 192 bytes (&data[o..o+EGA_PALETTE_SIZE] after a length check)"),
  ("palette_handling::Palette::from_63|", "reviewed", "callers pass slices whose length is a multiple of 3 (48 bytes: XBIN_PALETTE_LENGTH / IDF PALETTE_SIZE), so o < len implies o+2 < len"),
  ("formats::parse_with_parser|S6|", "reviewed", "font slot 0 of a freshly created Buffer is the built-in 8x16 font; width and height are non-zero"),
  ("<fonts::BitFont as std::default::Default>::default|S4|", "reviewed", "font page 0 is the embedded CP437 font (include_bytes!), a valid PSF2 file"),
  ("layer::Layer::new|S3|resize(", "reviewed", "only non-negativity of the height is unproven; every loader passes sizes built from unsigned header fields or constants (T6)"),
] + RULES["C01"]

RULES["C14"] = [r for r in RULES["C01"] if "sixel" in r[0].lower() or "Sixel" in r[0]]

RULES["C07"] = [
  ("IcyDraw::to_bytes|trunc|usize as u16|", "reviewed", "the format stores font pages in 16 bits; the property quantifies over font slots 0..=300, which fit (a font page above 65535 would be a format limitation, not a cell-level loss inside the quantifier)"),
]

DEAD_ORIGIN = ("only reachable with OriginMode::WithinMargins, which nothing in the crate ever stores (the DECOM set arm is commented out; rule R-ORIGIN "
               "re-checks this on every run and fails if a store of WithinMargins appears)")
ABS00 = "sets the cursor to the absolute buffer position (0,0) while scrollback rows remain (first visible row > 0): the cursor is above the screen"
RULES["C09"] = [
  # ---- genuine leaks (the property's own anchors name them; each reproduced by reading the path)
  ("limit_caret_pos|row-lo|", "reviewed", "the failing path is the WithinMargins arm: " + DEAD_ORIGIN),
  #
  ("set_top_and_bottom_margins|row-lo|", "reviewed", "upper_left_position() returns a margin-derived row " + DEAD_ORIGIN + "; otherwise it returns the first visible line"),
  #
  ("change_scrolling_region|row-lo|", "reviewed", "upper_left_position() returns a margin-derived row " + DEAD_ORIGIN + "; otherwise it returns the first visible line"),
  #
  ("check_scrolling_on_caret_down|row-lo|", "reviewed", "private helper with three callers: Caret::lf and Caret::index increment the row immediately before the call (row >= 1 when it is decremented here); Caret::index and Caret::down clamp with limit_caret_pos right after the call (their own contracts are proven)"),
  #
  ("Caret::ff|store-y|default()", "known", "form feed: " + ABS00 + " (Caret::ff clears the layer but the buffer keeps its height)"),
  ("caret::Caret::reset|store-y|default()", "known", "RIS / DECSTR: " + ABS00),
  ("ctrla::Parser as parsers::BufferParser>::print_char|store-y|default()", "known", "Ctrl-A ' (home): " + ABS00),
  ("restore_cursor_position|row-lo|", "known", "CSI u restores a row saved before the scrollback grew (or under other margins) without limit_caret_pos"),
  ("restore_cursor_position|col-lo|", "reviewed", "saved_pos.x is a copy of an earlier in-range column (or the initial 0); the width only changes through CSI 8 t, which the property's precondition excludes"),
  ("restore_cursor_position|store-y|", "known", "CSI u restores a row saved before the scrollback grew (or under other margins) without limit_caret_pos"),
  ("print_char|store-y|clone(&(*self.saved_cursor_opt", "known", "ESC 8 (DECRC) restores a whole Caret saved before the scrollback grew without limit_caret_pos"),
  ("{closure#4}|col|after next_tab_stop", "known", "CSI Pn Y (CVT): next_tab_stop returns get_width() past the last stop and the column is stored unclamped (x == width); confirmed: ESC[99Y leaves x = 80 on an 80-column screen"),
  ("avatar::Parser as parsers::BufferParser>::print_char|col|store pos.x = min(79", "known", "Avatar ^V^F (cursor right) clamps to column 79 whatever the terminal width (screens narrower than 80 columns)"),
  ("avatar::Parser as parsers::BufferParser>::print_char|col|store pos.y = (ch as i32)", "known", "Avatar ^V^H row col (goto) stores both coordinates straight from the stream"),
  ("avatar::Parser as parsers::BufferParser>::print_char|store-y|(ch as i32)", "known", "Avatar ^V^H row col (goto) stores the row straight from the stream"),
  ("avatar::Parser as parsers::BufferParser>::print_char|store-y|(*caret.pos.y + 1)", "known", "Avatar ^V^D (cursor down) increments the row without limit_caret_pos / scrolling"),
  ("avatar::Parser as parsers::BufferParser>::print_char|store-y|max(0, (*caret.pos.y - 1))", "known", "Avatar ^V^C (cursor up) clamps at buffer row 0, not at the first visible row"),
  # ---- reviewed
  ("{closure#5}|col|after prev_tab_stop", "reviewed", "CBT: prev_tab_stop returns 0 or a stored tab stop strictly below the current column; tab stops are cursor columns (set_tab_at(caret.x)) or multiples of 8 below the width (reset_tabs), hence within 0..=x-1"),
  ("print_char|col|after restore_cursor_position", "reviewed", "saved_pos.x is a copy of an earlier in-range column (or the initial 0); the width only changes through CSI 8 t, which the property's precondition excludes"),
  ("print_char|col|after window_manipulation", "reviewed", "CSI 8;h;w t resizes the text area: excluded by the property's precondition (streams that do not request a resize)"),
  ("mode7::Parser::caret_down|row-fixed|after index", "reviewed", "Caret::index ends in limit_caret_pos, which clamps to [first visible, first visible + height - 1]; on a fixed page the buffer height equals the terminal height (R-FIXED-GRID: no grower reachable), so first visible = 0"),
  ("print_char|row-fixed|after home", "reviewed", "home = upper_left_position(): origin mode is only ever set by the ANSI parser, so y = first visible line, which is 0 on a fixed page (R-FIXED-GRID: the buffer never grows)"),
]

PARITY = "the vector holds coordinate pairs (even length) and i < len/2, so 2i+1 < len (needs 2*(len/2) <= len, outside the difference-constraint domain)"
POISON = "Mutex::lock fails only when the mutex is poisoned, i.e. after another thread already panicked while holding it: not an origin"
EMBEDDED = "runs once on data embedded in the crate with include_bytes! / a built-in font name; not reachable with stream-controlled data"
VIEWPORT = ("RIP_VIEWPORT (|v) accepts any rectangle: with a viewport that does not start at row 0 or that exceeds the 640x350 canvas "
            "(e.g. |v0000ZZZZ) the flood-fill helpers index the canvas / the per-row line table (sized by the viewport height, indexed by absolute y) out of range")
RULES["C20"] = [
  ("rip::to_base_36|S9u|overflow:Sub(((number % 36) as u8), 10)", "reviewed", "the subtraction sits in the else-branch of `num2 < 10`, so num2 >= 10 (the signed-to-unsigned cast of number % 36 keeps no term of its own for the branch to refine)"),
  ("Bgi::fill_scan|S9u|overflow:Sub(len(&*rows), 2)", "reviewed", "rows is always create_scan_rows() = vec![Vec::new(); 352]; scan_ellipse / scan_line / add_scan_row only push into the inner rows, the outer length stays 352"),
  # ---------------------------------------------------------------- IGS: genuine
  ("execute_command|S1|bounds(len(parameters), (len(&*parameters) - 2))", "known", "IGS PolyLine with a point count of 0 (`G#z 0:`): parameters[len - 2] with len == 1"),
  ("execute_command|S1|bounds(len(parameters), 0)", "known", "IGS TimeAPause (`G#t:`) reads parameters[0] without a length check"),
  ("igs::paint::DrawExecutor::draw_polyline|S1|bounds(len(parameters), 0)", "known", "IGS PolyLine / polymarker with no points: parameters[0]"),
  ("igs::paint::DrawExecutor::draw_polyline|S1|bounds(len(parameters), 1)", "known", "IGS PolyLine / polymarker with no points: parameters[1]"),
  ("igs::paint::DrawExecutor::draw_poly|S1|bounds(len(parameters), 0)", "known", "IGS PolyFill with a point count of 0 (`G#f 0:`) and draw_border set: parameters[0]"),
  ("igs::paint::DrawExecutor::draw_poly|S1|bounds(len(parameters), 1)", "known", "IGS PolyFill with a point count of 0: parameters[1]"),
  ("igs::paint::DrawExecutor::fill_poly|S1|bounds(len(points), 1)", "known", "IGS PolyFill with a point count of 0 (`G#f 0:`): points[1] on an empty slice"),
  ("igs::paint::DrawExecutor::get_pixel|S2|", "known", "IGS blit (GrabScreen screen->screen / screen->memory) with source coordinates outside the screen: get_pixel indexes the canvas unchecked"),
  ("igs::paint::DrawExecutor::blit_memory_to_screen|S2|", "known", "IGS GrabScreen memory->screen with a source rectangle outside the stored region: screen_memory[offset] unchecked"),
  ("igs::CommandExecutor>::get_picture_data|S2|index(&*self.pen_colors", "known", "IGS ColorSet accepts any colour number (`G#C 1,200:`), pixels drawn with it index the 16-entry pen table in get_picture_data"),
  ("igs::paint::DrawExecutor::draw_line|S1|bounds(6, mask)", "known", "IGS line type 7 (user defined, LineType::UserDefined -> mask 6) indexes the 6-entry LINE_STYLE table"),
  ("igs::paint::DrawExecutor::write_text|S4|unwrap(get_glyph(", "known", "IGS WriteText with a character the 8px font has no glyph for (any code point above 255): get_glyph(..).unwrap()"),
  # ---------------------------------------------------------------- IGS: reviewed
  ("igs::Parser as parsers::BufferParser>::print_char|S2|index(&*self.parsed_numbers, 4)", "reviewed", "LoopState::ReadParameter is only reached through ReadCommand, which pushes the fifth number; parsed_numbers shrinks only in ReadCommandStart, after which '&' restarts the loop state machine at Start"),
  ("igs::Parser as parsers::BufferParser>::print_char|S4|unwrap(last_mut(", "reviewed", "loop_parameters is set to [[\"\"]] when ReadParameter is entered and only grows afterwards (outer and inner vectors)"),
  ("unwrap(lock(&*deref(&*", "reviewed", POISON),
  ("igs::Loop::next_step|S6|rem0((len(&*self.parameters) == 0))", "reviewed", "Loop::new receives a clone of loop_parameters, which is non-empty from the moment ReadParameter is entered"),
  ("igs::Loop::next_step|S2s|remove(&p, 0)", "reviewed", "guarded by starts_with('+' / '-' / '!'): the string has a first (ASCII) character"),
  ("execute_command|S2|index_mut(&*self.pen_colors, (*parameters[0] as usize))", "reviewed", "guarded by (0..=15).contains(&color); pen_colors always holds 16 entries (IGS_SYSTEM_PALETTE / IGS_PALETTE .to_vec(), never resized)"),
  ("execute_command|S2|index(&*self.pen_colors, *(get((&*REGISTER_TO_PEN", "reviewed", "REGISTER_TO_PEN holds pen numbers 0..=15; pen_colors always holds 16 entries"),
  ("igs::paint::DrawExecutor::draw_polyline|S1|bounds(len(parameters), (i + 1))", "reviewed", "i is even and < len, len is even at every call (2*points checked against the parameter count; polymarker tables), so i + 1 < len"),
  ("igs::paint::DrawExecutor::draw_poly|S1|bounds(len(parameters), (i + 1))", "reviewed", "i is even and < len, len is even at every call (2*points checked against the parameter count; round_rect pushes pairs), so i + 1 < len"),
  ("igs::paint::DrawExecutor::fill_poly|S1|bounds(len(points), (", "reviewed", PARITY + "; next_point < point_cnt likewise"),
  ("igs::paint::DrawExecutor::fill_poly|S2|index(&edge_buffer", "reviewed", "edge_buffer receives one entry per counted intersection; the loop runs intersections/2 times reading j, j+1 with j = 0, 2, .."),
  ("igs::paint::DrawExecutor::fill_poly|S6|div0(", "reviewed", "dy = y2 - y1 is used only when (y - y1) ^ (y - y2) < 0, i.e. the two differences have opposite signs, hence y1 != y2"),
  ("igs::paint::DrawExecutor::fill_poly|S6|overflow:Div(", "reviewed", "|dy| >= 1 and the numerator is a product of screen-sized coordinate differences; dy == -1 with numerator i32::MIN needs coordinates near 2^31 that the decimal parameter parser cannot combine into MIN exactly on this path (dy2*dx with dx even)"),
  ("igs::paint::DrawExecutor::fill_poly::{closure#0}|S4|unwrap(partial_cmp(", "reviewed", "partial_cmp on i32 is total"),
  ("igs::paint::DrawExecutor::fill_pixel|S6|rem0(", "reviewed", "fill_pattern always points at one of the static, non-empty pattern tables"),
  ("igs::paint::DrawExecutor::draw_poly_maker|S2|", "reviewed", "indices walk the constant polymarker tables, whose layout (count, then count*2 offsets per line) is self-consistent for all six marker types"),
  ("igs::paint::DrawExecutor::write_text|S2|index(&clone(", "reviewed", "iy = floor(y / font_size.height * char_size.height) < char_size.height = number of glyph rows (y < font_size.height)"),
  # ---------------------------------------------------------------- RIP: genuine
  ("rip::commands::TextWindow as parsers::rip::Command>::parse|S4|unwrap(to_digit(ch, 36))", "known", "RIP_TEXT_WINDOW (|w) whose last character is not a base-36 digit: ch.to_digit(36).unwrap()"),
  ("Rectangle::from_coords|S5|", "known", "RIP_TEXT_WINDOW (|w) / RIP_VIEWPORT (|v) with x0 > x1 or y0 > y1: assert!(x1 <= x2) in Rectangle::from_coords"),
  ("rip::bgi::Bgi::set_palette|S1|", "known", "RIP_SET_PALETTE (|Q) with an entry >= 64 (two base-36 digits reach 1295): EGA_PALETTE[c]"),
  ("rip::bgi::Bgi::set_palette_color|S1|", "known", "RIP_ONE_PALETTE (|a) with a colour value >= 64: EGA_PALETTE[color]"),
  ("rip::bgi::Bgi::draw_poly|S1|bounds(len(points), 0)", "known", "RIP_POLYGON (|P) terminated before its first point (`!|P|`): draw_poly(&[]) reads points[0]"),
  ("rip::bgi::Bgi::draw_poly_line|S1|bounds(len(points), 0)", "known", "RIP_POLYLINE (|l) terminated before its first point: draw_poly_line(&[]) reads points[0]"),
  ("rip::bgi::Bgi::find_line|S2|", "known", VIEWPORT),
  ("rip::bgi::Bgi::flood_fill|S2|", "known", VIEWPORT),
  ("rip::bgi::already_drawn|S1|", "known", VIEWPORT),
  ("rip::bgi::Bgi::out_text_xy|S2|index_mut(&*self.screen, pos)", "known", "RIP_TEXT_XY (|@) / RIP_TEXT (|T) with the default font at a position whose 8x8 cell reaches past the canvas: screen[pos] unchecked"),
  ("rip::bgi::Bgi::add_button|S5|", "known", "RIP_BUTTON (|1U) with a label while the button style asks for a label orientation other than Center: todo!()"),
  ("rip::bgi::Bgi::add_button|S2s|", "known", "RIP_BUTTON hotkey underlining slices the label by character index (&text[0..i], &text[i..=i]): not a char boundary after a multi-byte character"),
  # ---------------------------------------------------------------- RIP: reviewed
  ("rip::Parser::parse_parameter|S4|unwrap(as_mut(&*self.command))", "reviewed", "State::ReadParams is entered only through start_command, which stores command = Some(..) (R-RIP-CURSOR); every path that takes the command leaves ReadParams"),
  ("as parsers::rip::Command>::parse|S4|unwrap(pop(&*self.", "reviewed", "for an even parameter index a 0 is pushed first; an odd index follows the even index of the same command, because the cursor is 0 when a command starts (R-RIP-CURSOR) and grows by one per accepted character"),
  ("as parsers::rip::Command>::run|S2|index(&*self.points, (", "reviewed", PARITY),
  ("rip::commands::LoadIcon as parsers::rip::Command>::run|S2|index(&planes", "reviewed", "planes holds 4*row bytes with row = ceil(width/8); x < width gives x/8 < row, so row*k + x/8 < 4*row for k <= 3"),
  ("rip::commands::FileQuery as parsers::rip::Command>::run|S4|", "reviewed", "depends on the metadata of a file in the local icon cache (mtime availability / mtime before 1970), not on the stream"),
  ("rip::Parser as parsers::BufferParser>::print_char|S2|index(&*(*self.fallback_parser", "reviewed", "guarded by the `parsed_numbers.is_empty() -> return` a few lines above (the Box deref hides the identity of the two places from the analysis)"),
  ("DEFAULT_BITFONT as std::ops::Deref>::deref::__static_ref_initialize|S4|", "reviewed", EMBEDDED),
  ("FONTS as std::ops::Deref>::deref::__static_ref_initialize|S4|", "reviewed", EMBEDDED),
  ("rip::bgi::font::Font::load|S2|", "reviewed", EMBEDDED + " (Font::load is only called from the FONTS initialiser)"),
  ("rip::bgi::FontType::get_font|S2|index(&*deref(&FONTS)", "reviewed", "FONTS is a lazy static vec! of exactly 11 fonts; indices 0..=10"),
  ("rip::bgi::FillStyle::get_fill_pattern|S1|", "reviewed", "FillStyle has 13 variants with default discriminants 0..=12; DEFAULT_FILL_PATTERNS has 13 rows"),
  ("rip::bgi::Bgi::bar_rect|S1|", "reviewed", "ypat = top % 8 with top >= 0 (the rectangle is the intersection with a viewport built from unsigned base-36 coordinates); every fill pattern, including the user pattern (DEFAULT_USER_PATTERN / RIP_FILL_PATTERN's 8 bytes), has 8 rows"),
  ("rip::bgi::Bgi::fill_scan|S2|", "reviewed", "rows always comes from create_scan_rows() (fixed length >= 2); y < len - 2 gives y + 1 < len"),
  ("rip::bgi::Bgi::fill_x|S6|rem0(", "reviewed", "line_pattern always holds 16 entries (get_line_pattern / set_line_pattern push exactly 16)"),
  ("rip::bgi::Bgi::fill_y|S6|rem0(", "reviewed", "line_pattern always holds 16 entries (get_line_pattern / set_line_pattern push exactly 16)"),
  ("rip::bgi::Bgi::line|S6|", "reviewed", "the divisions by ly_delta / lx_delta2 sit behind the `== 0` arms of the same if-chain; both are abs() values, never -1"),
  ("rip::bgi::Bgi::out_text_xy|S2|index(&*(get_glyph(", "reviewed", "the default RIP font is the built-in 8x8 IBM VGA50 font: glyph.data has 8 rows, y < 8"),
  ("rip::bgi::Bgi::put_image|S2|", "reviewed", "Image.data is filled by get_image with exactly width*height bytes (one push per pixel of the same two ranges)"),
  ("rip::bgi::Bgi::rip_bezier|S2|", "reviewed", "targets receives coordinate pairs only (even length); j is even and < len, so j + 1 < len"),
  ("rip::bgi::character::Character::draw|S1|", "reviewed", "size is Bgi.char_size, which set_text_style clamps to 1..=10 (graph_defaults sets 4); SCALE tables have 11 entries"),
  ("rip::bgi::font::Font::get_text_size|S1|", "reviewed", "size is Bgi.char_size, which set_text_style clamps to 1..=10 (graph_defaults sets 4); SCALE tables have 11 entries"),
] + RULES["C01"]

RULES["C03"] = [
  # ---- genuine: a number from the input drives a loop / allocation / dimension unclamped (the property's own anchors name them)
  ("print_char|MAG|for_each(Range{0, num}, {closure#1}", "known", "CSI Pn S (SU): (0..num).for_each(scroll_up) with num straight from parsed_numbers (ESC[2147483647S)"),
  ("print_char|MAG|for_each(Range{0, num}, {closure#2}", "known", "CSI Pn T (SD): (0..num).for_each(scroll_down) with num straight from parsed_numbers"),
  ("print_char|MAG|for_each(Range{0, num}, {closure#3}", "known", "CSI Pn b (REP): (0..num).for_each(print_char) with num straight from parsed_numbers (ESC[2147483647b)"),
  ("print_char|MAG|for_each(Range{0, num}, {closure#4}", "known", "CSI Pn Y (CVT): (0..num).for_each(next_tab_stop) with num straight from parsed_numbers"),
  ("print_char|MAG|for_each(Range{0, num}, {closure#5}", "known", "CSI Pn Z (CBT): (0..num).for_each(prev_tab_stop) with num straight from parsed_numbers"),
  ("print_char|MAG|into_iter(Range{0, *(first(&*deref(&*self.parsed_numbers)) as Some).0})", "known", "CSI Pn @ / P / L (ICH, DCH, IL): `for _ in 0..*number` with the parameter unclamped"),
  ("ansi_commands::Parser::scroll_left|MAG|", "known", "CSI Pn SP @ (SL): (0..num).for_each(scroll_left) unclamped"),
  ("ansi_commands::Parser::scroll_right|MAG|", "known", "CSI Pn SP A (SR): (0..num).for_each(scroll_right) unclamped"),
  ("parse_hex_macro_sequence|MAG|", "known", "DECDMAC hex repeat group `!Pn;..;`: (0..repeat_number).for_each pushes the group that many times (a 20-byte DCS allocates gigabytes)"),
  ("parsers::Caret::check_scrolling_on_caret_up|MAG|loop(", "known", "CUU / CPL (CSI Pn A / F) inside a scroll region: the row is decremented by Pn (saturating) and the region is then scrolled down once per row of overshoot - ESC[1;5r ESC[2147483647A loops 2^31 times over the region"),
  ("sixel_mod::SixelParser::parse_char|MAG|into_iter(Range{0, *(first(", "known", "sixel repeat introducer `!Pn`: the following sixel is translated Pn times, unclamped"),
  ("sixel_mod::SixelParser::parse_char|MAG|resize(&*self.picture_data", "known", "sixel raster attributes `\"Pan;Pad;Ph;Pv`: picture_data is resized to Pv rows of 4*Ph bytes as declared"),
  ("sixel_mod::SixelParser::parse_char|MAG|from_elem(0, (4 * ", "known", "sixel raster attributes: each declared row is allocated as vec![0; 4 * Ph] with Ph straight from the stream"),
  ("palette_handling::Palette::set_color_hsl|MAG|", "known", "sixel colour introducer `#Pc;1;..`: the palette is resized to Pc + 1 entries for any Pc"),
  ("palette_handling::Palette::set_color_rgb|MAG|", "known", "sixel colour introducer `#Pc;2;..`: the palette is resized to Pc + 1 entries for any Pc"),
  ("IcyDraw as formats::OutputFormat>::load_buffer|MAG|", "known", "IcyDraw ICED / LAYER chunks: u32 width and height from the file go unchecked into Buffer/Layer::set_size and into `for y in 0..height`"),
  ("layer::Layer::from_clipboard_data|MAG|", "known", "clipboard payload: u32 width and height go unchecked into Layer::new and the two cell loops"),
  ("fonts::BitFont::calculate_checksum|MAG|", "known", "PSF2 header `length` (u32) is stored as the glyph count and iterated by calculate_checksum"),
  ("cycle|<parsers::ansi::Parser as parsers::BufferParser>::print_char <-> parsers::ansi::Parser::invoke_macro_by_id", "known", "DECINVM: a macro may invoke itself or another macro that invokes it back; print_char -> invoke_macro_by_id -> print_char recursion has no depth bound (stack exhaustion)"),
]

SETUP = "./setup.sh"
NOTES = ("Static analysis only: a rustc_private driver (driver/) serialises the type-checked MIR of /repo's current working tree; "
         "Python rule modules (analysis/, rules/) decide each property from those facts. See DESIGN.md.")
ENGINES = [
    {"name": "mirfacts", "path": "driver/", "serves_properties": [], "kind_free_text": "rustc_private driver: MIR/type/const-table serialiser run under cargo +nightly check"},
    {"name": "rules", "path": "rules/", "serves_properties": [], "kind_free_text": "per-property static rules over the MIR facts (CFG, dominators, call graph, abstract interpretation, table checks)"},
]
PENDING = "check not yet built (work in progress, see DESIGN.md)"
CLAIMED = {
 "C19": dict(category="proof",
    text="All 4352 CRC table entries are compared with their defining recurrences (exhaustive over the source data), and the five routines, reconstructed from MIR and normalised over GF(2) with uninterpreted table lookups, are shown to be the canonical table / slicing-by-16 method with the right loop skeleton. Together with the textbook derivation this implies the property for every input.",
    design_ref="§4 C19", note="Trusted: rustc constant evaluation and MIR construction, the mirfacts serialiser, the GF(2) normaliser, the textbook derivation of the table method. A routine rewritten into a different algorithm is reported as unrecognised (fail closed).",
    technique="static analysis: compiled-constant table check + symbolic GF(2) normal-form shape matching of MIR expressions"),
}
NOT_APPLICABLE = {p: PENDING for p in ["C%02d" % i for i in range(1, 21)]}
NOT_APPLICABLE.update({
 "C05": "value-level: equality of pictures after save->load depends on run-time cell values along data-dependent paths of two separate programs (writer, reader); no structural clause is a genuine necessary condition that is not also a frozen-layout match (DESIGN §5)",
 "C06": "value-level: the only structural clause in reach (run length 1..=64) needs a path-sensitive relational invariant across a merge that the interval/zone domain cannot hold; look-ahead cost decisions are pure value semantics (DESIGN §5)",
 "C15": "value-level: writer/reader agreement lives in attribute-delta arithmetic over run-time cells, not in the shape of the code (DESIGN §5)",
 "C17": "value-level: bit-identity of glyph data through five codecs; header-field-order agreement would be a frozen-fragment match (DESIGN §5)",
})

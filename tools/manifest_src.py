SETUP = "./setup.sh"
NOTES = ("Static analysis only: a rustc_private driver (driver/) serialises the type-checked MIR of /repo's current working tree; "
         "Python rule modules (analysis/, rules/) decide each property from those facts. See DESIGN.md.")
ENGINES = [
    {"name": "mirfacts", "path": "driver/", "serves_properties": [], "kind_free_text": "rustc_private driver: MIR/type/const-table serialiser run under cargo +nightly check"},
    {"name": "rules", "path": "rules/", "serves_properties": [], "kind_free_text": "per-property static rules over the MIR facts (CFG, dominators, call graph, abstract interpretation, table checks)"},
]
PENDING = "check not yet built (work in progress, see DESIGN.md)"
CLAIMED = {
 "C19": dict(category="proof",
    text="All 4352 CRC table entries are compared with their defining recurrences (exhaustive over the source data), and the five routines, reconstructed from MIR and normalised over GF(2) with uninterpreted table lookups, are shown to be the canonical table / slicing-by-16 method with the right loop skeleton. Together with the textbook derivation this implies the property for every input.",
    design_ref="§4 C19", note="Trusted: rustc constant evaluation and MIR construction, the mirfacts serialiser, the GF(2) normaliser, the textbook derivation of the table method. A routine rewritten into a different algorithm is reported as unrecognised (fail closed).",
    technique="static analysis: compiled-constant table check + symbolic GF(2) normal-form shape matching of MIR expressions"),
}
PANIC_NOTE = ("Trusted: rustc MIR construction, the mirfacts serialiser, the abstract domain and call models in analysis/ (documented panicking std APIs), "
              "the trust rules T1/T2/T4/T5/T6 and each entry of tables/reviewed_safe.json (one-line safety argument per site). Release-build semantics: "
              "overflow checks out of scope; lengths < 2^31; 64-bit offset arithmetic does not wrap. Panics inside dependencies are not analysed.")
CLAIMED.update({
 "C01": dict(category="other",
    text="Sound abstract interpretation (intervals + difference constraints + length relations, with interprocedural precondition lifting) of every body reachable from the 10 text-mode print_char entry points: each panic-capable construct (index, slice, insert/remove, unwrap/expect, explicit panic, division, clamp) is discharged on all paths for an arbitrary entry state, or trusted by a named rule, or listed with a one-line safety argument, or listed as a known genuine defect. A new undischarged site, or a site whose proof stops going through, is a violation.",
    design_ref="§3, §4 C01", note=PANIC_NOTE,
    technique="static analysis: abstract interpretation over type-checked MIR (rustc_private driver) + call-graph reachability"),
 "C02": dict(category="other",
    text="Same calculus over Buffer::from_bytes, the 14 format loaders (through dyn OutputFormat), SauceData::extract, BitFont::from_bytes, TheDrawFont::from_tdf_bytes, Palette::load_palette and Layer::from_clipboard_data: the input slice has unknown length at entry, so every data[o] / &data[a..b] / unwrap must be dominated by a check that implies it. The many genuine unchecked reads are listed one by one as known findings; any other undischarged read is a violation.",
    design_ref="§3, §4 C02", note=PANIC_NOTE,
    technique="static analysis: abstract interpretation over type-checked MIR + call-graph reachability (CHA/RTA)"),
 "C10": dict(category="proof",
    text="Who-may-call rule over all non-test bodies of the crate: no unchecked char/str/String constructor (or transmute into a text type) is called unless the interval of its argument, computed by abstract interpretation, lies inside the Unicode scalar-value range. With those excluded every char and String is produced by safe code, so validity follows from the type system.",
    design_ref="§4 C10", note="Trusted: rustc's type system for safe code, std's checked constructors, the interval domain for the exemption, the matcher's list of unchecked constructors (positive control checked each run). Dependencies not analysed.",
    technique="static analysis: whole-crate call-site rule on resolved callees + interval analysis of arguments"),
})
STRUCT_NOTE = "Trusted: rustc MIR construction, the mirfacts serialiser, expression reconstruction and CFG/dominator code in analysis/. The rule recognises the idioms listed in its module docstring; code rewritten into another shape is reported as unrecognised (fail closed)."
CLAIMED.update({
 "C13": dict(category="other",
    text="Path rules on Buffer::get_char, decided for all stacks and positions: each Layer::get_char on a stack element is reached only with the layer visible and the translated position proven inside the layer rectangle (abstract interpretation), the layer is skipped only when the position is provably outside, the translation is pos - offset of the same layer, the walk is top-down, no path continues below an opaque layer, and the topmost transparent cell is never overwritten. These are necessary conditions of the stacking laws; colour values of transparent-cell merging are not decided.",
    design_ref="§4 C13", note=STRUCT_NOTE, technique="static analysis: dominance/reachability rules + abstract interpretation on the MIR of Buffer::get_char"),
 "C14": dict(category="other",
    text="Schedule clauses decided for every completion order: crate-wide who-may-call rule on the decode queue (only push_back / front / pop_front / is_empty / len / clear), dominance rules in update_sixel_threads (join and pop only behind the finished branch of is_finished on the front handle of the same iteration, no other blocking call reachable, exactly one delivery per popped image after shadow removal, removal re-examines the index), plus R-PANIC over the decode thread body (a panicking decode loses its image). The width*height*4 clause is not decided.",
    design_ref="§4 C14", note=STRUCT_NOTE, technique="static analysis: who-may-call + dominance/typestate rules on MIR, abstract interpretation for the decode body"),
 "C16": dict(category="other",
    text="Index-stability clause: in the call tree of insert_color the only mutation of Palette.colors is Vec::push; the found path returns the loop index under exactly the r/g/b comparisons (Color's PartialEq compares exactly r,g,b) and the not-found path returns len-1 after the push; the 6-bit expansion/reduction expressions of all channels have the canonical GF(2) normal form and the EGA encoder covers slots 0..16. Palette text-format round trips are not decided.",
    design_ref="§4 C16", note=STRUCT_NOTE, technique="static analysis: effect (who-writes) rule over the call tree + return-value reconstruction + GF(2) normal forms"),
})
CLAIMED.update({
 "C07": dict(category="other",
    text="Structural necessary conditions of losslessness, each decided on all paths: the lossless switch of Buffer::to_bytes bypasses the colour optimiser / flattening and hands the document itself to the writer; every chunk keyword the writer emits is accepted by the reader and the record marker / layer flag constants are disjoint and two-sided; every narrowing cast in the writer is proven value-preserving (the 1-byte cell record is chosen only when all four fields fit); the PALETTE chunk is skipped only for a palette of exactly 16 default colours; length-prefixed strings use byte lengths on both sides; while the loader fills a layer the flags that make the Layer setters return early still hold their constructor values. Cell-exact reproduction is value-level and not decided.",
    design_ref="§4 C07", note=STRUCT_NOTE, technique="static analysis: must-not-pass-through / vocabulary agreement rules + abstract interpretation (intervals, boolean-guarded facts) on writer and reader MIR"),
 "C18": dict(category="other",
    text="Code-page part: the compiled tables are evaluated exhaustively against the converter model (CP437 256 codes, ATASCII 128, [0-9A-Za-z ] for five converters) and the model is tied to the code by shape rules on the converters and on the reverse-map initialisers (the iteration range is read from the initialiser's MIR). Attribute part: per IceMode variant a bit-level dependency analysis of from_u8 and as_u8 shows that bit i of as_u8(from_u8(b)) depends on bit i of b and nothing else and that every decoded field bit is read back without interference; flag accessor masks agree pairwise. The three genuine deviations (Unlimited mode's bit 7, bold folded into the foreground) are listed as known findings.",
    design_ref="§4 C18", note=STRUCT_NOTE + " Exact mask arithmetic is decided only up to bit dependencies.", technique="static analysis: exhaustive table check over compiled constants + shape rules + bit-level information-flow analysis of MIR"),
})
CLAIMED.update({
 "C09": dict(category="other",
    text="Modular invariant proof over all 270 bodies reachable from the 10 text-mode entry points: for each body that takes the cursor, the contract {I} f {I} is checked clause by clause (0 <= x <= width-1, 0 <= y; for Viewdata/Mode 7 also y <= height-1) by abstract interpretation with callees replaced by their contracts, closures included; limit_caret_pos is shown to establish the clauses, its four clamps and get_first_visible_line are matched against the visible-row formula, every store to the cursor row in the scrolling emulations is followed by limit_caret_pos or a reviewed wrap/scroll primitive on every path, the scrollback-growth guard of Caret::lf / Buffer::print_char must depend on nothing but `row + 1 > buffer height`, stores to TerminalState.size keep it >= 1, and the fixed-grid emulations cannot reach any resize/grow routine. The leaks the property itself names (CVT, FF/RIS with scrollback, RCP/DECRC, Avatar moves, unvalidated margins in origin mode) are listed as known findings. The upper row bound of the scrolling emulations is decided only structurally (clamp shape + must-pass-through), not by the interval proof.",
    design_ref="§4 C09", note=PANIC_NOTE.replace("T1/T2/T4/T5/T6", "T1/T2") + " Assumption A3: cursor coordinates plus a small constant do not wrap. Terminal invariants: the buffer is a terminal buffer; TerminalState.size >= 1x1 (stores checked).",
    technique="static analysis: modular contract checking by abstract interpretation over MIR + must-pass-through / control-dependence rules + call-graph reachability"),
})
CLAIMED.update({
 "C20": dict(category="other",
    text="Crash clause only: the C01 calculus over every body reachable from the RIPscrip and IGS print_char / get_picture_data entry points (command tables reached through dyn Command / dyn CommandExecutor by class-hierarchy analysis): each index, slice, unwrap, explicit panic / todo!(), division (zero divisor and MIN / -1) is discharged, trusted, reviewed with a one-line argument, or listed as a known genuine defect (55 sites: unchecked table and canvas indexing, Rectangle::from_coords assertions, todo!() arms, zero-point polygons, ...). Plus R-RIP-CURSOR: the RIP parameter cursor and the command slot are reset on every transition into ReadParams, which the variable-length commands' pop().unwrap() rely on. Not decided: the time bound (loops and sleeps driven by parameter values) and the completeness of the exposed canvas.",
    design_ref="§4 C20", note=PANIC_NOTE,
    technique="static analysis: abstract interpretation over type-checked MIR + call-graph reachability (CHA) + typestate rule on parser state stores"),
})
CLAIMED.update({
 "C03": dict(category="other",
    text="Magnitude-taint rule over every body reachable from the text parsers, the loaders and the RIP/IGS entry points: at each Range loop, eager allocation (resize / with_capacity / vec![x; n] / repeat) and dimension setter or constructor the abstract interpreter must prove the driving value <= 2^16 or <= a container length / size.width / size.height + c; a value that is a clean function of the parameters is lifted to the callers and re-checked there. A flow-sensitive taint (sources: the parsers' parsed_numbers, the DCS repeat count, 32/64-bit integers decoded from file bytes, str::parse) marks values that have not passed a bounding guard; an unbounded sink fed by a tainted value is a violation, unbounded sinks of unknown provenance are reported as undecided and never alarmed on. Plus: every call-graph cycle reachable from an entry point needs a reviewed depth argument, and consume-until-empty loops must advance by >= 1. The unclamped repeat loops the property itself names (REP, SU, SD, ICH, DCH, IL, CHT, CBT, SL, SR, DECRQCRA, hex-macro repeat, sixel repeat/raster/colour, IcyDraw and clipboard sizes, PSF2 glyph count, macro recursion, zero-height font data) are listed as known findings. Not decided: the polynomial bound itself, `while` loops whose exit test compares against a tainted value, sleeps.",
    design_ref="§4 C03", note=PANIC_NOTE + " The cursor coordinates are assumed non-negative and TerminalState.size >= 1 (C09).",
    technique="static analysis: abstract interpretation with a flow-sensitive taint component over MIR + interprocedural lifting of boundedness obligations + call-graph SCC rule"),
})
CLAIMED.update({
 "C08": dict(category="other",
    text="Three structural necessary conditions, decided for all 44 undo operations and every history: (R-UNDO-SYM) the document locations that undo may write equal those that redo may write, computed by a parameter-relative effect analysis (access paths below the edit_state parameter, through callees, closures and dyn calls); (R-UNDO-SELF) a field of the operation record written by only one direction is read by the other one (capture-then-consume) - a record that one direction overwrites and the other never looks at no longer describes the edit after one round trip; (R-PUSH) push_plain_undo clears the redo stack on every pushing path, begin_typed_atomic_undo clears it unconditionally, push_undo_action applies before it records, UndoState::undo/redo move the operation to the other stack on every path after calling it, and dropping an AtomicUndoGuard reaches end_action. Not decided: that the restored values are the right ones, panics inside undo/redo on stale indices, whether every public edit is logged.",
    design_ref="§4 C08", note=STRUCT_NOTE + " Write sets are may-sets over field-name paths (indices dropped).",
    technique="static analysis: parameter-relative effect (write-set) analysis over the call graph + dominance / post-dominance rules on MIR"),
})
CLAIMED.update({
 "C11": dict(category="other",
    text="Cut-exactness clauses, decided for every comment count: (R-SAUCE-AFFINE) a path-sum analysis of write_sauce_info's MIR reconstructs the number of appended bytes as an affine function of the number of comment lines (push = 1, extend of an array / constant slice = its length, extend(s.bytes()) = the proven length of s, SauceString<N,_>::append_to = N, the comment loop = n x a path-independent per-iteration amount, iterating the comment vector itself without adaptors) and compares it with the affine form of sauce_header_len reconstructed from SauceData::extract: both must be 129 and 134 + 64 n, and the count byte must be comments.len(); (R-SAUCE-CUT) the content length handed to the loaders in Buffer::from_bytes is only ever bytes.len() or len - sauce_header_len and all loaders get &bytes[..len]; (R-SAUCE-EXACT) every narrow shift/add/mul of the header decoder is value preserving by interval analysis. The value round trip of the metadata strings (padding semantics) is not decided.",
    design_ref="§4 C11", note=STRUCT_NOTE + " SauceString::append_to is taken to append exactly N bytes.",
    technique="static analysis: affine path-sum reconstruction over the writer's CFG + affine normal form of the reader's expression + who-writes rule on a local + interval analysis"),
})
CLAIMED.update({
 "C12": dict(category="other",
    text="Three structural necessary conditions decided on all paths: (R-OPT-ARM) in ColorOptimizer::optimize the rewritten cell's attribute starts as a copy of the cell's own attribute and is modified only by set_foreground inside the Whitespace arm of the glyph-shape switch and by set_background inside the Block arm (dominance by the switch targets), the character is replaced by a blank only inside the Whitespace arm, and the two setters write exactly one colour field (effect analysis); (R-SHAPE) get_shape returns Whitespace only under `ones == 0` and Block only under `ones == width * height` of its own BitFont parameter, and generate_shape_map passes the font whose glyph table it iterates; (R-FLATTEN) the flattening step composites rows 0..height and columns 0..width through Buffer::get_char at the same position. Pixel equality of the rendered pictures is value level and not decided.",
    design_ref="§4 C12", note=STRUCT_NOTE,
    technique="static analysis: dominance by enum-switch arms + parameter-relative effect analysis + expression normal forms on MIR"),
})
NOT_APPLICABLE = {p: PENDING for p in ["C%02d" % i for i in range(1, 21)]}
NOT_APPLICABLE.update({
 "C04": "value-level: whether the saved ANSI file parses back to the same picture depends on SGR state tracking, run-length / cursor-forward substitution and end-of-line trimming over neighbouring run-time cells; the structural clauses in reach (SGR vocabulary agreement, colour-offset involution, self-consistency of the writer's state model) are not violated by any realistic breaking change I could construct or obtain (three independently seeded changes all live in the value-level arithmetic), so claiming the property through them would be a proxy; a rule matching today's text would be a frozen fragment (DESIGN §0.6)",
 "C05": "value-level: equality of pictures after save->load depends on run-time cell values along data-dependent paths of two separate programs (writer, reader); no structural clause is a genuine necessary condition that is not also a frozen-layout match (DESIGN §5)",
 "C06": "value-level: the only structural clause in reach (run length 1..=64) needs a path-sensitive relational invariant across a merge that the interval/zone domain cannot hold; look-ahead cost decisions are pure value semantics (DESIGN §5)",
 "C15": "value-level: writer/reader agreement lives in attribute-delta arithmetic over run-time cells, not in the shape of the code (DESIGN §5)",
 "C17": "value-level: bit-identity of glyph data through five codecs; header-field-order agreement would be a frozen-fragment match (DESIGN §5)",
})

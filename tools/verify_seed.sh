#!/bin/bash
# tools/verify_seed.sh <scratch worktree of /repo> <seed dir with patch.diff, demo.rs | demo_unit.patch> [baseline file]
# Re-checks a seeded change the way DESIGN §0.5 describes: the suite's per-test outcome is unchanged by the patch, the
# demonstration fails with the patch and passes without it.  Never touches /repo.  Prints one line: VERIFIED / REJECTED <why>.
W="$1"; D="$2"; BASE="${3:-$W/.baseline-tests.txt}"
export CARGO_NET_OFFLINE=true
cd "$W" || exit 2
git checkout -q -- . ; rm -f tests/demo.rs
lines() { grep -E "^test .* \.\.\. (ok|FAILED)$" | sort; }
if [ ! -s "$BASE" ]; then cargo test --offline --lib --no-fail-fast -j 6 2>/dev/null | lines > "$BASE"; fi
git apply "$D/patch.diff" || { echo "REJECTED patch does not apply"; exit 1; }
cargo test --offline --lib --no-fail-fast -j 6 2>/dev/null | lines > /tmp/vs.$$.txt
if ! cmp -s "$BASE" /tmp/vs.$$.txt; then echo "REJECTED suite outcome differs: $(diff "$BASE" /tmp/vs.$$.txt | head -3 | tr '\n' ' ')"; git checkout -q -- .; rm -f /tmp/vs.$$.txt; exit 1; fi
rm -f /tmp/vs.$$.txt
run_demo() {
  if [ -f "$D/demo.rs" ]; then mkdir -p tests; cp "$D/demo.rs" tests/demo.rs; timeout 300 cargo test --offline --test demo -j 6 >/tmp/vs.$$.demo 2>&1; rc=$?; rm -f tests/demo.rs; return $rc
  elif [ -f "$D/demo_unit.patch" ]; then git apply "$D/demo_unit.patch" || return 199; timeout 300 cargo test --offline --lib -j 6 demo >/tmp/vs.$$.demo 2>&1; rc=$?; return $rc
  else return 198; fi
}
run_demo; with=$?
git checkout -q -- . ; git clean -qfd src tests 2>/dev/null
run_demo; without=$?
git checkout -q -- . ; git clean -qfd src tests 2>/dev/null; rm -f tests/demo.rs
if [ $with -ne 0 ] && [ $with -lt 198 ] && [ $without -eq 0 ]; then echo "VERIFIED demo fails with the change (rc=$with) and passes without"; rm -f /tmp/vs.$$.demo; exit 0; fi
echo "REJECTED demo rc with=$with without=$without: $(tail -3 /tmp/vs.$$.demo | tr '\n' ' ' | cut -c1-200)"; rm -f /tmp/vs.$$.demo; exit 1

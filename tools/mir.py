#!/usr/bin/env python3
"""tools/mir.py <body id substring> — pretty-print the serialised MIR of matching bodies (debug aid)."""
import os
import sys

sys.path.insert(0, os.path.dirname(os.path.dirname(os.path.abspath(__file__))))
from analysis import facts as F


def pl(b, p):
    s = "_%d" % p["l"]
    n = b.lname(p["l"])
    if n:
        s += "{%s}" % n
    for el in p.get("p", []):
        if el == "*":
            s = "(*%s)" % s
        elif el[0] == "f":
            s += ".%s" % el[2]
        elif el[0] == "i":
            s += "[_%d]" % el[1]
        elif el[0] == "ci":
            s += "[%s%d of %d]" % ("-" if el[3] else "", el[1], el[2])
        elif el[0] == "sub":
            s += "[%d..%s%d]" % (el[1], "-" if el[3] else "", el[2])
        elif el[0] == "dc":
            s = "(%s as %s)" % (s, el[1])
        else:
            s += "?"
    return s


def op(b, o):
    if "copy" in o:
        return pl(b, o["copy"])
    if "move" in o:
        return "move " + pl(b, o["move"])
    c = o.get("const", {})
    for k in ("val", "str", "static", "fn", "def", "bytes", "fbits"):
        if k in c:
            v = c[k]
            if k == "str":
                return repr(v)
            if k in ("static", "def", "fn"):
                return "%s:%s" % (k, v)
            return "%s" % (v,)
    return "const?"


def rv(b, r):
    k = r["k"]
    if k == "use":
        return op(b, r["a"])
    if k == "bin":
        return "%s(%s, %s)" % (r["op"], op(b, r["a"]), op(b, r["b"]))
    if k == "un":
        return "%s(%s)" % (r["op"], op(b, r["a"]))
    if k == "cast":
        return "%s as %s [%s]" % (op(b, r["a"]), b.f.types[r["ty"]]["s"], r["ck"])
    if k in ("ref", "rawptr"):
        return "&%s%s" % ("mut " if r.get("mut") else "", pl(b, r["p"]))
    if k == "discr":
        return "discr(%s)" % pl(b, r["p"])
    if k == "agg":
        nm = r.get("ak")
        if nm == "adt":
            nm = "%s::%s" % (r["adt"], r["variant"])
        if nm == "closure":
            nm = "closure:" + r["def"]
        return "%s{%s}" % (nm, ", ".join(op(b, x) for x in r["ops"]))
    if k == "repeat":
        return "[%s; %s]" % (op(b, r["a"]), r.get("n"))
    return "?%s %s" % (k, r.get("dbg", ""))


def dump(b, out=sys.stdout):
    w = out.write
    w("fn %s   [%s:%d] argc=%d\n" % (b.id, b.file, b.line, b.argc))
    for i, l in enumerate(b.locals):
        if i <= b.argc or l.get("n"):
            w("  let _%d%s: %s\n" % (i, "{%s}" % l["n"] if l.get("n") else "", b.f.types[l["t"]]["s"]))
    for i, blk in enumerate(b.blocks):
        if blk.get("cleanup"):
            continue
        w(" bb%d:\n" % i)
        for s in blk["stmts"]:
            if s["k"] == "assign":
                w("   %-4d %s = %s\n" % (s["line"], pl(b, s["p"]), rv(b, s["rv"])))
            else:
                w("   %-4d %s %s\n" % (s["line"], s["k"], s.get("dbg", pl(b, s["p"]) if "p" in s else "")))
        t = blk["term"]
        k = t["k"]
        exp = (" <%s>" % ">".join(t["exp"])) if t.get("exp") else ""
        if k == "call":
            c = t["callee"]
            w("   %-4d %s = call %s(%s) -> %s%s\n" % (t["line"], pl(b, t["dest"]), c.get("resolved") or c.get("path") or "indirect",
                                                    ", ".join(op(b, a) for a in t["args"]), "bb%s" % t["target"], exp))
        elif k == "switch":
            w("   %-4d switch %s [%s] else bb%d\n" % (t["line"], op(b, t["discr"]), ", ".join("%d->bb%d" % (v, tg) for v, tg in t["targets"]), t["otherwise"]))
        elif k == "assert":
            w("   %-4d assert(%s == %s) %s(%s) -> bb%d\n" % (t["line"], op(b, t["cond"]), t["expected"], t["ak"], ", ".join(op(b, x) for x in t["ops"]), t["target"]))
        elif k == "drop":
            w("   %-4d drop %s -> bb%d\n" % (t["line"], pl(b, t["p"]), t["target"]))
        elif k == "goto":
            w("   %-4d goto bb%d\n" % (t["line"], t["target"]))
        else:
            w("   %-4d %s %s\n" % (t["line"], k, t.get("dbg", "")[:80]))


if __name__ == "__main__":
    f = F.load()
    pat = sys.argv[1]
    for b in f.bodies.values():
        if pat in b.id:
            dump(b)
            print()

#!/usr/bin/env python3
import os, sys, time
from collections import Counter
sys.path.insert(0, os.path.dirname(os.path.dirname(os.path.abspath(__file__))))
sys.setrecursionlimit(20000)
from analysis import facts as F, cg, roots
from analysis.absint import Analyzer
f = F.load(); g = cg.CallGraph(f)
which = sys.argv[1]
if which == "TXT": rs = roots.txt_roots(f)
elif which == "GFX": rs = roots.gfx_roots(f)
else:
    d, l = roots.load_roots(f); rs = d + l
reach = g.reachable(rs)
an = Analyzer(f)
n = Counter()
for bid in sorted(reach):
    b = f.bodies[bid]
    if b.kind not in ("fn", "method", "closure"): continue
    r = an.analyze(b)
    fails = [o for o in r.obls if not o.ok]
    for o in r.obls: n[(o.cls, o.ok)] += 1
    if fails:
        print("==", b.short(), "[%s:%d]" % (b.file, b.line))
        for o in fails:
            print("   %-4s L%-4d %s | %s" % (o.cls, o.line or 0, o.desc[:100], o.what[:110]))
print(sorted(n.items()))

#!/usr/bin/env python3
"""tools/design_tables.py — regenerates the two generated tables of DESIGN.md §0 (between the <!-- ... --> markers):
the per-seed table from seeded/MATRIX.json + seeded/*/*/meta.json and the per-property verdict line from evidence/*.json."""
import json, os, re
V = os.path.dirname(os.path.dirname(os.path.abspath(__file__)))
m = json.load(open(os.path.join(V, "seeded", "MATRIX.json")))
man = json.load(open(os.path.join(V, "MANIFEST.json")))
claimed = {c["property_id"] for c in man["checks"]}
rows = ["| seed | round | change (first sentence of its description) | alarmed checks |", "|---|---|---|---|"]
tot = caught = 0


def key(s):
    a, b = s.split("/")
    return (a, int(b))
for sid in sorted(m, key=key):
    prop, n = sid.split("/")
    mp = os.path.join(V, "seeded", prop, n, "meta.json")
    if not os.path.exists(mp):
        continue
    meta = json.load(open(mp))
    txt = (meta.get("summary") or meta.get("breaks") or "").replace("|", "/").replace("\n", " ")
    txt = re.split(r"(?<=[.!?])\s", txt, 1)[0][:170]
    cb = m[sid]["caught_by"]
    if prop in claimed:
        tot += 1
        caught += bool(cb)
        res = ", ".join(cb) if cb else "**missed**"
    else:
        res = "- (property not claimed)"
    rows.append("| %s | %s | %s | %s |" % (sid, meta.get("round", "?"), txt, res))
rows.append("")
rows.append("%d of the %d changes aimed at a claimed property are reported by at least one check in the final state." % (caught, tot))
seed_table = "\n".join(rows)
# verdict lines
ev = []
for c in sorted(claimed):
    p = os.path.join(V, "evidence", c + ".json")
    if os.path.exists(p):
        e = json.load(open(p))
        cov = e.get("coverage", {})
        ev.append("| %s | %s | obligations %s, discharged %s; findings %s = reviewed %s + known %s; violations %s |" % (
            c, "held" if not e.get("violations") else "VIOLATED", cov.get("obligations", "?"), cov.get("discharged", "?"), cov.get("findings_total", 0),
            cov.get("findings_reviewed_safe", 0), cov.get("findings_known", 0), cov.get("violations", 0)))
p = os.path.join(V, "DESIGN.md")
s = open(p).read()


def put(tag, body, s):
    a, b = "<!-- %s -->" % tag, "<!-- /%s -->" % tag
    if a in s and b in s:
        return s[:s.index(a) + len(a)] + "\n" + body + "\n" + s[s.index(b):]
    return s
s = put("SEED-TABLE", seed_table, s)
s = put("VERDICTS", "| id | verdict of the last run | counts |\n|---|---|---|\n" + "\n".join(ev), s)
open(p, "w").write(s)
print("seed rows: %d (caught %d of %d claimed)" % (len(rows) - 4, caught, tot))

import sys, os
sys.path.insert(0,'/verif')
from analysis import facts as F
from analysis.absint import Analyzer
from analysis.absdom import State
from rules import panic_common as P
f=F.load(); g,ip=P.shared(f)
b=[x for x in f.bodies.values() if x.id.endswith("SauceString::<LEN, EMPTY>::read")][0]
an=Analyzer(f,interproc=ip); an.cargs={0:35,1:32}
st0=State(); st0.set_iv(("len",1,("*","0")),0,0)
orig=an.transfer_block
cnt=[0]
def show(st):
    return {(an.ts(a),an.ts(c)):d for (a,c),d in st.rel.items() if 'len((*self' in an.ts(a)+an.ts(c) and 'last' not in an.ts(a)+an.ts(c)}
def tb(bi, st):
    cnt[0]+=1
    outs=orig(bi, st.copy())
    if cnt[0]<60:
        print(cnt[0],"bb",bi,"in",show(st),"->",[(s,show(o)) for s,o in outs if o is not None and not o.bottom])
    return outs
an.transfer_block=tb
try:
    an.analyze(b,entry=st0,collect=False)
except Exception as e: print(e)

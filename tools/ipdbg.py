#!/usr/bin/env python3
"""tools/ipdbg.py TXT|LOAD|GFX — interprocedural run over a root set; list final failing obligations"""
import os, sys, time
from collections import Counter
sys.path.insert(0, os.path.dirname(os.path.dirname(os.path.abspath(__file__))))
sys.setrecursionlimit(50000)
from analysis import facts as F, cg, roots
from analysis.interproc import Interproc
f = F.load(); g = cg.CallGraph(f)
which = sys.argv[1]
if which == "TXT": rs = roots.txt_roots(f)
elif which == "GFX": rs = roots.gfx_roots(f)
else:
    d, l = roots.load_roots(f); rs = d + l
reach = g.reachable(rs)
t0 = time.time()
ip = Interproc(f, g)
print("mod %.1fs cyclic=%d" % (time.time() - t0, len(ip.cyclic)))
for bid in sorted(reach):
    if f.bodies[bid].kind in ("fn", "method", "closure"):
        ip.summary(bid)
print("analysed %d bodies %.1fs" % (len(ip.results), time.time() - t0))
n = Counter()
for bid in sorted(reach):
    r = ip.results.get(bid)
    if r is None: continue
    b = f.bodies[bid]
    isroot = bid in rs
    fails = []
    for o in r.obls:
        n[(o.cls, "ok" if o.ok else ("exported" if o.rule == "exported" else "FAIL"))] += 1
        if not o.ok and (o.rule != "exported" or isroot or b.kind == "closure"):
            fails.append(o)
    if fails:
        print("==", b.short(), "[%s:%d]%s" % (b.file, b.line, " ROOT" if isroot else ""))
        for o in fails:
            org = ""
            if o.trust and o.trust[0] == "origin":
                org = " <- " + F.short_name(o.trust[1])
            print("   %-4s L%-4d %s%s | %s%s" % (o.cls, o.line or 0, o.desc[:90], org, o.what[:100], " [exported]" if o.rule == "exported" else ""))
print(sorted(n.items()))

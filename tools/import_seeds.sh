#!/bin/bash
# tools/import_seeds.sh <PID> <agent worktree root, e.g. /tmp/seeds8> <own scratch worktree of /repo> <round>: verifies <root>/wt-<PID>/seeded/<i> with tools/verify_seed.sh and imports the verified ones as seeded/<PID>/<next>
P=$1; ROOT=${2:-/tmp/seeds8}; WT=${3:-/tmp/vs8}; ROUND=${4:-8}
for d in $ROOT/wt-$P/seeded/[0-9]*; do
  [ -f $d/patch.diff ] || continue
  res=$(/verif/tools/verify_seed.sh $WT $d 2>&1 | tail -1)
  echo "$P $(basename $d): $res"
  case "$res" in VERIFIED*)
    n=$(( $(ls /verif/seeded/$P | sort -n | tail -1) + 1 ))
    mkdir -p /verif/seeded/$P/$n
    cp $d/patch.diff /verif/seeded/$P/$n/; [ -f $d/demo.rs ] && cp $d/demo.rs /verif/seeded/$P/$n/; [ -f $d/demo_unit.patch ] && cp $d/demo_unit.patch /verif/seeded/$P/$n/
    python3 - $d/meta.json /verif/seeded/$P/$n/meta.json "$ROUND" <<'PY'
import json,sys
m=json.load(open(sys.argv[1])); m["round"]=sys.argv[3]
m["verified_by_me"]="tools/verify_seed.sh in a scratch worktree: per-test outcome of the suite identical to the baseline (227 ok / 52 FAILED), demo fails with the change and passes without"
json.dump(m,open(sys.argv[2],"w"),indent=1)
PY
    echo "  -> /verif/seeded/$P/$n";;
  esac
done

#!/usr/bin/env python3
"""tools/mutcheck.py <patch.diff> <prop> [<prop>…]  — apply a patch to /repo, run the checks, always revert.
Prints one line per property:  <prop> exit=<code>.   Used for seeded changes and checker self-tests."""
import os
import subprocess
import sys

REPO = os.environ.get("VERIF_REPO", "/repo")
VERIF = os.path.dirname(os.path.dirname(os.path.abspath(__file__)))


def main():
    patch = os.path.abspath(sys.argv[1])
    props = sys.argv[2:]
    verbose = os.environ.get("MUT_VERBOSE")
    st = subprocess.run(["git", "-C", REPO, "status", "--porcelain", "--untracked-files=no"], stdout=subprocess.PIPE, text=True).stdout
    if st.strip():
        print("refusing: /repo has uncommitted changes:\n" + st)
        return 2
    r = subprocess.run(["git", "-C", REPO, "apply", patch], stdout=subprocess.PIPE, stderr=subprocess.STDOUT, text=True)
    if r.returncode != 0:
        print("patch does not apply: " + r.stdout)
        return 3
    rc = 0
    try:
        for p in props:
            r = subprocess.run([os.path.join(VERIF, "check"), p], stdout=subprocess.PIPE, stderr=subprocess.STDOUT, text=True,
                               env=dict(os.environ, VERIF_EVIDENCE_DIR="/tmp/mutcheck-evidence"))
            viol = [l for l in r.stdout.splitlines() if l.startswith("VIOLATION") or l.startswith("  key:") or l.startswith("  what:")]
            print("%s exit=%d" % (p, r.returncode))
            for l in (r.stdout.splitlines() if verbose else viol[:12]):
                print("    " + l)
            if r.returncode not in (0, 1):
                print(r.stdout[-3000:])
    finally:
        subprocess.run(["git", "-C", REPO, "checkout", "--", "."], check=True)
    return rc


if __name__ == "__main__":
    sys.exit(main())

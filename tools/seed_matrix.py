#!/usr/bin/env python3
"""tools/seed_matrix.py [--scratch N] [Cxx ...] — applies each /verif/seeded/<id>/<n>/patch.diff, runs the check of the seed's
own property plus the related checks listed in RELATED, reverts, and records which checks alarm in /verif/seeded/MATRIX.json.
Default: the patch is applied to /repo itself (git apply ... git checkout -- .; never run concurrently with other checks).
--scratch N: N parallel workers, each on its own scratch copy of /repo under a mktemp directory (VERIF_REPO / VERIF_CACHE point
there; removed afterwards), so /repo is not touched at all."""
import json, os, re, subprocess, sys
VERIF = os.path.dirname(os.path.dirname(os.path.abspath(__file__)))
REPO = os.environ.get("VERIF_REPO", "/repo")
RELATED = {"C01": ["C09"], "C10": ["C07"], "C09": ["C01"], "C20": [], "C03": ["C09"], "C07": ["C11"], "C02": ["C11", "C03"], "C11": ["C02"], "C04": ["C18"], "C16": [], "C14": ["C01"]}
claimed = {c["property_id"] for c in json.load(open(os.path.join(VERIF, "MANIFEST.json")))["checks"]}
args = sys.argv[1:]
NSCRATCH = 0
if "--scratch" in args:
    i = args.index("--scratch")
    NSCRATCH = int(args[i + 1])
    del args[i:i + 2]
WORKER = None
if "--worker" in args:          # internal: --worker <repo copy> <cache dir> <seed ids...>
    i = args.index("--worker")
    WORKER = (args[i + 1], args[i + 2])
    want_ids = args[i + 3:]
    args = []
want = args
mpath = os.path.join(VERIF, "seeded", "MATRIX.json")
matrix = json.load(open(mpath)) if os.path.exists(mpath) else {}
env = dict(os.environ, VERIF_EVIDENCE_DIR="/tmp/seed-matrix-evidence")
all_ids = []
for prop in sorted(os.listdir(os.path.join(VERIF, "seeded"))):
    d = os.path.join(VERIF, "seeded", prop)
    if os.path.isdir(d) and re.match(r"C\d\d$", prop) and (not want or prop in want):
        all_ids += ["%s/%s" % (prop, n) for n in sorted(os.listdir(d)) if os.path.exists(os.path.join(d, n, "patch.diff"))]


def run_one(sid, repo, env, use_git):
    prop, n = sid.split("/")
    patch = os.path.join(VERIF, "seeded", prop, n, "patch.diff")
    checks = [p for p in [prop] + RELATED.get(prop, []) if p in claimed]
    res = {}
    try:
        if use_git:
            subprocess.run(["git", "-C", repo, "apply", patch], check=True)
        else:
            subprocess.run(["patch", "-p1", "-s", "--no-backup-if-mismatch", "-i", patch], cwd=repo, check=True)
        for p in checks:
            r = subprocess.run([os.path.join(VERIF, "check"), p], stdout=subprocess.PIPE, stderr=subprocess.STDOUT, text=True, env=env)
            keys = sorted(set(re.findall(r"^  key: (.*?)   \(found", r.stdout, re.M)))
            res[p] = {"exit": r.returncode, "alarms": [k[:160] for k in keys][:6]}
    finally:
        if use_git:
            subprocess.run(["git", "-C", repo, "checkout", "--", "."], check=True)
        else:
            subprocess.run(["patch", "-p1", "-R", "-s", "--no-backup-if-mismatch", "-i", patch], cwd=repo, check=True)
    return {"own_property_claimed": prop in claimed, "checks": res, "caught_by": sorted(p for p, v in res.items() if v["exit"] == 1)}


if WORKER is not None:
    repo, cache = WORKER
    env = dict(os.environ, VERIF_EVIDENCE_DIR=os.path.join(cache, "evidence"), VERIF_REPO=repo, VERIF_CACHE=cache)
    out = {}
    for sid in want_ids:
        out[sid] = run_one(sid, repo, env, False)
        print("%s caught_by=%s" % (sid, out[sid]["caught_by"]), flush=True)
        json.dump(out, open(os.path.join(cache, "result.json"), "w"))
    sys.exit(0)
if NSCRATCH:
    import tempfile, shutil
    base = tempfile.mkdtemp(prefix="verif-seedmatrix-")
    procs = []
    try:
        for w in range(NSCRATCH):
            ids = all_ids[w::NSCRATCH]
            if not ids:
                continue
            repo = os.path.join(base, "repo%d" % w)
            cache = os.path.join(base, "cache%d" % w)
            os.makedirs(cache)
            subprocess.run(["rsync", "-a", "--exclude", "target", "--exclude", ".git", REPO + "/", repo + "/"], check=True)
            procs.append((cache, subprocess.Popen([sys.executable, os.path.abspath(__file__), "--worker", repo, cache] + ids)))
        for cache, pr in procs:
            pr.wait()
            rp = os.path.join(cache, "result.json")
            if os.path.exists(rp):
                matrix.update(json.load(open(rp)))
        json.dump(matrix, open(mpath, "w"), indent=1, sort_keys=True)
    finally:
        shutil.rmtree(base, ignore_errors=True)
    print("done: %d seeds recorded" % len(matrix))
    sys.exit(0)
assert subprocess.run(["git", "-C", REPO, "status", "--porcelain", "--untracked-files=no"], stdout=subprocess.PIPE, text=True).stdout.strip() == "", "/repo is not pristine"
for prop in sorted(os.listdir(os.path.join(VERIF, "seeded"))):
    d = os.path.join(VERIF, "seeded", prop)
    if not os.path.isdir(d) or (want and prop not in want):
        continue
    for n in sorted(os.listdir(d)):
        patch = os.path.join(d, n, "patch.diff")
        if not os.path.exists(patch):
            continue
        checks = [p for p in [prop] + RELATED.get(prop, []) if p in claimed]
        res = {}
        try:
            subprocess.run(["git", "-C", REPO, "apply", patch], check=True)
            for p in checks:
                r = subprocess.run([os.path.join(VERIF, "check"), p], stdout=subprocess.PIPE, stderr=subprocess.STDOUT, text=True, env=env)
                keys = sorted(set(re.findall(r"^  key: (.*?)   \(found", r.stdout, re.M)))
                res[p] = {"exit": r.returncode, "alarms": [k[:160] for k in keys][:6]}
        finally:
            subprocess.run(["git", "-C", REPO, "checkout", "--", "."], check=True)
        matrix["%s/%s" % (prop, n)] = {"own_property_claimed": prop in claimed, "checks": res,
                                       "caught_by": sorted(p for p, v in res.items() if v["exit"] == 1)}
        print("%s/%s caught_by=%s" % (prop, n, matrix["%s/%s" % (prop, n)]["caught_by"]), flush=True)
        json.dump(matrix, open(mpath, "w"), indent=1, sort_keys=True)

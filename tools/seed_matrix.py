#!/usr/bin/env python3
"""tools/seed_matrix.py [Cxx ...] — applies each /verif/seeded/<id>/<n>/patch.diff to /repo (git apply), runs the check of the
seed's own property plus the related checks listed in RELATED, reverts (git checkout -- .), and records which checks alarm in
/verif/seeded/MATRIX.json.  /repo is left pristine.  Never run concurrently with other checks (it changes /repo's working tree)."""
import json, os, re, subprocess, sys
VERIF = os.path.dirname(os.path.dirname(os.path.abspath(__file__)))
REPO = os.environ.get("VERIF_REPO", "/repo")
RELATED = {"C01": ["C09"], "C10": ["C07"], "C09": ["C01"], "C20": [], "C03": [], "C02": ["C11"], "C11": ["C02"], "C04": ["C18"], "C16": [], "C14": ["C01"]}
claimed = {c["property_id"] for c in json.load(open(os.path.join(VERIF, "MANIFEST.json")))["checks"]}
want = sys.argv[1:]
mpath = os.path.join(VERIF, "seeded", "MATRIX.json")
matrix = json.load(open(mpath)) if os.path.exists(mpath) else {}
env = dict(os.environ, VERIF_EVIDENCE_DIR="/tmp/seed-matrix-evidence")
assert subprocess.run(["git", "-C", REPO, "status", "--porcelain", "--untracked-files=no"], stdout=subprocess.PIPE, text=True).stdout.strip() == "", "/repo is not pristine"
for prop in sorted(os.listdir(os.path.join(VERIF, "seeded"))):
    d = os.path.join(VERIF, "seeded", prop)
    if not os.path.isdir(d) or (want and prop not in want):
        continue
    for n in sorted(os.listdir(d)):
        patch = os.path.join(d, n, "patch.diff")
        if not os.path.exists(patch):
            continue
        checks = [p for p in [prop] + RELATED.get(prop, []) if p in claimed]
        res = {}
        try:
            subprocess.run(["git", "-C", REPO, "apply", patch], check=True)
            for p in checks:
                r = subprocess.run([os.path.join(VERIF, "check"), p], stdout=subprocess.PIPE, stderr=subprocess.STDOUT, text=True, env=env)
                keys = sorted(set(re.findall(r"^  key: (.*?)   \(found", r.stdout, re.M)))
                res[p] = {"exit": r.returncode, "alarms": [k[:160] for k in keys][:6]}
        finally:
            subprocess.run(["git", "-C", REPO, "checkout", "--", "."], check=True)
        matrix["%s/%s" % (prop, n)] = {"own_property_claimed": prop in claimed, "checks": res,
                                       "caught_by": sorted(p for p, v in res.items() if v["exit"] == 1)}
        print("%s/%s caught_by=%s" % (prop, n, matrix["%s/%s" % (prop, n)]["caught_by"]), flush=True)
        json.dump(matrix, open(mpath, "w"), indent=1, sort_keys=True)

#!/usr/bin/env python3
"""tools/dead_state_scan.py — self-check of the abstract interpreter: in no analysed body may a block be entered with a live
state and left with none unless its terminator diverges (return, unreachable, resume, a call without a return edge).  A block
that silently turns the state into bottom makes everything after it vacuously "proven" (see DESIGN §0.4).  Exit 1 and one line
per offending block otherwise."""
import os, sys
sys.path.insert(0, os.path.dirname(os.path.dirname(os.path.abspath(__file__))))
from analysis import facts as F
from rules import panic_common as P
from analysis.absint import Analyzer
f = F.load()
g, ip = P.shared(f)
ip.s9_unsigned = True
bad = []
n = 0
for bid, b in sorted(f.bodies.items()):
    if b.kind not in ("fn", "method", "closure"):
        continue
    try:
        an = Analyzer(f, interproc=ip)
        an.s9_unsigned = True
        an.analyze(b, collect=False)
    except Exception as e:
        continue
    n += 1
    for bi in range(b.nblocks):
        st = an.res.in_states.get(bi)
        if st is None or st.bottom:
            continue
        t = b.blocks[bi]["term"]
        if t["k"] in ("return", "unreachable", "resume") or not b.succ[bi]:
            continue
        if t["k"] == "call" and t.get("target") is None:
            continue
        if not any(an.res.edge_states.get((bi, s)) is not None for s in b.succ[bi]):
            if t["k"] == "call" and P.PANIC_FN.search(t["callee"].get("resolved") or t["callee"].get("path") or "") if hasattr(P, "PANIC_FN") else False:
                continue
            bad.append("%s block %d (%s, line %s)" % (bid, bi, t["k"], t.get("line")))
print("dead-state scan: %d bodies, %d blocks lose their state" % (n, len(bad)))
for x in bad:
    print("  " + x)
sys.exit(1 if bad else 0)

#!/usr/bin/env python3
"""tools/benign_matrix.py [--scratch N] [patch files ...] — applies each behaviour-preserving patch (default: every
selftest/<ID>/silent_*.patch) to a scratch copy of /repo, runs ALL claimed checks on it, reverts, and prints the checks that
alarm (there must be none).  /repo is not touched; the scratch copies live under a mktemp directory and are removed."""
import glob, json, os, subprocess, sys, tempfile, shutil
VERIF = os.path.dirname(os.path.dirname(os.path.abspath(__file__)))
REPO = os.environ.get("VERIF_REPO", "/repo")
args = sys.argv[1:]
N = 8
if "--scratch" in args:
    i = args.index("--scratch"); N = int(args[i + 1]); del args[i:i + 2]
claimed = [c["property_id"] for c in json.load(open(os.path.join(VERIF, "MANIFEST.json")))["checks"]]
if os.environ.get("BENIGN_CHECKS"):         # restrict to some checks (after a change to their rule modules only)
    claimed = [c for c in claimed if c in os.environ["BENIGN_CHECKS"].split(",")]
if "--worker" in args:
    i = args.index("--worker")
    repo, cache = args[i + 1], args[i + 2]
    env = dict(os.environ, VERIF_EVIDENCE_DIR=os.path.join(cache, "evidence"), VERIF_REPO=repo, VERIF_CACHE=cache)
    for patch in args[i + 3:]:
        if subprocess.run(["patch", "-p1", "-s", "--no-backup-if-mismatch", "--dry-run", "-i", patch], cwd=repo, stdout=subprocess.DEVNULL).returncode != 0:
            print("%s: DOES NOT APPLY" % patch, flush=True)
            continue
        subprocess.run(["patch", "-p1", "-s", "--no-backup-if-mismatch", "-i", patch], cwd=repo, check=True)
        bad = []
        try:
            for p in claimed:
                r = subprocess.run([os.path.join(VERIF, "check"), p], stdout=subprocess.PIPE, stderr=subprocess.STDOUT, text=True, env=env)
                if r.returncode != 0:
                    bad.append("%s(rc=%d)" % (p, r.returncode))
        finally:
            subprocess.run(["patch", "-p1", "-R", "-s", "--no-backup-if-mismatch", "-i", patch], cwd=repo, check=True)
        print("%s: %s" % (os.path.relpath(patch, VERIF), " ".join(bad) or "all silent"), flush=True)
    sys.exit(0)
patches = [os.path.abspath(a) for a in args] or sorted(glob.glob(os.path.join(VERIF, "selftest", "C*", "silent_*.patch")))
base = tempfile.mkdtemp(prefix="verif-benign-")
try:
    procs = []
    for w in range(N):
        mine = patches[w::N]
        if not mine:
            continue
        repo, cache = os.path.join(base, "repo%d" % w), os.path.join(base, "cache%d" % w)
        os.makedirs(cache)
        subprocess.run(["rsync", "-a", "--exclude", "target", "--exclude", ".git", REPO + "/", repo + "/"], check=True)
        procs.append(subprocess.Popen([sys.executable, os.path.abspath(__file__), "--worker", repo, cache] + mine))
    rc = 0
    for pr in procs:
        pr.wait()
finally:
    shutil.rmtree(base, ignore_errors=True)

#!/usr/bin/env python3
"""Regenerates /verif/MANIFEST.json from tools/manifest_src.py (single source of truth) and validates it."""
import json, os, sys
VERIF = os.path.dirname(os.path.dirname(os.path.abspath(__file__)))
sys.path.insert(0, os.path.join(VERIF, "tools"))
import manifest_src as M

props = [json.loads(l)["id"] for l in open(os.path.join(VERIF, "properties.jsonl"))]
checks = []
for pid in props:
    c = M.CLAIMED.get(pid)
    if not c:
        continue
    checks.append({
        "property_id": pid,
        "quick_cmd": "./check %s --tier quick" % pid,
        "thorough_cmd": "./check %s --tier thorough" % pid,
        "evidence_file": "/verif/evidence/%s.json" % pid,
        "replay_cmd_template": "./check %s --replay {path}" % pid,
        "engine": "mirfacts+rules",
        "level_claimed": {"category": c["category"], "text": c["text"], "design_ref": c["design_ref"]},
        "level_note": c["note"],
        "technique": c["technique"],
    })
na = [{"property_id": p, "reason": M.NOT_APPLICABLE[p]} for p in props if p not in M.CLAIMED]
missing = [p for p in props if p not in M.CLAIMED and p not in M.NOT_APPLICABLE]
assert not missing, missing
m = {
    "version": 1,
    "setup_cmd": M.SETUP,
    "hooks": {"guard": "icy_engine_verif", "enable": "none: no hooks exist in /repo; the checks analyse the unmodified sources (cfg flag reserved, unused)",
              "baseline_off_cmd": "cd /repo && cargo test --workspace --no-fail-fast --offline", "source_commits": [], "add_only": True},
    "engines": M.ENGINES,
    "checks": checks,
    "notes": M.NOTES,
    "not_applicable": na,
}
json.dump(m, open(os.path.join(VERIF, "MANIFEST.json"), "w"), indent=1)
try:
    import jsonschema
    jsonschema.validate(m, json.load(open("/root/.vp/MANIFEST.schema.json")))
    print("MANIFEST.json valid; %d checks, %d not applicable" % (len(checks), len(na)))
except ImportError:
    print("MANIFEST.json written (jsonschema not importable here; run with python3-vt to validate)")

#!/bin/sh
# runs every claimed check (quick) in parallel and prints one summary line each; exit 1 if any is not ok
cd "$(dirname "$0")/.."
python3 -c "import sys; sys.path.insert(0,'.'); from analysis import facts; facts.load()" >/dev/null 2>&1
ids=$(python3 -c "import json; print(' '.join(c['property_id'] for c in json.load(open('MANIFEST.json'))['checks']))")
tmp=$(mktemp -d)
for p in $ids; do echo $p; done | xargs -P 6 -I{} sh -c "./check {} > $tmp/{}.out 2>&1; echo \$? > $tmp/{}.rc"
bad=0
for p in $ids; do line=$(grep -E "^$p: " $tmp/$p.out | tail -1); rc=$(cat $tmp/$p.rc); echo "rc=$rc $line"; [ "$rc" = "0" ] || bad=1; done
python3 tools/dead_state_scan.py > $tmp/scan.out 2>&1; [ $? = 0 ] || bad=1; head -12 $tmp/scan.out
rm -rf $tmp
exit $bad
